"""M — resolved source model: modules, imports, classes with C3 MRO,
attribute tables, registry reconstruction, callee resolution."""
import ast
from dataclasses import dataclass, field

from .src import PKG, AnalysisError, SourceTree


@dataclass
class FuncInfo:
    name: str
    qualname: str          # module:Class.func or module:func
    module: str
    cls: str | None
    node: ast.FunctionDef
    path: str
    decorators: list = field(default_factory=list)

    @property
    def is_property(self):
        # lazyproperty / cached_property read like a property (that they *remember* the value is the business of
        # rules.c01.memoised_geometry and of FX, not of the evaluation of one access)
        return any(d.split('.')[-1] in ('property', 'lazyproperty', 'cached_property') for d in self.decorators)

    @property
    def is_static(self):
        return 'staticmethod' in self.decorators

    @property
    def is_classmethod(self):
        return 'classmethod' in self.decorators

    @property
    def is_abstract(self):
        return any(d.endswith('abstractmethod') for d in self.decorators)

    def loc(self, node=None):
        n = node if node is not None else self.node
        return f'{self.path}:{self.qualname.split(":")[1]}:{getattr(n, "lineno", 0)}'


@dataclass
class ClassInfo:
    name: str
    module: str
    path: str
    node: ast.ClassDef
    base_exprs: list
    bases: list = field(default_factory=list)     # resolved ClassInfo or str (external)
    mro: list = field(default_factory=list)        # ClassInfo list (repo classes only)
    methods: dict = field(default_factory=dict)    # name -> FuncInfo
    assigns: dict = field(default_factory=dict)    # name -> ast value (class-level)

    @property
    def key(self):
        return f'{self.module}:{self.name}'


@dataclass
class ModuleInfo:
    name: str
    path: str
    tree: ast.Module
    imports: dict = field(default_factory=dict)    # local name -> (module, attr|None)
    functions: dict = field(default_factory=dict)  # name -> FuncInfo
    classes: dict = field(default_factory=dict)    # name -> ClassInfo
    assigns: dict = field(default_factory=dict)    # name -> list of ast stmt (module-level)
    all_names: list | None = None


def _dec_name(d):
    if isinstance(d, ast.Call):
        d = d.func
    try:
        return ast.unparse(d)
    except Exception:  # pragma: no cover
        return '?'


def mod_name_of(rel):
    m = rel[:-3] if rel.endswith('.py') else rel[:-4]
    parts = m.split('/')
    if parts[-1] == '__init__':
        parts = parts[:-1]
    return '.'.join(parts)


class Model:
    def __init__(self, tree: SourceTree | None = None, with_pyx=True):
        self.src = tree or SourceTree()
        self.modules = {}
        self.classes_by_name = {}
        self.n_functions = 0
        self._load(with_pyx)
        self._resolve_classes()
        self.registry = self._registry()

    # ---------------------------------------------------------------- load
    def _load(self, with_pyx):
        files = list(self.src.py_files())
        if with_pyx:
            files += self.src.pyx_files()
        for rel in files:
            tree = self.src.parse(rel)
            mi = ModuleInfo(mod_name_of(rel), rel, tree)
            is_pkg = rel.endswith('__init__.py')
            for st in tree.body:
                self._module_stmt(mi, st, is_pkg)
            self.modules[mi.name] = mi

    def _module_stmt(self, mi, st, is_pkg):
        if isinstance(st, ast.Import):
            for a in st.names:
                mi.imports[(a.asname or a.name).split('.')[0]] = (a.name, None)
        elif isinstance(st, ast.ImportFrom):
            base = st.module or ''
            if st.level:
                parts = mi.name.split('.')
                if not is_pkg:
                    parts = parts[:-1]
                parts = parts[:len(parts) - (st.level - 1)]
                base = '.'.join(parts + ([st.module] if st.module else []))
            for a in st.names:
                if a.name == '*':
                    mi.imports.setdefault('*', []).append(base)
                else:
                    mi.imports[a.asname or a.name] = (base, a.name)
        elif isinstance(st, ast.FunctionDef):
            fi = FuncInfo(st.name, f'{mi.name}:{st.name}', mi.name, None, st,
                          mi.path, [_dec_name(d) for d in st.decorator_list])
            mi.functions[st.name] = fi
            self.n_functions += 1
        elif isinstance(st, ast.ClassDef):
            ci = ClassInfo(st.name, mi.name, mi.path, st, st.bases)
            for b in st.body:
                if isinstance(b, ast.FunctionDef):
                    fi = FuncInfo(b.name, f'{mi.name}:{st.name}.{b.name}',
                                  mi.name, st.name, b, mi.path,
                                  [_dec_name(d) for d in b.decorator_list])
                    # property setters share the name: keep the getter
                    if b.name in ci.methods and any(
                            d.endswith('.setter') for d in fi.decorators):
                        ci.methods[b.name + '.setter'] = fi
                    else:
                        ci.methods[b.name] = fi
                    self.n_functions += 1
                elif isinstance(b, ast.Assign):
                    for t in b.targets:
                        if isinstance(t, ast.Name):
                            ci.assigns[t.id] = b.value
                elif isinstance(b, ast.AnnAssign) and isinstance(b.target, ast.Name):
                    ci.assigns[b.target.id] = b.value
            mi.classes[st.name] = ci
            self.classes_by_name.setdefault(st.name, []).append(ci)
        elif isinstance(st, (ast.Assign, ast.AugAssign, ast.AnnAssign)):
            targets = st.targets if isinstance(st, ast.Assign) else [st.target]
            for t in targets:
                root = t
                while isinstance(root, (ast.Subscript, ast.Attribute)):
                    root = root.value
                if isinstance(root, ast.Name):
                    mi.assigns.setdefault(root.id, []).append(st)
                    if root.id == '__all__' and isinstance(st, ast.Assign):
                        try:
                            mi.all_names = list(ast.literal_eval(st.value))
                        except Exception:
                            pass
        elif isinstance(st, (ast.If, ast.Try)):
            for sub in ast.iter_child_nodes(st):
                if isinstance(sub, ast.stmt):
                    self._module_stmt(mi, sub, is_pkg)

    # ------------------------------------------------------------ resolve
    def resolve_name(self, modname, name, _seen=None):
        """Resolve a module-level name to ('class', ClassInfo) /
        ('func', FuncInfo) / ('module', name) / ('const', (ModuleInfo, name)) /
        ('ext', dotted)."""
        _seen = _seen or set()
        if (modname, name) in _seen:
            return ('ext', f'{modname}.{name}')
        _seen.add((modname, name))
        mi = self.modules.get(modname)
        if mi is None:
            return ('ext', f'{modname}.{name}')
        if name in mi.classes:
            return ('class', mi.classes[name])
        if name in mi.functions:
            return ('func', mi.functions[name])
        if name in mi.assigns:
            return ('const', (mi, name))
        if name in mi.imports and name != '*':
            base, attr = mi.imports[name]
            if attr is None:
                return ('module', base)
            if base in self.modules:
                sub = f'{base}.{attr}'
                if sub in self.modules and attr not in self.modules[base].classes \
                        and attr not in self.modules[base].functions \
                        and attr not in self.modules[base].assigns \
                        and attr not in self.modules[base].imports:
                    return ('module', sub)
                return self.resolve_name(base, attr, _seen)
            if f'{base}.{attr}' in self.modules:
                return ('module', f'{base}.{attr}')
            return ('ext', f'{base}.{attr}')
        for base in mi.imports.get('*', []):
            bm = self.modules.get(base)
            if bm is None:
                continue
            r = self.resolve_name(base, name, _seen)
            if r[0] != 'ext':
                return r
        return ('ext', name)

    def _resolve_classes(self):
        for mi in self.modules.values():
            for ci in mi.classes.values():
                ci.bases = []
                for b in ci.base_exprs:
                    r = None
                    if isinstance(b, ast.Name):
                        r = self.resolve_name(mi.name, b.id)
                    elif isinstance(b, ast.Attribute) and isinstance(b.value, ast.Name):
                        rr = self.resolve_name(mi.name, b.value.id)
                        if rr[0] == 'module' and rr[1] in self.modules:
                            r = self.resolve_name(rr[1], b.attr)
                    if r and r[0] == 'class':
                        ci.bases.append(r[1])
                    else:
                        ci.bases.append(ast.unparse(b))
        done = {}

        def mro(ci, stack=()):
            if ci.key in done:
                return done[ci.key]
            if ci.key in stack:
                raise AnalysisError('M', ci.key, 'cyclic inheritance')
            seqs = [mro(b, stack + (ci.key,))[:] for b in ci.bases
                    if isinstance(b, ClassInfo)]
            seqs.append([b for b in ci.bases if isinstance(b, ClassInfo)])
            res = [ci]
            seqs = [s for s in seqs if s]
            while seqs:
                for s in seqs:
                    cand = s[0]
                    if not any(cand in t[1:] for t in seqs):
                        break
                else:
                    raise AnalysisError('M', ci.key, 'inconsistent MRO')
                res.append(cand)
                seqs = [[c for c in s if c is not cand] for s in seqs]
                seqs = [s for s in seqs if s]
            done[ci.key] = res
            return res

        for mi in self.modules.values():
            for ci in mi.classes.values():
                ci.mro = mro(ci)

    # ------------------------------------------------------------- lookup
    def cls(self, name, module=None):
        cands = self.classes_by_name.get(name, [])
        if module:
            cands = [c for c in cands if c.module == module]
        if len(cands) == 1:
            return cands[0]
        if not cands:
            raise AnalysisError('M', name, 'class not found (anchor vanished)')
        raise AnalysisError('M', name, 'ambiguous class name')

    def has_cls(self, name):
        return len(self.classes_by_name.get(name, [])) == 1

    def lookup(self, ci, attr):
        """MRO lookup: (defining ClassInfo, 'method'|'assign', FuncInfo|ast) or None."""
        for c in ci.mro:
            if attr in c.methods:
                return (c, 'method', c.methods[attr])
            if attr in c.assigns:
                return (c, 'assign', c.assigns[attr])
        return None

    def method(self, ci, name):
        r = self.lookup(ci, name)
        if r and r[1] == 'method':
            return r[2]
        return None

    def is_subclass(self, ci, basename):
        return any(c.name == basename for c in ci.mro)

    def subclasses(self, basename):
        out = []
        for mi in self.modules.values():
            for ci in mi.classes.values():
                if self.is_subclass(ci, basename):
                    out.append(ci)
        return out

    def is_abstract(self, ci):
        if any(isinstance(b, str) and b.endswith('ABC') for b in ci.bases):
            return True
        names = set()
        for c in ci.mro:
            names.update(c.methods)
        for n in names:
            f = self.method(ci, n)
            if f is not None and f.is_abstract:
                return True
        return False

    def region_classes(self, kind=None, concrete=True):
        """Concrete Region subclasses; kind in {None,'pixel','sky'}."""
        out = []
        for ci in self.subclasses('Region'):
            if ci.name in ('Region', 'PixelRegion', 'SkyRegion'):
                continue
            if concrete and self.is_abstract(ci):
                continue
            if kind == 'pixel' and not self.is_subclass(ci, 'PixelRegion'):
                continue
            if kind == 'sky' and not self.is_subclass(ci, 'SkyRegion'):
                continue
            out.append(ci)
        return sorted(out, key=lambda c: c.name)

    def params_of(self, ci):
        r = self.lookup(ci, '_params')
        if r is None or r[1] != 'assign':
            raise AnalysisError('M', ci.name, '_params not found')
        try:
            return tuple(ast.literal_eval(r[2]))
        except Exception:
            raise AnalysisError('M', ci.name, '_params is not a literal tuple')

    def descriptor_kind(self, ci, attr):
        """Name of the descriptor class bound to ``attr`` in the MRO, or None."""
        r = self.lookup(ci, attr)
        if r is None or r[1] != 'assign':
            return None
        v = r[2]
        if isinstance(v, ast.Call) and isinstance(v.func, ast.Name):
            rr = self.resolve_name(r[0].module, v.func.id)
            if rr[0] == 'class' and self.is_subclass(rr[1], 'RegionAttribute'):
                return rr[1].name
        return None

    def func(self, modname, name):
        mi = self.modules.get(modname)
        if mi is None or name not in mi.functions:
            raise AnalysisError('M', f'{modname}:{name}', 'function not found (anchor vanished)')
        return mi.functions[name]

    def all_functions(self):
        for mi in self.modules.values():
            yield from mi.functions.values()
            for ci in mi.classes.values():
                yield from ci.methods.values()

    # ----------------------------------------------------------- registry
    def _registry(self):
        """{(classname, method, fmt): FuncInfo} from @RegionsRegistry.register."""
        reg = {}
        for mi in self.modules.values():
            for fi in mi.functions.values():
                for d in fi.node.decorator_list:
                    if (isinstance(d, ast.Call) and isinstance(d.func, ast.Attribute)
                            and d.func.attr == 'register'
                            and isinstance(d.func.value, ast.Name)
                            and d.func.value.id == 'RegionsRegistry'):
                        try:
                            cls = d.args[0].id
                            meth = ast.literal_eval(d.args[1])
                            fmt = ast.literal_eval(d.args[2])
                        except Exception:
                            raise AnalysisError('M', fi.qualname,
                                                'unreadable register() decorator')
                        reg[(cls, meth, fmt)] = fi
        return reg

    def registered(self, method, fmt, cls='Regions'):
        fi = self.registry.get((cls, method, fmt))
        if fi is None:
            raise AnalysisError('M', f'registry[{cls},{method},{fmt}]',
                                'registered I/O function not found')
        return fi

    # ---------------------------------------------------- callee resolution
    def resolve_call(self, fi: FuncInfo, call: ast.Call, self_cls: ClassInfo | None = None):
        """Return a list of FuncInfo (repo callees; constructors -> __init__)
        or [] when external/unknown."""
        f = call.func
        mi = self.modules[fi.module]
        scls = self_cls or (mi.classes.get(fi.cls) if fi.cls else None)
        if isinstance(f, ast.Name):
            r = self.resolve_name(fi.module, f.id)
            return self._as_funcs(r)
        if isinstance(f, ast.Attribute):
            v = f.value
            if isinstance(v, ast.Name):
                if v.id in ('self', 'cls') and scls is not None:
                    m = self.method(scls, f.attr)
                    return [m] if m else []
                r = self.resolve_name(fi.module, v.id)
                if r[0] == 'class':
                    m = self.method(r[1], f.attr)
                    return [m] if m else []
                if r[0] == 'module' and r[1] in self.modules:
                    return self._as_funcs(self.resolve_name(r[1], f.attr))
            if (isinstance(v, ast.Call) and isinstance(v.func, ast.Name)
                    and v.func.id == 'super' and scls is not None):
                for c in scls.mro[1:]:
                    if f.attr in c.methods:
                        return [c.methods[f.attr]]
        return []

    def _as_funcs(self, r):
        if r[0] == 'func':
            return [r[1]]
        if r[0] == 'class':
            m = self.method(r[1], '__init__')
            return [m] if m else []
        return []

    def stats(self):
        ncls = sum(len(m.classes) for m in self.modules.values())
        return {'modules': len(self.modules), 'classes': ncls,
                'functions': self.n_functions}
