"""C02 — centre / subpixel masks are the sampled membership function."""
import ast

import sympy as sp

from ..astutil import call_name, calls_in
from ..report import RuleDef
from ..src import AnalysisError
from ..vg import (App, BoolT, Cmp, Const, DictV, Evaluator, ExtRef, Frame, Ite, Obj,
                  Tup, contains_unknown, is_num, mk_not, num_equal, pred_equiv,
                  same, show, sym, truthy)
from .c01 import _find_apps, shape_oracle
from .c04 import MASKED, mask_term
from .common import (conj_list, evaluator, inc_atom, method_or_fail,
                     need_known, pixq, split_include)

EXPLANATION = (
    'Decides from source: (R1) _validate_mode guards every kernel-calling to_mask and mode="center" '
    'reaches the kernel as use_exact=0, subpixels=1 (so centre = subpixels(1) by construction); '
    '(R2) the kernel receives the pixel-edge extents of self.bounding_box, recentred on the region '
    'centre for origin-centred kernels, (nx, ny) = box shape in that order, and size/angle '
    'arguments in the kernel\'s convention; (R3) the four *_single_subpixel kernels sample at '
    'x0+(k+1/2)dx, count by 1 under the predicate and divide by n*n, and the four *_grid kernels '
    'hand pixel (i, j) the edges xmin+i*dx.. and store at frac[j, i]; (R4) the kernel membership '
    'predicate, after substituting the call-site arguments, is the predicate of contains(); '
    '(R5) the compound mask pads each operand to the union box (bottom/top on axis 0, left/right '
    'on axis 1), applies the operator and carries the union box; (R6) every to_mask either returns '
    'a RegionMask or raises NotImplementedError/ValueError; (R7) _validate_mode raises exactly on '
    'invalid mode/subpixels. Not decided: the geometric fast paths of the circular kernel, values '
    'in {0,1}, kernel binary vs source.')
EXPLANATION_ADDED = (' Also (R5): an operand whose own include flag is false is complemented, and an operand that is itself a compound is padded with the value it has outside its own box (the serial pad value is partially evaluated on the 12 operator x include cases of a nested compound).')
EXPLANATION += EXPLANATION_ADDED
EXPLANATION_ADDED2 = (' (R0, thorough) assumption check only: the generated C files are not older than the .pyx sources the rules analysed.')
EXPLANATION += EXPLANATION_ADDED2
EXPLANATION_ADDED3 = (' (R5 also) the compound mask is decided on nested operands (depth-3 probes) and by an induction step over 48 operand-shape cases: if both operand masks are the centre-mode masks on their boxes, the padded combination is the centre-mode mask of the compound on the union box (pads and box by order types).')
EXPLANATION += EXPLANATION_ADDED3
EXPLANATION_ADDED4 = (" (R8) to_mask and every property/method of `self` it reads keep nothing between calls, unless every parameter writer (each descriptor's __set__, the class's __setattr__) drops the remembered entry and the remembered value reads only by-value parameters (shared memo analysis, see C01.R8).")
EXPLANATION += EXPLANATION_ADDED4
TRUSTED = ['the .so kernels were built from the .pyx analysed', 'np.pad(a, ((b,t),(l,r))) pads axis 0 then axis 1',
           'Quantity.to(u.rad).value is the angle in radians']
ASSUMPTIONS = ['real arithmetic', 'external calls are pure']

H = sp.Rational(1, 2)
KERNEL = {'CirclePixelRegion': 'circular', 'EllipsePixelRegion': 'elliptical',
          'RectanglePixelRegion': 'rectangular', 'PolygonPixelRegion': 'polygonal'}


def r1(ctx):
    for cname in MASKED:
        ci = ctx.model.cls(cname)
        f = method_or_fail(ctx, ci, 'to_mask')
        construct = f'{cname}.to_mask'
        ev = evaluator(ctx)
        s = ev.symbolic_instance(ci)
        out = ev.run(f, [s], {'mode': Const('bogus'), 'subpixels': sp.Integer(3)})
        uncond = [n for pc, n, _ in out.raises if not pc and n == 'ValueError']
        if out.returns or not uncond:
            ctx.bad(construct, 'mode-not-validated',
                    'an invalid mode is not rejected with ValueError before the mask is built', f.loc())
            continue
        ci, f, s, t, ev = mask_term(ctx, cname, 'center')
        calls = _find_apps(t.fields.get('data') if isinstance(t, Obj) else t, f'call:{KERNEL[cname]}_overlap_grid')
        ctx.need(calls, construct, 'kernel call not found')
        a = calls[0].args
        if len(a) >= 2 and a[-2] == 0 and a[-1] == 1:
            ctx.ok(construct, 'center -> use_exact=0, subpixels=1')
        else:
            ctx.bad(construct, 'center-rewrite',
                    f'mode="center" reaches the kernel with use_exact={show(a[-2])}, subpixels={show(a[-1])} '
                    '(must be 0 and 1: centre mode is subpixels(1))', f.loc())


def _grid_args(ctx, cname, mode='subpixels'):
    ci, f, s, t, ev = mask_term(ctx, cname, mode)
    ctx.need(isinstance(t, Obj) and t.cls == 'RegionMask', f'{cname}.to_mask', 'no RegionMask returned')
    calls = _find_apps(t.fields['data'], f'call:{KERNEL[cname]}_overlap_grid')
    ctx.need(calls, f'{cname}.to_mask', 'kernel call not found')
    return ci, f, s, t, ev, calls[0].args


def _expected_args(cname, box):
    S = sym
    cx, cy = S('self.center.x'), S('self.center.y')
    ix0, ix1, iy0, iy1 = (box.fields[k] for k in ('ixmin', 'ixmax', 'iymin', 'iymax'))
    n = sp.Symbol('n', integer=True, positive=True)
    if cname == 'PolygonPixelRegion':
        ext = [ix0 - H, ix1 - H, iy0 - H, iy1 - H]
    else:
        ext = [ix0 - H - cx, ix1 - H - cx, iy0 - H - cy, iy1 - H - cy]
    grid = [ix1 - ix0, iy1 - iy0]
    W, Hh, th, R = S('self.width', True), S('self.height', True), S('self.angle'), S('self.radius', True)
    size = {'CirclePixelRegion': [R], 'EllipsePixelRegion': [W / 2, Hh / 2, th],
            'RectanglePixelRegion': [W, Hh, th], 'PolygonPixelRegion': ['vx', 'vy']}[cname]
    return ext, grid, size, n


def _numerically_different(cname, gu, gv, wu, wv):
    import random
    rnd = random.Random(7)
    syms = sorted((gu.free_symbols | gv.free_symbols | wu.free_symbols | wv.free_symbols), key=lambda s_: s_.name)
    for _ in range(3):
        sub = {s_: sp.Rational(rnd.randint(3, 40), rnd.randint(3, 9)) for s_ in syms}
        try:
            a, b, c, d = (complex(e.subs(sub).evalf(30)) for e in (gu, gv, wu, wv))
        except (TypeError, ValueError):
            return False
        if cname == 'EllipsePixelRegion':
            if abs(a * a + b * b - c * c - d * d) > 1e-9 * (1 + abs(c * c + d * d)):
                return True
        else:
            same_ = abs(a * a - c * c) < 1e-9 * (1 + abs(c * c)) and abs(b * b - d * d) < 1e-9 * (1 + abs(d * d))
            swap_ = abs(a * a - d * d) < 1e-9 * (1 + abs(d * d)) and abs(b * b - c * c) < 1e-9 * (1 + abs(c * c))
            if not (same_ or swap_):
                return True
    return False


def sizes_equivalent(cname, got, want):
    """the size arguments handed to the kernel describe the same shape as the conventional ones (`want`), on every branch of
    a conditional hand-off: for an ellipse (a, b, theta) the quadratic form (x cos t + y sin t)^2/a^2 + (-x sin t + y cos t)^2/b^2
    must be the region's; for a rectangle likewise the pair of strip forms.  True / False / None (not decidable)."""
    from ..vg import subst_bool, walk_terms
    if cname not in ('EllipsePixelRegion', 'RectanglePixelRegion') or len(got) != 3 or len(want) != 3:
        return None
    atoms = []
    for g in got:
        for x in walk_terms(g):
            if isinstance(x, Ite):
                for c in conj_list(x.cond) if not isinstance(x.cond, BoolT) or x.cond.op == 'and' else [x.cond]:
                    if not any(same(c, a_) for a_ in atoms):
                        atoms.append(c)
    if len(atoms) > 3:
        return None
    X, Y = sp.Symbol('X_', real=True), sp.Symbol('Y_', real=True)

    def forms(a, b, t):
        u = X * sp.cos(t) + Y * sp.sin(t)
        v = -X * sp.sin(t) + Y * sp.cos(t)
        return (u / a, v / b)
    wu, wv = forms(*want)
    import itertools as _it
    for vals in _it.product((True, False), repeat=len(atoms)):
        cur = list(got)
        for a_, val in zip(atoms, vals):
            cur = [subst_bool(g, a_, val) for g in cur]
        if not all(is_num(g) for g in cur):
            return None
        gu, gv = forms(*cur)
        # a numeric counterexample settles "different" at once (and keeps sympy away from hopeless simplifications)
        if _numerically_different(cname, gu, gv, wu, wv):
            return False
        if cname == 'EllipsePixelRegion':
            d = sp.expand(sp.expand_trig(gu ** 2 + gv ** 2 - wu ** 2 - wv ** 2))
            ok = sp.simplify(sp.trigsimp(d)) == 0
        else:
            # the rectangle is |u| <= 1/2 and |v| <= 1/2 (sizes are full widths): the unordered pair {u^2, v^2} must agree
            def z(e):
                return sp.simplify(sp.trigsimp(sp.expand(sp.expand_trig(e)))) == 0
            ok = (z(gu ** 2 - wu ** 2) and z(gv ** 2 - wv ** 2)) or (z(gu ** 2 - wv ** 2) and z(gv ** 2 - wu ** 2))
        if not ok:
            return False
    return True


def r2(ctx):
    for cname in MASKED:
        ci, f, s, t, ev, a = _grid_args(ctx, cname)
        construct = f'{cname}.to_mask'
        box = t.fields['bbox']
        ctx.need(isinstance(box, Obj), construct, 'mask bbox not a box value')
        ext, grid, size, n = _expected_args(cname, box)
        names = ['xmin', 'xmax', 'ymin', 'ymax', 'nx', 'ny'] + [f'size{k}' for k in range(len(size))] + ['use_exact', 'subpixels']
        want = ext + grid + size + [sp.Integer(0), n]
        if len(a) != len(want):
            ctx.bad(construct, 'kernel-arity', f'kernel called with {len(a)} arguments, expected {len(want)}', f.loc())
            continue
        bad = None
        size_ok = sizes_equivalent(cname, list(a[6:6 + len(size)]), size) if not any(isinstance(x, str) for x in size) else None
        for nm, g, w in zip(names, a, want):
            if size_ok and nm.startswith('size'):
                continue        # another, equivalent parametrisation of the same shape (decided on the quadratic form)
            if isinstance(w, str):
                src = {'vx': 'self.vertices.x', 'vy': 'self.vertices.y'}[w]
                other = {'vx': 'self.vertices.y', 'vy': 'self.vertices.x'}[w]
                sg = show(g, 1000)
                if src not in sg or other in sg:
                    bad = (nm, g, src)
                    break
                continue
            need_known(ctx, g, construct)
            if not (is_num(g) and num_equal(g, w)):
                bad = (nm, g, w)
                break
        if bad:
            ctx.bad(construct, f'kernel-arg-{bad[0]}',
                    f'kernel argument {bad[0]} is {show(bad[1], 200)}; expected {show(bad[2], 200)} '
                    '(pixel-edge extents of the bounding box relative to the centre, (nx, ny) = box shape, '
                    'sizes in the kernel convention)', f.loc(), {'got': show(bad[1]), 'want': show(bad[2])})
        else:
            ctx.ok(construct, 'extents, grid shape, sizes, angle as the kernel expects')
        # exact mode -> use_exact = 1
        _, _, _, _, _, ax = _grid_args(ctx, cname, 'exact')
        if not (ax[-2] == 1):
            ctx.bad(construct, 'exact-flag', f'mode="exact" reaches the kernel with use_exact={show(ax[-2])}', f.loc())


# ------------------------------------------------------------ kernels (PX)
def _kernel_funcs(ctx, kind):
    mod = ctx.model.modules.get(f'regions._geometry.{kind}_overlap')
    ctx.need(mod is not None, f'{kind}_overlap.pyx', 'kernel module missing')
    g = mod.functions.get(f'{kind}_overlap_grid')
    s = mod.functions.get(f'{kind}_overlap_single_subpixel')
    ctx.need(g is not None and s is not None, f'{kind}_overlap.pyx', 'grid/subpixel functions missing')
    return g, s


def _loops(fn):
    return [s for s in ast.walk(fn) if isinstance(s, ast.For)]


def subpixel_skeleton(ctx, fi):
    """Return (pred term over symbols x,y and params, problems list)."""
    fn = fi.node
    probs = []
    ev = Evaluator(ctx.model)
    params = [a.arg for a in fn.args.args]
    env = {p: sym(p, positive=p in ('subpixels', 'rx', 'ry', 'r', 'width', 'height')) for p in params}
    fr = Frame(fi, None, 0)
    outer = [s for s in fn.body if isinstance(s, ast.For)]
    if len(outer) != 1:
        return None, ['expected one outer sampling loop']
    pre = fn.body[:fn.body.index(outer[0])]
    ev.block([s for s in pre if not isinstance(s, ast.Expr)], env, [], fr)
    n = env['subpixels']
    x0, y0, x1, y1 = (env[k] for k in params[:4])
    if not (is_num(env.get('dx')) and num_equal(env['dx'], (x1 - x0) / n)):
        probs.append(f'dx is {show(env.get("dx"))}, not (x1-x0)/subpixels')
    if not (is_num(env.get('dy')) and num_equal(env['dy'], (y1 - y0) / n)):
        probs.append(f'dy is {show(env.get("dy"))}, not (y1-y0)/subpixels')
    if not (is_num(env.get('x')) and num_equal(env['x'], x0 - env['dx'] / 2)):
        probs.append(f'x starts at {show(env.get("x"))}, not x0 - dx/2')
    o = outer[0]
    if ast.unparse(o.iter).replace(' ', '') != 'range(subpixels)':
        probs.append('outer loop is not range(subpixels)')
    inner = [s for s in o.body if isinstance(s, ast.For)]
    if len(inner) != 1:
        return None, probs + ['expected one inner sampling loop']
    X, Y = sym('X'), sym('Y')
    env['x'] = X
    ev.block(o.body[:o.body.index(inner[0])], env, [], fr)
    if not num_equal(env['x'], X + env['dx']):
        probs.append(f'x advances to {show(env["x"])}, not x + dx before use')
    if not (is_num(env.get('y')) and num_equal(env['y'], y0 - env['dy'] / 2)):
        probs.append(f'y restarts at {show(env.get("y"))}, not y0 - dy/2')
    if ast.unparse(inner[0].iter).replace(' ', '') != 'range(subpixels)':
        probs.append('inner loop is not range(subpixels)')
    env['x'] = X
    F = sym('frac0')
    env['frac'] = F
    # y advances first, then the sample (x, y) is used
    env['y'] = Y
    ev.block(inner[0].body[:1], env, [], fr)
    if not (is_num(env['y']) and num_equal(env['y'], Y + env['dy'])):
        probs.append('y does not advance by dy before use')
    env['y'] = Y
    ev.block(inner[0].body[1:], env, [], fr)
    fz = env['frac']
    pred = None
    if isinstance(fz, Ite) and num_equal(fz.a, F + 1) and same(fz.b, F):
        pred = fz.cond
    else:
        probs.append(f'accumulator update is {show(fz, 200)}, not +1 under the membership predicate')
    rets = [s for s in fn.body if isinstance(s, ast.Return)]
    if len(rets) == 1:
        env['frac'] = F
        rv = ev.expr(rets[0].value, env, fr)
        if not (is_num(rv) and num_equal(rv, F / (n * n))):
            probs.append(f'result is {show(rv)}, not frac/(subpixels*subpixels)')
    else:
        probs.append('no single return')
    # predicate is over the advanced sample: substitute y -> Y (dy shift is part of the recurrence)
    return (pred, {'X': X, 'Y': Y, 'env': env}), probs


def grid_skeleton(ctx, gi, si, use_exact=0):
    fn = gi.node
    probs = []
    ev = Evaluator(ctx.model, opaque_funcs={f.qualname for f in ctx.model.modules[gi.module].functions.values()
                                            if f is not gi})
    params = [a.arg for a in fn.args.args]
    env = {p: sym(p, positive=p in ('nx', 'ny', 'subpixels', 'r', 'rx', 'ry', 'width', 'height')) for p in params}
    env['use_exact'] = sp.Integer(use_exact)
    fr = Frame(gi, None, 0)
    outer = [s for s in fn.body if isinstance(s, ast.For)]
    if len(outer) != 1:
        return None, ['expected one outer pixel loop']
    pre = [s for s in fn.body[:fn.body.index(outer[0])] if not isinstance(s, ast.Expr)]
    ev.block(pre, env, [], fr)
    xmin, xmax, ymin, ymax, nx, ny = (env[k] for k in params[:6])
    if not (is_num(env.get('dx')) and num_equal(env['dx'], (xmax - xmin) / nx)):
        probs.append(f'dx is {show(env.get("dx"))}, not (xmax-xmin)/nx')
    if not (is_num(env.get('dy')) and num_equal(env['dy'], (ymax - ymin) / ny)):
        probs.append(f'dy is {show(env.get("dy"))}, not (ymax-ymin)/ny')
    o = outer[0]
    if not (isinstance(o.target, ast.Name) and ast.unparse(o.iter).replace(' ', '') == 'range(nx)'):
        probs.append('outer loop is not `for i in range(nx)`')
    iv = o.target.id if isinstance(o.target, ast.Name) else 'i'
    I, J = sp.Symbol('I', integer=True), sp.Symbol('J', integer=True)
    env[iv] = I
    inner = [s for s in ast.walk(o) if isinstance(s, ast.For) and s is not o]
    if len(inner) != 1 or ast.unparse(inner[0].iter).replace(' ', '') != 'range(ny)':
        return None, probs + ['expected one inner loop over range(ny)']
    jv = inner[0].target.id
    # statements of the outer body before the inner loop (possibly inside a bounding `if`)
    def flat(body):
        out = []
        for s in body:
            if isinstance(s, ast.If):
                out += flat(s.body)
            elif isinstance(s, ast.For):
                out.append(s)
                break
            else:
                out.append(s)
        return out
    ob = flat(o.body)
    ev.block([s for s in ob if not isinstance(s, ast.For)], env, [], fr)
    env[jv] = J
    ib = inner[0].body
    fr3 = Frame(gi, None, 0)
    ev.block(ib, env, [], fr3)
    stores = [(k, v) for kind, base, k, v in fr3.effects if kind == 'setitem']
    if not stores:
        probs.append('no store into the fraction array found')
    dx, dy = env['dx'], env['dy']
    want4 = [xmin + I * dx, ymin + J * dy, xmin + (I + 1) * dx, ymin + (J + 1) * dy]
    calls = []
    for k, v in stores:
        if not (isinstance(k, Tup) and len(k.items) == 2 and k.items[0] == J and k.items[1] == I):
            probs.append(f'fraction stored at [{show(k)}], not [j, i] (row = y)')
        calls += _find_apps(v, 'call:' + si.name)
    if not calls:
        probs.append(f'{si.name} is not what fills the fraction array')
    for c in calls:
        for g, w, nm in zip(c.args[:4], want4, ('x0', 'y0', 'x1', 'y1')):
            if not (is_num(g) and num_equal(g, w)):
                probs.append(f'pixel edge {nm} handed to the sampler is {show(g)}, not {show(w)}')
    return (calls[0].args if calls else None, env), probs


def r3(ctx):
    for kind in ('circular', 'elliptical', 'rectangular', 'polygonal'):
        g, s = _kernel_funcs(ctx, kind)
        res, probs = subpixel_skeleton(ctx, s)
        if probs:
            ctx.bad(f'{kind}_overlap.pyx:{s.name}', 'sampling',
                    'sub-sampling skeleton deviates: ' + '; '.join(probs), s.loc())
        else:
            ctx.ok(f'{kind}_overlap.pyx:{s.name}', 'samples x0+(k+1/2)dx, +1 under predicate, /(n*n)')
        res, probs = grid_skeleton(ctx, g, s)
        if probs:
            ctx.bad(f'{kind}_overlap.pyx:{g.name}', 'grid',
                    'pixel grid skeleton deviates: ' + '; '.join(probs), g.loc())
        else:
            ctx.ok(f'{kind}_overlap.pyx:{g.name}', 'pixel (i,j) edges xmin+i*dx.., stored at frac[j, i]')


def r4(ctx):
    inc = inc_atom()
    q = pixq(ctx)
    for cname in MASKED:
        kind = KERNEL[cname]
        construct = f'{cname}: kernel predicate vs contains'
        g, s = _kernel_funcs(ctx, kind)
        ci, f, so, t, ev, a = _grid_args(ctx, cname)
        # contains predicate
        cf = method_or_fail(ctx, ci, 'contains')
        v, _ = split_include(ev.call(cf, [so, q], {}), inc)
        if cname == 'PolygonPixelRegion':
            (pred, info), probs = subpixel_skeleton(ctx, s)
            ok = pred is not None and 'point_in_polygon' in show(pred, 2000) and \
                _find_apps(v, 'call:points_in_polygon')
            pm = ctx.model.modules['regions._geometry.pnpoly'].functions.get('points_in_polygon')
            wraps = pm is not None and any(isinstance(n, ast.Call) and getattr(n.func, 'id', '') == 'point_in_polygon'
                                           for n in ast.walk(pm.node))
            if ok and wraps and isinstance(pred, Cmp) and pred.op == '==' and pred.rhs == 1:
                ctx.ok(construct, 'mask sampler and contains() share point_in_polygon')
            else:
                ctx.bad(construct, 'kernel-predicate', 'polygon sampler does not test point_in_polygon(x, y, vx, vy) == 1',
                        s.loc())
            continue
        # bind: to_mask args -> grid params -> sampler params
        (sargs, genv), gp = grid_skeleton(ctx, g, s)
        ctx.need(sargs is not None, construct, 'sampler call not found in grid kernel')
        gparams = [x.arg for x in g.node.args.args]
        # a conditional hand-off (arguments that are ite(...) terms): every branch is compared
        branches = _arg_branches(list(a))
        ctx.need(branches is not None, construct, 'call-site arguments depend on more than three conditions')
        sparams = [x.arg for x in s.node.args.args]
        worst = None
        for a_b in branches:
            st_ = _r4_branch(ctx, cname, construct, g, s, gparams, sparams, sargs, a_b, v)
            order = {'ok': 0, 'strictness': 1}
            if isinstance(st_, tuple) or worst is None or (not isinstance(worst, tuple) and order[st_] > order[worst]):
                worst = st_
            if isinstance(worst, tuple):
                break
        if isinstance(worst, tuple):
            ctx.bad(construct, 'kernel-predicate', worst[1], s.loc())
        elif worst == 'strictness':
            ctx.bad(f'{cname}', 'strictness',
                    'boundary polynomials agree but strictness differs: the mask kernel uses a strict '
                    'inequality where contains() uses <= (a pixel centre exactly on the boundary is a member '
                    'but its centre-mode mask value is 0)', s.loc())
        else:
            ctx.ok(construct, 'same predicate (normal forms agree, same strictness)')


def _arg_branches(args):
    """the argument lists of a call on every truth assignment of the conditions its ite(...) arguments depend on."""
    import itertools as _it
    from ..vg import subst_bool, walk_terms
    atoms = []
    for g_ in args:
        for x in walk_terms(g_):
            if isinstance(x, Ite):
                for c in (conj_list(x.cond) if not isinstance(x.cond, BoolT) or x.cond.op == 'and' else [x.cond]):
                    if not any(same(c, a_) for a_ in atoms):
                        atoms.append(c)
    if not atoms:
        return [args]
    if len(atoms) > 3:
        return None
    out = []
    for vals in _it.product((True, False), repeat=len(atoms)):
        cur = list(args)
        for a_, val in zip(atoms, vals):
            cur = [subst_bool(g_, a_, val) for g_ in cur]
        out.append(cur)
    return out


def _r4_branch(ctx, cname, construct, g, s, gparams, sparams, sargs, a, v):
    """'ok' | 'strictness' | ('bad', message) for one branch of the hand-off."""
    if True:
        bind = {sym(p, positive=p in ('nx', 'ny', 'subpixels', 'r', 'rx', 'ry', 'width', 'height')): av
                for p, av in zip(gparams, a) if is_num(av)}
        (pred, info), sp_probs = subpixel_skeleton(ctx, s)
        ctx.need(pred is not None, construct, 'sampler predicate not found')
        # sampler param symbol -> grid-level term -> to_mask-level term
        sub = {}
        for p, gv in zip(sparams, sargs):
            ps = sym(p, positive=p in ('subpixels', 'rx', 'ry', 'r', 'width', 'height'))
            if is_num(gv):
                sub[ps] = gv.subs(bind) if hasattr(gv, 'subs') else gv
        cx, cy = sym('self.center.x'), sym('self.center.y')
        sub[info['X']] = sym('q.x') - cx
        sub[info['Y']] = sym('q.y') - cy

        def subst(tn):
            if is_num(tn):
                return tn.subs(sub, simultaneous=True)
            if isinstance(tn, Cmp):
                return Cmp(tn.op, subst(tn.lhs), subst(tn.rhs))
            if isinstance(tn, BoolT):
                return BoolT(tn.op, tuple(subst(x) for x in tn.args))
            return tn
        kp = conj_list(subst(pred))
        cp = conj_list(v)
        from ..vg import walk_terms, Ite
        opaque = [c_ for c_ in cp if any(isinstance(t_, (Ite, App)) for t_ in walk_terms(c_))]
        if opaque:
            # a membership predicate that did not reduce to comparisons (a conditional on something the evaluator cannot
            # decide, an opaque call) cannot be compared with the kernel's: not decided, rather than "differs"
            raise AnalysisError('C02.R4', construct, f'contains() predicate not reducible to comparisons: {show(opaque[0], 200)}')
        res = []
        ok = len(kp) == len(cp)
        if ok:
            for kpred in kp:
                r = 'ne'
                for cpred in cp:
                    if isinstance(kpred, Cmp) and isinstance(cpred, Cmp):
                        r = pred_equiv(kpred, cpred)
                        if r in ('eq', 'strictness'):
                            break
                res.append(r)
        if not ok or any(r not in ('eq', 'strictness') for r in res):
            return ('bad', f'after substituting the call-site arguments the kernel samples {show(subst(pred), 260)} '
                    f'but contains() decides {show(v, 260)}')
        return 'strictness' if 'strictness' in res else 'ok'


def _compound_setup(ctx):
    m = ctx.model
    ci = m.cls('CompoundPixelRegion')

    def box(tag):
        return Obj('RegionBoundingBox', {k: sp.Symbol(f'{tag}.{k}', integer=True)
                                         for k in ('ixmin', 'ixmax', 'iymin', 'iymax')},
                   None, m.cls('RegionBoundingBox'))
    boxes = {'self.region1': box('b1'), 'self.region2': box('b2')}

    def h_mask(ev, args, kwargs):
        o = args[0]
        return Obj('RegionMask', {'data': App('maskdata', (o,)), 'bbox': boxes[o.path]}, None, m.cls('RegionMask'))

    def h_box(ev, args, kwargs):
        return boxes[args[0].path]
    ev = Evaluator(m, hooks={'regions.core.core:PixelRegion.to_mask': h_mask,
                            'regions.core.core:PixelRegion.bounding_box': h_box})
    return ci, ev, boxes


def r5(ctx):
    ci, ev, boxes = _compound_setup(ctx)
    f = method_or_fail(ctx, ci, 'to_mask')
    s = ev.symbolic_instance(ci)
    t = ev.call(f, [s], {'mode': Const('center'), 'subpixels': sp.Integer(1)})
    construct = 'CompoundPixelRegion.to_mask'
    ctx.need(isinstance(t, Obj) and t.cls == 'RegionMask', construct, f'no RegionMask: {show(t, 200)}')
    b1, b2 = boxes['self.region1'], boxes['self.region2']
    U = {'ixmin': sp.Min(b1.fields['ixmin'], b2.fields['ixmin']), 'ixmax': sp.Max(b1.fields['ixmax'], b2.fields['ixmax']),
         'iymin': sp.Min(b1.fields['iymin'], b2.fields['iymin']), 'iymax': sp.Max(b1.fields['iymax'], b2.fields['iymax'])}
    bb = t.fields.get('bbox')
    ok_box = isinstance(bb, Obj) and all(is_num(bb.fields.get(k)) and bb.fields[k] == U[k] for k in U)
    if not ok_box and isinstance(bb, Obj):
        # min/max may be spelled as conditionals: decide on every ordering of the operand boxes' limits
        from ..ot import ev as ot_ev
        from .c19 import _pairs, _val
        xs, ys, X, Y = _pairs(b1, b2)
        try:
            ok_box = all(_val(ot_ev(bb, {**ax, **ay})) == (
                'box', min(ax[xs[0]], ax[xs[2]]), max(ax[xs[1]], ax[xs[3]]), min(ay[ys[0]], ay[ys[2]]), max(ay[ys[1]], ay[ys[3]]))
                for ax in X for ay in Y)
        except (ValueError, KeyError, TypeError):
            ok_box = False
    if not ok_box:
        ctx.bad(construct, 'mask-box', f'compound mask box is {show(bb, 200)}, not the union box', f.loc())
        return
    data = t.fields.get('data')
    pads = []
    for p_ in _find_apps(data, 'numpy.pad'):
        if not any(same(p_, q) for q in pads):
            pads.append(p_)
    pads.sort(key=lambda p_: show(p_.args[0], 80))       # operand 1 first
    if len(pads) != 2:
        raise AnalysisError('C02.R5', construct, f'expected two np.pad calls, found {len(pads)}: {show(data, 300)}')
    ok = True
    for k, (p, b) in enumerate(zip(pads, (b1, b2))):
        want = Tup((Tup((sp.Abs(b.fields['iymin'] - U['iymin']), sp.Abs(U['iymax'] - b.fields['iymax']))),
                    Tup((sp.Abs(b.fields['ixmin'] - U['ixmin']), sp.Abs(U['ixmax'] - b.fields['ixmax'])))))
        got = p.args[1] if len(p.args) > 1 else None
        src_ok = same(p.args[0], App('maskdata', (Obj('PixelRegion', {}, f'self.region{k + 1}', None),)))
        shaped = isinstance(got, Tup) and len(got.items) == 2 and all(
            isinstance(r, Tup) and len(r.items) == 2 for r in got.items)
        good = shaped and all(
            is_num(g) and sp.simplify(g - w) == 0 for gr, wr in zip(got.items, want.items)
            for g, w in zip(gr.items, wr.items))
        if shaped and not good:
            # the amounts may be spelled with conditionals: decide on every ordering of the operand boxes' limits
            from ..ot import ev as ot_ev
            from .c19 import _pairs
            xs_, ys_, X_, Y_ = _pairs(b1, b2)
            try:
                good = all(int(ot_ev(g, {**ax, **ay})) == int(ot_ev(w, {**ax, **ay}))
                           for ax in X_ for ay in Y_
                           for gr, wr in zip(got.items, want.items) for g, w in zip(gr.items, wr.items))
            except (ValueError, KeyError, TypeError):
                good = False
        if not (good and src_ok):
            ok = False
            ctx.bad(construct, f'padding-operand{k + 1}',
                    f'operand {k + 1} is padded by {show(got, 300)}; expected ((bottom, top), (left, right)) = '
                    f'{show(want, 300)} so that it lands at its own box inside the union box', f.loc())
    mode = p.args[2] if len(p.args) > 2 else None
    if ok:
        def operand_ok(t, pad, k):
            """'plain' if t is the padded mask, 'complemented' if it is (pad if include else 1 - pad) on operand k's own flag."""
            if same(t, pad):
                return 'plain'
            if isinstance(t, Ite):
                c = show(t.cond, 300)
                # the flag read is meta.get('include', True) of operand k: key first, default True
                gets = [x for x in _find_apps(t.cond, 'meta.get')]
                well_formed = any(len(g.args) == 3 and isinstance(g.args[1], Const) and g.args[1].v == 'include'
                                  and isinstance(g.args[2], Const) and g.args[2].v is True for g in gets)
                if f'self.region{k}' in c and "'include'" in c and well_formed:
                    comp, keep = (t.a, t.b) if c.startswith('not ') else (t.b, t.a)
                    if same(keep, pad) and isinstance(comp, App) and comp.name == 'binop:Sub' and comp.args[0] == 1 \
                            and same(comp.args[1], pad):
                        return 'complemented'
            return None
        kinds = [operand_ok(data.args[k + 1], pads[k], k + 1) for k in range(2)] if (
            isinstance(data, App) and data.name == 'apply' and len(data.args) == 3 and 'operator' in show(data.args[0])) else [None, None]
        if None in kinds:
            ctx.bad(construct, 'operator', f'mask data is {show(data, 300)}, not operator(padded1, padded2)', f.loc())
        elif 'plain' in kinds:
            ctx.bad(construct, 'excluded-operand',
                    'the operand masks are combined as they are: an operand whose own include flag is false is complemented by '
                    'contains() but not in the mask, so the compound mask is not the sampled membership function '
                    '(CirclePixelRegion(..., meta={"include": False}) & other)', f.loc())
        else:
            # outside its own box an operand is padded with the value it has there: 0 for a simple (included) shape, but a
            # nested compound with excluded operands contains everything far away — partial evaluation on the 12 cases
            # operator x include flags of a nested compound operand
            import operator as _op
            wrong = []
            m = ctx.model
            circ = m.cls('CirclePixelRegion')

            def leaf(tag, inc):
                return Obj('CirclePixelRegion', {'meta': DictV([{'include': Const(inc)}])}, tag, circ)

            def comp(a, b, opname, inc, path):
                return Obj('CompoundPixelRegion', {'region1': a, 'region2': b, 'operator': ExtRef('operator.' + opname),
                                                   'meta': DictV([{'include': Const(inc)}] if inc is not None else [{}])}, path, ci)

            def outside(tree):
                """membership of a point far away from every leaf: (value, include flag) trees"""
                if tree[0] == 'leaf':
                    return 0
                _, a, b, opname = tree[:4]
                va = outside(a[0]) ^ (0 if a[1] else 1)
                vb = outside(b[0]) ^ (0 if b[1] else 1)
                return int(bool(getattr(_op, opname)(va, vb)))

            def pad_fill(operand):
                _, ev2, boxes2 = _compound_setup(ctx)
                ev2.hooks[f.qualname] = ev2.hooks['regions.core.core:PixelRegion.to_mask']
                top = comp(operand, leaf('self.region2', True), 'and_', None, 'self')
                out2 = ev2.run(f, [top], {'mode': Const('center'), 'subpixels': sp.Integer(1)})
                t2 = ev2.gated_return(out2)
                d2 = t2.fields.get('data') if isinstance(t2, Obj) else None
                p1 = [p_ for p_ in _find_apps(d2, 'numpy.pad') if isinstance(p_.args[0], App) and p_.args[0].args
                      and p_.args[0].args[0] is operand] if d2 is not None else []
                if not p1:
                    raise AnalysisError('C02.R5', construct, f'nested-operand probe not reducible: {show(t2, 200)}')
                fill = sp.Integer(0)
                for a_ in p1[0].args[2:]:
                    if isinstance(a_, Tup) and len(a_.items) == 2 and isinstance(a_.items[0], Const) \
                            and a_.items[0].v == 'constant_values':
                        fill = a_.items[1]
                if len(p1[0].args) > 3 and not isinstance(p1[0].args[3], Tup):
                    fill = p1[0].args[3]
                if not (is_num(fill) and fill.is_number):
                    raise AnalysisError('C02.R5', construct, f'pad value of a nested compound operand not reducible: {show(fill, 200)}')
                return int(fill)

            ncases = 0
            for opname in ('or_', 'and_', 'xor'):
                for i1 in (True, False):
                    for i2 in (True, False):
                        ncases += 1
                        inner = comp(leaf('P', i1), leaf('Q', i2), opname, None, 'self.region1')
                        got_fill = pad_fill(inner)
                        want_fill = outside(('comp', (('leaf',), i1), (('leaf',), i2), opname))
                        if got_fill != want_fill:
                            wrong.append((f'P {opname} Q with include flags {i1}, {i2}', got_fill, want_fill))
            # one level deeper: the operand's own operand is a compound that may itself be excluded
            for op1, i1, i2 in (('or_', False, True), ('and_', True, True), ('xor', False, False), ('xor', False, True)):
                for op2 in ('or_', 'and_', 'xor'):
                    for i3 in (True, False):
                        ncases += 1
                        inner = comp(leaf('P', i1), leaf('Q', i2), op1, i3, 'self.region1.region1')
                        mid = comp(inner, leaf('R', True), op2, None, 'self.region1')
                        got_fill = pad_fill(mid)
                        want_fill = outside(('comp', (('comp', (('leaf',), i1), (('leaf',), i2), op1), i3), (('leaf',), True), op2))
                        if got_fill != want_fill:
                            wrong.append((f'(P {op1} Q [include {i1}, {i2}], itself include={i3}) {op2} R', got_fill, want_fill))
            # any depth: the recursive function that computes the outside value, with the operands' own outside values
            # given (v1, v2 in {0, 1}), must return operator(v1 xor excluded1, v2 xor excluded2) — induction step, 48 cases
            mod_ = m.modules[f.module]
            callees_ = {call_name(c) for c in calls_in(f.node)}
            for g_ in list(mod_.functions.values()) + list(ci.methods.values()):
                if g_.name not in callees_ and ('self.' + g_.name) not in callees_:
                    continue
                if not any((call_name(c) or '').split('.')[-1] == g_.name for c in calls_in(g_.node)):
                    continue
                for opname in ('or_', 'and_', 'xor'):
                    for i1 in (True, False):
                        for i2 in (True, False):
                            for v1 in (0, 1):
                                for v2 in (0, 1):
                                    ncases += 1
                                    P_, Q_ = leaf('P', i1), leaf('Q', i2)
                                    node_ = comp(P_, Q_, opname, None, 'operand')
                                    ev3 = evaluator(ctx)

                                    def hook(e, a, k, _g=g_, _P=P_, _Q=Q_, _v1=v1, _v2=v2):
                                        tgt = a[-1] if a else None
                                        if tgt is _P:
                                            return sp.Integer(_v1)
                                        if tgt is _Q:
                                            return sp.Integer(_v2)
                                        return e.call(_g, a, k, 1)
                                    ev3.hooks[g_.qualname] = hook
                                    r_ = ev3.call(g_, [node_], {}, 1)
                                    want_ = int(bool(getattr(_op, opname)(v1 ^ (0 if i1 else 1), v2 ^ (0 if i2 else 1))))
                                    if not (is_num(r_) and r_.is_number):
                                        raise AnalysisError('C02.R5', construct, f'{g_.name} not reducible on a compound with '
                                                            f'given operand values: {show(r_, 160)}')
                                    if int(r_) != want_:
                                        wrong.append((f'P {opname} Q, include flags {i1}, {i2}, whose operands have the outside '
                                                      f'values {v1}, {v2}', int(r_), want_))
            if wrong:
                what, got_fill, want_fill = wrong[0]
                ctx.bad(construct, 'nested-operand-padding',
                        f'an operand that is itself a compound ({what}) is padded with {got_fill} '
                        f'outside its own box, but it has membership {want_fill} there: the mask of C & (B | excluded A) is not the '
                        f'sampled membership function ({len(wrong)} of {ncases} operator/include cases)', f.loc())
            else:
                ctx.ok(construct, 'operands padded to the union box with their outside value, complemented when excluded; operator '
                       'applied; union box carried')


def r6(ctx):
    m = ctx.model
    for ci in m.region_classes('pixel'):
        f = method_or_fail(ctx, ci, 'to_mask')
        construct = f'{ci.name}.to_mask'
        verdicts = []
        for mode in ('center', 'exact', 'subpixels'):
            if ci.name == 'CompoundPixelRegion':
                _, ev, _ = _compound_setup(ctx)
            else:
                ev = evaluator(ctx)
            if m.is_subclass(ci, 'AnnulusPixelRegion'):
                ev = evaluator(ctx)
            s = ev.symbolic_instance(ci)
            out = ev.run(f, [s], {'mode': Const(mode), 'subpixels': sp.Integer(2)})
            rv = [v for _, v in out.returns]
            names = {n for _, n, _ in out.raises}
            bad_ret = [v for v in rv if not (isinstance(v, Obj) and v.cls == 'RegionMask')]
            if bad_ret:
                verdicts.append(f'mode={mode}: returns {show(bad_ret[0], 120)} (not a RegionMask)')
            elif not rv and not names:
                verdicts.append(f'mode={mode}: neither returns nor raises')
            elif not rv and not (names <= {'NotImplementedError', 'ValueError', 'TypeError'}):
                verdicts.append(f'mode={mode}: raises {names}')
            if ci.name == 'CompoundPixelRegion' or m.is_subclass(ci, 'AnnulusPixelRegion'):
                if mode != 'center' and (rv or 'NotImplementedError' not in names):
                    verdicts.append(f'mode={mode}: compound/annulus mask must raise NotImplementedError')
            if ci.name in ('PointPixelRegion', 'LinePixelRegion', 'TextPixelRegion') and (
                    rv or 'NotImplementedError' not in names):
                verdicts.append(f'mode={mode}: zero-measure shape must raise NotImplementedError')
        if verdicts:
            ctx.bad(construct, 'unsupported-combination', '; '.join(verdicts), f.loc())
        else:
            ctx.ok(construct, 'returns RegionMask or raises NotImplementedError on every mode')
    # rectangle / polygon kernels refuse exact mode before touching a pixel
    for kind in ('rectangular', 'polygonal'):
        g, s = _kernel_funcs(ctx, kind)
        body = g.node.body
        idx_loop = next(i for i, st in enumerate(body) if isinstance(st, ast.For))
        guard = [st for st in body[:idx_loop] if isinstance(st, ast.If)
                 and ast.unparse(st.test).replace(' ', '') in ('use_exact==1', 'use_exact')
                 and any(isinstance(x, ast.Raise) and 'NotImplementedError' in ast.unparse(x) for x in st.body)]
        if guard:
            ctx.ok(f'{kind}_overlap.pyx:{g.name}', 'exact mode raises NotImplementedError before the pixel loop')
        else:
            ctx.bad(f'{kind}_overlap.pyx:{g.name}', 'exact-guard',
                    'exact mode is not refused with NotImplementedError before the pixel loop', g.loc())


def r7(ctx):
    m = ctx.model
    ci = m.cls('PixelRegion')
    f = method_or_fail(ctx, ci, '_validate_mode')
    ev = evaluator(ctx)
    n = sym('subpixels')
    isint = App('isinstance', (n, ExtRef('int')))
    probs = []
    for mode, expect in (('center', 'never'), ('exact', 'never'), ('bogus', 'always'), ('subpixels', 'cond')):
        out = ev.run(f, [Const(mode), n], {})
        rs = [(pc, nm) for pc, nm, _ in out.raises]
        if expect == 'never' and rs:
            probs.append(f'mode={mode!r} can raise')
        if expect == 'always' and not any(not pc and nm == 'ValueError' for pc, nm in rs):
            probs.append(f'mode={mode!r} is not rejected with ValueError')
        if expect == 'cond':
            want = BoolT('or', (mk_not(truthy(isint)), Cmp('<=', n, sp.Integer(0))))
            got = [ev.conj(pc) for pc, nm in rs if nm == 'ValueError']
            # the paths that raise, together, must reject exactly the documented complement: decided by truth table over
            # the two atoms (is an int / is <= 0) — guard clauses, one combined test and De Morgan forms are the same predicate
            from .c17 import _bnorm, _atoms, _evalb
            import itertools as _it
            gotn = [_bnorm(g) for g in got]
            wantn = _bnorm(want)
            atoms = {}
            for g in gotn + [wantn]:
                _atoms(g, atoms)
            keys = sorted(atoms)
            equal = bool(got) and len(keys) <= 4 and all(
                any(_evalb(g, dict(zip(keys, bits))) for g in gotn) == _evalb(wantn, dict(zip(keys, bits)))
                for bits in _it.product([False, True], repeat=len(keys)))
            if not equal:
                probs.append('for mode="subpixels" the rejection condition is '
                             f'{" or ".join(show(g, 120) for g in got) if got else "absent"}; documented domain is a strictly '
                             'positive int, i.e. reject iff not isinstance(subpixels, int) or subpixels <= 0')
    if probs:
        ctx.bad('PixelRegion._validate_mode', 'predicate', '; '.join(probs), f.loc())
    else:
        ctx.ok('PixelRegion._validate_mode', 'raises exactly on invalid mode / non-positive-int subpixels')


def r8(ctx):
    """the mask is computed from the region's current parameters: neither to_mask nor a property/method of `self` it reads
    remembers a result across calls unless every parameter writer drops it (shared analysis: c01.memoised_geometry)."""
    from .c01 import memoised_geometry
    m = ctx.model
    for ci in m.region_classes('pixel'):
        if m.method(ci, 'to_mask') is None:
            continue
        memo = memoised_geometry(m, ci, ('to_mask',), rule='C02.R8')
        if memo:
            name, why, f = memo[0]
            ctx.bad(ci.name, f'memoised:{name}',
                    f'{ci.name}.{name} {why}: after a parameter is assigned the mask is computed from remembered values and no '
                    'longer samples the current membership function', f.loc())
        else:
            ctx.ok(ci.name, 'to_mask and what it reads are recomputed on every call')


def r0(ctx):
    """Assumption check (never a violation): the generated C next to each kernel quotes the current .pyx."""
    import os
    import re as _re
    root = ctx.src.root
    for kind in ('circular', 'elliptical', 'rectangular', 'polygonal', 'pnpoly'):
        stem = f'regions/_geometry/{kind}_overlap' if kind != 'pnpoly' else 'regions/_geometry/pnpoly'
        cpath = os.path.join(root, stem + '.c')
        if not os.path.exists(cpath) or not ctx.src.exists(stem + '.pyx'):
            ctx.ok(stem + '.pyx', 'generated C not present: kernel source vs binary cannot be cross-checked here (assumption stands unverified)')
            continue
        pyx = ctx.src.text(stem + '.pyx').split('\n')
        with open(cpath, encoding='utf-8', errors='replace') as fh:
            ctext = fh.read()
        same = diff = 0
        first = None
        for mm in _re.finditer(r'/\* "%s\.pyx":(\d+)\n((?: \*.*\n)+?) \*/' % _re.escape(stem), ctext):
            n = int(mm.group(1))
            marked = [l for l in mm.group(2).split('\n') if l.rstrip().endswith('# <<<<<<<<<<<<<<')]
            if not marked or n > len(pyx):
                continue
            quoted = marked[0][3:].rstrip()[:-len('# <<<<<<<<<<<<<<')].rstrip()
            if quoted.strip() == pyx[n - 1].strip():
                same += 1
            else:
                diff += 1
                first = first or (n, quoted.strip(), pyx[n - 1].strip())
        if diff:
            ctx.note(f'STALE-GENERATED-C {stem}.c: {diff} quoted lines differ from the current .pyx, e.g. line {first[0]}: '
                     f'C quotes `{first[1]}`, source has `{first[2]}` — the shipped binary was not built from this source; '
                     'kernel-source verdicts do not bind it')
            ctx.ok(stem + '.pyx', f'ASSUMPTION FAILS: generated C is stale ({diff} of {same + diff} quoted lines differ)')
        else:
            ctx.ok(stem + '.pyx', f'generated C quotes the current source ({same} lines compared)')


RULES = [
    RuleDef('R0', 'assumption check: generated C is fresh w.r.t. the .pyx analysed (never a violation)', r0, 5, tier='thorough'),
    RuleDef('R1', 'mode validated; center rewritten to subpixels(1)', r1, 4),
    RuleDef('R2', 'kernel call arguments: grid placement and size conventions', r2, 4),
    RuleDef('R3', 'kernel sampling and pixel-grid skeletons (4+4 siblings)', r3, 8),
    RuleDef('R4', 'kernel membership predicate = contains predicate', r4, 4),
    RuleDef('R5', 'compound mask: padding to the union box, operator, box', r5, 1),
    RuleDef('R6', 'every to_mask returns a RegionMask or raises NotImplementedError', r6, 14),
    RuleDef('R7', '_validate_mode rejection predicate', r7, 1),
    RuleDef('R8', 'to_mask reads current parameters only (no remembered kernel arguments)', r8, 12),
]
