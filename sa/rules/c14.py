"""C14 — file writing never clobbers or half-writes (structural clauses)."""
import ast
import re

from ..astutil import (call_name, calls_in, conjuncts, dotted, enclosing_tests,
                       func_params, norm, param_default, parents, stmts_of)
from ..cfg import CFG, ENTRY, EXIT, RAISE
from ..report import RuleDef
from ..src import AnalysisError
from ..vg import Tup as Tup_

FORMATS = ('ds9', 'crtf', 'fits')

EXPLANATION = (
    'Decides from source, for the three registered writers: (R1) every path to the '
    'first call that can create or truncate the destination passes an existence '
    'guard built on os.path.lexists that raises OSError unless overwrite; (R2) the '
    'complete serialisation dominates that call and no repository code runs after '
    'it (so a failing region at any list position leaves the destination '
    'untouched); (R3) overwrite is a parameter defaulting to False that reaches '
    'the guard and is forwarded by Region.write/Regions.write; (R4) identifier '
    'tables: write extensions are read extensions, content signatures are '
    'prefixes of what the serialisers emit and the CRTF header regex accepts its '
    'own header; (R5) registry dispatch raises IORegistryError for unknown '
    'formats. Not decided: atomicity inside open/write/writeto, gzip and FITS '
    'identification (astropy), read-back equality.')
EXPLANATION_ADDED = (" (R1 also) a no-clobber guard may live in a helper: the helper, partially evaluated with the caller's path and overwrite flag, must raise OSError exactly when os.path.lexists of the (same, equally expanded) path holds; (R4 also) the identifiers' extension behaviour is probed on constant file names, must cover the extensions documented in docs/region_io.rst, the content signature is read from the identifier's value, and an empty list must still be written with the signature (known finding for DS9); (R5b) format inference is asked with (path, class, method name) in the roles the identifier functions give their parameters and takes the format element of the registry key; (R6) identification keeps no state; (R7) the dispatch layer neither creates nor removes the destination."
                     ' R1 also: every normal return of a writer has passed the destination-creating call (no early return that neither raises nor writes).')
EXPLANATION += EXPLANATION_ADDED
EXPLANATION_ADDED2 = (" (R4b) the identifiers are evaluated symbolically: they answer for write and read calls alike on the path's extension, and for nothing else; (R4c) the FITS writer names the table extension the FITS reader and identifier look for.")
EXPLANATION += EXPLANATION_ADDED2
EXPLANATION_ADDED3 = (" (R7b) between Region.write / Regions.write / RegionsRegistry.write and the format writer the destination is handed on as the caller named it — as the same variable or through spellings that never follow a link (fspath, str, expanduser, abspath, Path), also through a helper (inlined); realpath / Path.resolve / readlink on the way is a violation: the writer's lexists guard would look at the target of a symbolic link.")
EXPLANATION += EXPLANATION_ADDED3
TRUSTED = ['open(name, "w") creates/truncates; HDU.writeto(name) creates the file',
           'os.path.lexists is true for files, symlinks and dangling symlinks',
           're module semantics on constant strings']
ASSUMPTIONS = ['external calls do not write to the destination path by other means']


def _writers(ctx):
    return [(fmt, ctx.model.registered('write', fmt)) for fmt in FORMATS]


_MODEL = [None]


def _direct_creates(fn):
    """[(call, kind, mode constant or None, destination expression)] for calls that create/truncate a file."""
    out = []
    for c in calls_in(fn):
        nm = call_name(c) or ''
        if nm == 'open' and c.args:
            mode = c.args[1] if len(c.args) > 1 else next((k.value for k in c.keywords if k.arg == 'mode'), None)
            if isinstance(mode, ast.Constant) and isinstance(mode.value, str) and mode.value[:1] in 'wax':
                out.append((c, 'open', mode.value, c.args[0]))
        elif nm.endswith('.writeto') or nm.endswith('.write_to') or nm.endswith('.tofile'):
            dest = c.args[0] if c.args else next((k.value for k in c.keywords if k.arg in ('file', 'name', 'fileobj')), None)
            out.append((c, nm.split('.')[-1], None, dest))
    return out


def _creating_calls(fn, pathparam, fi=None):
    """Calls in the writer that create/truncate the destination — directly, or through a helper of the repository that
    receives the path (one level: the helper call stands for the creation, with the helper's mode and the actual path
    argument)."""
    out = []
    for c, kind, mode, dest in _direct_creates(fn):
        c._vp = (kind, mode, dest)
        out.append(c)
    m = _MODEL[0]
    if m is not None and fi is not None:
        for c in calls_in(fn):
            cs = m.resolve_call(fi, c)
            if not cs or cs[0].path.endswith('.pyx'):
                continue
            h = cs[0]
            hp = func_params(h.node)
            for hc, kind, mode, dest in _direct_creates(h.node):
                if isinstance(dest, ast.Name) and dest.id in hp:
                    k = hp.index(dest.id) - (1 if h.cls and not h.is_static else 0)
                    actual = c.args[k] if 0 <= k < len(c.args) else next(
                        (kw.value for kw in c.keywords if kw.arg == dest.id), None)
                    if actual is not None and any(isinstance(a, ast.Name) and a.id == pathparam for a in ast.walk(actual)):
                        c._vp = (kind, mode, actual)
                        out.append(c)
    return out


FS_MUTATORS = {'remove', 'unlink', 'rename', 'replace', 'rmdir', 'rmtree', 'move', 'copy', 'copyfile', 'copy2',
               'truncate', 'symlink', 'link', 'touch', 'write_text', 'write_bytes', 'mkdir', 'makedirs', 'chmod'}


def _destination_modifiers(fn, pathparam):
    """Calls that change the destination other than by creating/truncating it (remove, rename, ...)."""
    out = []
    for c in calls_in(fn):
        nm = call_name(c) or ''
        short = nm.split('.')[-1]
        if short in FS_MUTATORS and any(isinstance(a, ast.Name) and a.id == pathparam for a in ast.walk(c)):
            out.append(c)
    return out


def _node_of(cfg, sub):
    """CFG node whose statement contains ast node `sub`."""
    best = None
    for i, st in cfg.stmt.items():
        k = cfg.kind[i]
        if k == 'test':
            hay = [st.test]
        elif k == 'with':
            hay = [it.context_expr for it in st.items]
        elif k == 'iter':
            hay = [st.iter] if isinstance(st, ast.For) else [st.test]
        elif k == 'handler':
            hay = []
        else:
            hay = [st]
        for h in hay:
            if any(n is sub for n in ast.walk(h)):
                best = i
    return best


GUARD_EXPANDED = {}      # id(guard if-node) -> the guard tests os.path.expanduser(path)
EXPANDING_CREATORS = ('writeto',)     # astropy.io.fits expands a leading "~" itself


def _is_expanduser_of(e, pathparam):
    return isinstance(e, ast.Call) and (call_name(e) or '').endswith('expanduser') and len(e.args) == 1 \
        and isinstance(e.args[0], ast.Name) and e.args[0].id == pathparam


def _guards(fn, pathparam):
    """(if-node, uses_lexists, api) for raise-OSError guards on the path param."""
    pm = parents(fn)
    res = []
    for n in ast.walk(fn):
        if not isinstance(n, ast.Raise) or n.exc is None:
            continue
        e = n.exc.func if isinstance(n.exc, ast.Call) else n.exc
        if dotted(e) not in ('OSError', 'FileExistsError', 'IOError'):
            continue
        tests = enclosing_tests(fn, n, pm)
        atoms = []
        ok = True
        for t, pol in tests:
            c = conjuncts(t, pol)
            if c is None:
                ok = False
                break
            atoms += c
        if not ok or not atoms:
            continue
        exist_api = None
        overwrite_ok = False
        other = []
        # a local bound once to the ~-expanded path (destination = os.path.expanduser(filename)) stands for that expression
        aliases = {}
        for st in ast.walk(fn):
            if isinstance(st, ast.Assign) and len(st.targets) == 1 and isinstance(st.targets[0], ast.Name) \
                    and _is_expanduser_of(st.value, pathparam):
                aliases[st.targets[0].id] = aliases.get(st.targets[0].id, 0) + 1
        n_assign = {}
        for st in ast.walk(fn):
            if isinstance(st, (ast.Assign, ast.AugAssign)):
                for t_ in (st.targets if isinstance(st, ast.Assign) else [st.target]):
                    if isinstance(t_, ast.Name):
                        n_assign[t_.id] = n_assign.get(t_.id, 0) + 1
        expanded_names = {k for k, v in aliases.items() if v == 1 and n_assign.get(k) == 1}

        def _expanded(e):
            return _is_expanduser_of(e, pathparam) or (isinstance(e, ast.Name) and e.id in expanded_names)
        for a, pol in atoms:
            if isinstance(a, ast.Call) and (call_name(a) or '').split('.')[-1] in (
                    'lexists', 'exists', 'isfile') and a.args and pol and (
                    (isinstance(a.args[0], ast.Name) and a.args[0].id == pathparam) or _expanded(a.args[0])):
                exist_api = call_name(a).split('.')[-1]
                GUARD_EXPANDED[id(n)] = _expanded(a.args[0])
            elif isinstance(a, ast.Name) and a.id == 'overwrite' and not pol:
                overwrite_ok = True
            else:
                other.append(norm(a))
        if exist_api and overwrite_ok and not other:
            outer = None
            cur = n
            while cur in pm:
                if isinstance(pm[cur], ast.If):
                    outer = pm[cur]
                cur = pm[cur]
            res.append((outer, exist_api))
            if outer is not None:
                GUARD_EXPANDED[id(outer)] = GUARD_EXPANDED.get(id(n), False)
    return res


def _helper_guards(m, fi, pathparam):
    """[(call node, api, tests the ~-expanded path?)] for calls of repository helpers that are no-clobber guards: the helper,
    partially evaluated with the caller's path P and overwrite=False, raises OSError exactly when os.path.lexists(P) (or of
    the expanded P) holds, and never raises with overwrite=True."""
    import re as _re
    from ..vg import Const, Evaluator, Obj, show
    out = []
    for c in calls_in(fi.node):
        gs = m.resolve_call(fi, c) or ()
        if len(gs) != 1 or gs[0].cls:
            continue
        g = gs[0]
        names = [a.id if isinstance(a, ast.Name) else None for a in c.args] + [
            k.value.id if isinstance(k.value, ast.Name) else None for k in c.keywords]
        if pathparam not in names or 'overwrite' not in names:
            continue

        def bind(ow):
            def val(e):
                if isinstance(e, ast.Name) and e.id == pathparam:
                    return Obj('str', {}, 'P')
                if isinstance(e, ast.Name) and e.id == 'overwrite':
                    return Const(ow)
                if isinstance(e, ast.Constant):
                    return Const(e.value)
                if _is_expanduser_of(e, pathparam):
                    from ..vg import App
                    return App('os.path.expanduser', (Obj('str', {}, 'P'),))
                raise AnalysisError('C14.R1', fi.qualname, f'argument `{norm(e)}` of the guard helper not understood')
            return [val(a) for a in c.args], {k.arg: val(k.value) for k in c.keywords}
        res = {}
        for ow in (False, True):
            a_, k_ = bind(ow)
            ev = Evaluator(m)
            o = ev.run(g, a_, k_)
            def unsat(c_):
                from ..vg import BoolT
                if isinstance(c_, Const):
                    return not c_.v
                if isinstance(c_, BoolT) and c_.op == 'and':
                    return any(unsat(a2) for a2 in c_.args)
                return False
            res[ow] = [(show(ev.conj(pc), 300), n) for pc, n, _ in o.raises if not any(unsat(c_) for c_ in pc)]
        if res[True]:
            continue
        conds = res[False]
        if len(conds) == 1 and conds[0][1] in ('OSError', 'FileExistsError', 'IOError'):
            mt = _re.fullmatch(r'bool\(os\.path\.(lexists|exists|isfile)\((P|os\.path\.expanduser\(P\))\)\)', conds[0][0])
            if mt:
                out.append((c, mt.group(1), mt.group(2) != 'P'))
    return out


def r1(ctx):
    for fmt, fi in _writers(ctx):
        fn = fi.node
        params = func_params(fn)
        ctx.need(len(params) >= 2, fi.qualname, 'writer has no filename parameter')
        pathparam = params[1]
        cfg = CFG(fn)
        _MODEL[0] = ctx.model
        creates = _creating_calls(fn, pathparam, fi)
        ctx.need(creates, fi.qualname, 'no destination-creating call found in writer')
        guards = _guards(fn, pathparam)
        lex = [g for g, api in guards if api == 'lexists']
        weak = [api for g, api in guards if api != 'lexists']
        gnodes = [i for i, st in cfg.stmt.items()
                  if cfg.kind[i] == 'test' and any(st is g for g in lex)]
        hguards = _helper_guards(ctx.model, fi, pathparam)
        gnodes += [_node_of(cfg, c) for c, api, exp in hguards if api == 'lexists']
        weak += [api for c, api, exp in hguards if api != 'lexists']
        tnodes = [_node_of(cfg, c) for c in creates]
        # the guard and the creating call must speak about the same path: the tested name itself is what is created,
        # with "~" expanded on both sides or on neither
        differs = []
        rebinds = [st for st in stmts_of(fn) if isinstance(st, (ast.Assign, ast.AugAssign, ast.AnnAssign)) and any(
            isinstance(t, ast.Name) and t.id == pathparam
            for t in (st.targets if isinstance(st, ast.Assign) else [st.target]))]
        pre_expanded = False
        if rebinds and all(isinstance(st, ast.Assign) and _is_expanduser_of(st.value, pathparam) for st in rebinds):
            rn = [_node_of(cfg, st) for st in rebinds]
            if gnodes and cfg.must_pass(gnodes, rn):
                pre_expanded, rebinds = True, []
        guard_exp = pre_expanded or all(GUARD_EXPANDED.get(id(g), False) for g in lex) if lex else False
        if hguards and not lex:
            guard_exp = pre_expanded or all(exp for c, api, exp in hguards if api == 'lexists')
        for c in creates:
            dest = c._vp[2]
            if not (isinstance(dest, ast.Name) and dest.id == pathparam) and not _is_expanduser_of(dest, pathparam):
                differs.append((c, f'the file is created at `{norm(dest) if dest is not None else "?"}`'))
                continue
            create_exp = pre_expanded or _is_expanduser_of(dest, pathparam) or \
                c._vp[0] in EXPANDING_CREATORS
            if create_exp != guard_exp:
                differs.append((c, f'`{norm(c.func)}` creates the {"~-expanded" if create_exp else "literal"} path while the '
                                   f'guard tests the {"~-expanded" if guard_exp else "literal"} one'))
        if gnodes and cfg.must_pass(tnodes, gnodes) and (differs or rebinds):
            what = differs[0][1] if differs else f'`{pathparam}` is rebound by `{norm(rebinds[0])[:60]}`'
            ctx.bad(fi.qualname, 'guard-path-differs',
                    f'{fmt} writer: the no-clobber guard tests `{pathparam}` but {what}: guard and creation can refer to '
                    'different files (e.g. "~/x": the literal path does not exist, the expanded one is written)',
                    fi.loc(differs[0][0] if differs else rebinds[0]))
        elif gnodes and cfg.must_pass(tnodes, gnodes) and not cfg.must_pass([EXIT], tnodes):
            # a way out of the writer that neither raises nor creates the destination
            p_ = cfg.path_avoiding(ENTRY, EXIT, tnodes)
            where = next((cfg.stmt[i] for i in reversed(p_ or []) if i in cfg.stmt), None)
            ctx.bad(fi.qualname, 'returns-without-writing',
                    f'{fmt} writer: there is a path on which the call returns normally without creating the destination '
                    f'(through `{norm(where)[:70] if where is not None else "?"}`): a file that reads back as the regions written '
                    'does not exist afterwards, an existing destination keeps its old content (also with overwrite=True), and '
                    'with overwrite=False an existing destination does not raise OSError', fi.loc(where) if where is not None else fi.loc())
        elif gnodes and cfg.must_pass(tnodes, gnodes):
            ctx.ok(f'{fi.qualname}', 'lexists guard dominates every creating call; every normal return has created the destination')
        else:
            why = ('guard uses os.path.%s, which is false for dangling symlinks' % weak[0]
                   if weak else
                   'no os.path.lexists(filename) and not overwrite -> raise OSError guard '
                   'dominates the creating call (astropy writeto tests os.path.exists, '
                   'so a dangling symlink is written through)')
            p = cfg.path_avoiding(ENTRY, tnodes[0], gnodes)
            ctx.bad(fi.qualname, 'no-lexists-guard',
                    f'{fmt} writer: {why}', fi.loc(creates[0]),
                    {'unguarded_path_nodes': len(p) if p else 0})


def r2(ctx):
    for fmt, fi in _writers(ctx):
        fn = fi.node
        params = func_params(fn)
        pathparam, regparam = params[1], params[0]
        cfg = CFG(fn)
        _MODEL[0] = ctx.model
        creates = _creating_calls(fn, pathparam, fi)
        ctx.need(creates, fi.qualname, 'no destination-creating call found')
        # serialisation calls: repo callees receiving the regions parameter
        ser = []
        for c in calls_in(fn):
            if ctx.model.resolve_call(fi, c):
                argn = [a.id for a in c.args if isinstance(a, ast.Name)] + \
                       [k.value.id for k in c.keywords if isinstance(k.value, ast.Name)]
                if regparam in argn:
                    ser.append(c)
        ctx.need(ser, fi.qualname, 'no serialisation call on the regions parameter')
        snodes = [_node_of(cfg, c) for c in ser]
        first = _node_of(cfg, creates[0])
        tnodes = [_node_of(cfg, c) for c in creates]
        mods = _destination_modifiers(fn, pathparam)
        mnodes = [_node_of(cfg, c) for c in mods]
        if mods and not cfg.must_pass(mnodes, snodes):
            ctx.bad(fi.qualname, 'destination-touched-before-serialise',
                    f'{fmt} writer: `{norm(mods[0])}` changes the destination on a path that has not completed the '
                    'serialisation; if serialising then fails (bad option, unserialisable region) the destination is no '
                    'longer as it was', fi.loc(mods[0]))
            continue
        if not cfg.must_pass(tnodes, snodes):
            ctx.bad(fi.qualname, 'open-before-serialise',
                    f'{fmt} writer: a path reaches the destination-creating call '
                    'without having completed the serialisation; a failing region '
                    'would leave a truncated/empty file', fi.loc(creates[0]))
            continue
        # nothing from the repo may run once the destination has been opened
        late = []
        import networkx as nx
        desc = nx.descendants(cfg.g, first) | {first}
        for i in desc:
            if i in (EXIT, RAISE, ENTRY):
                continue
            st = cfg.stmt[i]
            k = cfg.kind[i]
            hay = {'test': lambda s: [s.test], 'with': lambda s: [it.context_expr for it in s.items],
                   'iter': lambda s: [s.iter] if isinstance(s, ast.For) else [s.test],
                   'handler': lambda s: []}.get(k, lambda s: [s])(st)
            inside_create = {id(x) for cr in creates for a_ in list(cr.args) + [k_.value for k_ in cr.keywords]
                             for x in ast.walk(a_)}
            for h in hay:
                for c in calls_in(h):
                    if c in creates:
                        continue          # the creating call itself (possibly a helper wrapping encode/open/write)
                    if id(c) in inside_create:
                        continue          # an argument of the creating call: evaluated before the destination is touched
                    if ctx.model.resolve_call(fi, c):
                        late.append(c)
                    elif i != first or c not in creates:
                        # external call after open: only writes of a prepared value
                        nm = call_name(c) or ''
                        if c in creates:
                            continue
                        if not (nm.endswith('.write') and all(
                                isinstance(a, ast.Name) for a in c.args)):
                            if i == first:
                                continue
                            late.append(c)
        for c in creates:
            cs = ctx.model.resolve_call(fi, c)
            if not cs:
                continue
            h = cs[0]
            hcfg = CFG(h.node)
            hopen = [x for x, k_, md, d in _direct_creates(h.node)]
            if not hopen:
                continue
            hfirst = _node_of(hcfg, hopen[0])
            import networkx as nx
            for i in nx.descendants(hcfg.g, hfirst):
                if i in (EXIT, RAISE, ENTRY):
                    continue
                st = hcfg.stmt[i]
                for c2 in calls_in(st) if not isinstance(st, (ast.With, ast.If, ast.For, ast.While, ast.Try)) else []:
                    nm2 = call_name(c2) or ''
                    if nm2.endswith('.close') and not c2.args and not c2.keywords:
                        continue          # closing the handle (what a `with` block does at its end)
                    if not (nm2.endswith('.write') and all(isinstance(a, ast.Name) for a in c2.args)):
                        late.append(c2)
        # a text-mode file encodes while it writes: an unencodable character raises after the destination was truncated
        textmode = []
        for c in creates:
            if c._vp[0] == 'open' and isinstance(c._vp[1], str) and 'b' not in c._vp[1]:
                textmode.append(c)
        if textmode and not late:
            ctx.bad(fi.qualname, 'encode-after-open',
                    f'{fmt} writer: `{norm(textmode[0])}` opens the destination in text mode, so the serialised text is '
                    'encoded while it is written: a character the encoding cannot represent (e.g. a lone surrogate in a '
                    'region text) raises UnicodeEncodeError after the existing file was truncated; encode before opening '
                    'and write bytes', fi.loc(textmode[0]))
            continue
        if late:
            ctx.bad(fi.qualname, 'work-after-open',
                    f'{fmt} writer: `{norm(late[0])}` runs after the destination was '
                    'opened; if it raises the file is left half-written',
                    fi.loc(late[0]))
        else:
            ctx.ok(fi.qualname, 'serialisation dominates open; only fh.write(<name>) after it')


def r3(ctx):
    m = ctx.model
    for fmt, fi in _writers(ctx):
        d = param_default(fi.node, 'overwrite')
        if 'overwrite' not in func_params(fi.node) or not (
                isinstance(d, ast.Constant) and d.value is False):
            ctx.bad(fi.qualname, 'overwrite-default',
                    f'{fmt} writer: overwrite is not a parameter defaulting to False',
                    fi.loc())
            continue
        used = any(isinstance(n, ast.Name) and n.id == 'overwrite'
                   and isinstance(n.ctx, ast.Load) for n in ast.walk(fi.node))
        stores = any(isinstance(n, ast.Name) and n.id == 'overwrite'
                     and isinstance(n.ctx, ast.Store) for n in ast.walk(fi.node))
        if not used or stores:
            ctx.bad(fi.qualname, 'overwrite-unused',
                    f'{fmt} writer: overwrite is never read (or is reassigned)', fi.loc())
        else:
            ctx.ok(fi.qualname, 'overwrite=False default, read by guard/writeto')
    # forwarding: Region.write and Regions.write -> RegionsRegistry.write(..., overwrite=overwrite)
    for cname in ('Region', 'Regions'):
        ci = m.cls(cname)
        w = m.method(ci, 'write')
        ctx.need(w is not None, f'{cname}.write', 'method missing')
        d = param_default(w.node, 'overwrite')
        fw = False
        for c in calls_in(w.node):
            if (call_name(c) or '').endswith('RegionsRegistry.write'):
                for k in c.keywords:
                    if k.arg == 'overwrite' and isinstance(k.value, ast.Name) \
                            and k.value.id == 'overwrite':
                        fw = True
        if fw and isinstance(d, ast.Constant) and d.value is False:
            ctx.ok(f'{cname}.write', 'forwards overwrite (default False)')
        else:
            ctx.bad(f'{cname}.write', 'overwrite-not-forwarded',
                    f'{cname}.write does not forward overwrite (default False) to the registry',
                    w.loc())
    rw = m.method(m.cls('RegionsRegistry'), 'write')
    ctx.need(rw is not None, 'RegionsRegistry.write', 'missing')
    ok = False
    for c in calls_in(rw.node):
        if isinstance(c.func, ast.Name) and any(k.arg is None for k in c.keywords):
            ok = True
    if ok:
        ctx.ok('RegionsRegistry.write', 'forwards **kwargs to the writer')
    else:
        ctx.bad('RegionsRegistry.write', 'kwargs-dropped',
                'registry write() does not forward **kwargs to the writer', rw.loc())


def _eval_exten(fn):
    """Partial evaluation of the identifier's extension tables -> (read, write)."""
    env = {}
    for st in fn.body:
        if isinstance(st, ast.Assign) and len(st.targets) == 1 and \
                isinstance(st.targets[0], ast.Name):
            try:
                env[st.targets[0].id] = eval(  # constants/slices of tuples only
                    compile(ast.Expression(st.value), '<tb>', 'eval'),
                    {'__builtins__': {}}, dict(env))
            except Exception:
                pass
    ex = env.get('exten')
    if not isinstance(ex, dict) or 'read' not in ex or 'write' not in ex:
        return None
    tup = lambda v: (v,) if isinstance(v, str) else tuple(v)
    return tup(ex['read']), tup(ex['write'])


EXT_UNIVERSE = ('.ds9', '.reg', '.crtf', '.fits', '.fit', '.fts', '.txt', '.dat', '.fits.bz2')


def _probe_exten(m, ident):
    """(read extensions, write extensions) of an identifier function, observed: the identifier is partially evaluated on
    constant file names `x<ext>` and `x<ext>.gz` (upper-cased too); an extension counts when the answer is the constant
    True (for 'read' that is the extension shortcut, taken before the content is looked at)."""
    from ..vg import Const, Evaluator
    out = {}
    for meth in ('read', 'write'):
        acc = []
        for ext in EXT_UNIVERSE:
            for e in (ext, ext + '.gz'):
                vals = []
                for name in ('x' + e, 'X' + e.upper()):
                    try:
                        o = Evaluator(m).run(ident, [Const(meth), Const(name)], {})
                    except AnalysisError:
                        return None
                    first = o.returns[0][1] if o.returns else None
                    vals.append(len(o.returns) == 1 and not o.raises and isinstance(first, Const) and first.v is True
                                and not o.returns[0][0])
                if all(vals):
                    acc.append(e)
                elif any(vals):
                    return None        # case-sensitive: reported by R4b's write clause
        out[meth] = tuple(acc)
    return out['read'], out['write']


def _first_output_const(fn, var='output'):
    for st in stmts_of(fn):
        if isinstance(st, ast.Assign) and isinstance(st.targets[0], ast.Name) \
                and isinstance(st.value, ast.Constant) and isinstance(st.value.value, str) \
                and st.value.value.startswith('#'):
            return st.value.value
    return None


def _emitted_head(ctx, fmt, ser):
    """first line the serialiser emits, from its symbolic value on one region (the first '#...' string constant in
    emission order); falls back to the syntactic search."""
    from ..vg import App, Const, Tup, Ite, walk_terms, Obj, DictV
    m = ctx.model
    try:
        if fmt == 'ds9':
            from . import ds9
            ser_, wfi, meta_fn = ds9.writer_funcs(m)
            rec = DictV([{'frame': Const('image'), 'region': Const('circle(1,2,3)'), 'meta': DictV([{}])}])
            from ..vg import Evaluator
            ev = Evaluator(m, hooks={wfi.qualname: lambda e, a, k: rec})
            out = ev.run(ser, [Tup((Obj('CirclePixelRegion', {}, 'r0', m.cls('CirclePixelRegion')),), 'list')], {})
        else:
            from .c11 import eval_writer
            ser_, ev, out = eval_writer(m, m.cls('CircleSkyRegion'), 'fk5')
        for pc, v in out.returns:
            stack, seen = [v], []
            # depth-first, left-to-right: emission order of concatenations / joins
            while stack:
                t = stack.pop(0)
                if isinstance(t, Const) and isinstance(t.v, str) and t.v.lstrip().startswith('#'):
                    return t.v.split('\n')[0] + ('\n' if '\n' in t.v else '')
                if isinstance(t, App):
                    stack = list(t.args) + stack
                elif isinstance(t, Tup):
                    stack = list(t.items) + stack
                elif isinstance(t, Ite):
                    stack = [t.a, t.b] + stack
    except Exception:
        pass
    head = _first_output_const(ser.node)
    if head is None:
        for fi in m.all_functions():
            if fi.path.startswith(f'regions/io/{fmt}/'):
                h = _first_output_const(fi.node)
                if h and h.startswith('#') and 'output' in norm(fi.node):
                    return h
    return head


def _documented_extensions(ctx):
    """{format: [extensions]} from the format table of docs/region_io.rst (rows `  <fmt>   .ext[, .ext]   <description>`)."""
    import os
    path = os.path.join(ctx.src.root, 'docs', 'region_io.rst')
    out = {}
    try:
        with open(path) as fh:
            for line in fh:
                mt = re.match(r'^\s+(crtf|ds9|fits)\s+((?:\.\w+(?:,\s*)?)+)\s{2,}\S', line)
                if mt:
                    out[mt.group(1)] = [e.strip() for e in mt.group(2).split(',') if e.strip()]
    except OSError:
        pass
    return out


def r4(ctx):
    m = ctx.model
    for fmt in FORMATS:
        ident = m.registered('identify', fmt)
        ex = _probe_exten(m, ident)
        ctx.need(ex is not None, ident.qualname, 'extension behaviour not reducible on constant file names')
        rd, wr = ex
        if set(wr) <= set(rd) and wr:
            ctx.ok(f'{ident.qualname}:extensions', f'write {wr} within read {rd}')
        else:
            ctx.bad(f'{ident.qualname}', 'extensions',
                    f'{fmt}: write extensions {wr} are not all read extensions {rd}',
                    ident.loc())
        # the extensions the documentation promises for this format (docs/region_io.rst, format table) are identified
        # for reading and for writing
        doc = _documented_extensions(ctx).get(fmt)
        ctx.need(doc, f'docs/region_io.rst:{fmt}', 'documented extensions not found')
        miss = [(e, k) for e in doc for k, tab in (('read', rd), ('write', wr)) if e not in tab]
        if miss:
            ctx.bad(f'{ident.qualname}:documented extensions', 'undocumented-gap',
                    f'{fmt}: the documentation lists the extensions {doc}, but {miss[0][0]!r} is not identified for {miss[0][1]} '
                    f'(read {rd}, write {wr}): a file written or read with that name and no format= is not recognised', ident.loc())
        else:
            ctx.ok(f'{ident.qualname}:documented extensions', f'{doc} identified for read and write')
        # methodname dispatch uses the table of the same method
        for c in calls_in(ident.node):
            if (call_name(c) or '').endswith('.endswith') and c.args:
                a = c.args[0]
                if isinstance(a, ast.Subscript) and dotted(a.value) == 'exten':
                    if not (isinstance(a.slice, ast.Name) and a.slice.id == 'methodname'):
                        ctx.bad(ident.qualname, 'extension-key',
                                f'{fmt}: extension lookup not keyed by methodname',
                                ident.loc(c))
    # content signatures
    for fmt, headvar in (('ds9', None), ('crtf', None)):
        ident = m.registered('identify', fmt)
        # the content signature: the string constant the identifier compares what it reads from the file with
        from ..vg import Cmp as _Cmp, Const as _K, Evaluator as _Ev, Obj as _O, walk_terms as _wt
        o_ = _Ev(m).run(ident, [_K('read'), _O('path', {}, 'filepath')], {})
        sigs = {x.rhs.v for _, v in o_.returns for x in _wt(v) if isinstance(x, _Cmp) and x.op == '==' and isinstance(x.rhs, _K)
                and isinstance(x.rhs.v, str) and x.rhs.v.startswith('#')}
        # ... or tests for membership in (signature, signature.encode())
        from ..vg import Tup as _T
        sigs |= {i_.v for _, v in o_.returns for x in _wt(v) if isinstance(x, _Cmp) and x.op == 'in' and isinstance(x.rhs, _T)
                 for i_ in x.rhs.items if isinstance(i_, _K) and isinstance(i_.v, str) and i_.v.startswith('#')}
        ctx.need(len(sigs) == 1, ident.qualname, f'content signature not identified ({sorted(sigs)})')
        sig = sigs.pop()
        ser = m.registered('serialize', fmt)
        head = _emitted_head(ctx, fmt, ser)
        ctx.need(head is not None, ser.qualname, 'first line of the serialised text not determined')
        if head.startswith(sig):
            ctx.ok(f'{fmt}:signature', f'{sig!r} is a prefix of emitted header {head!r}')
        else:
            ctx.bad(f'{fmt}:signature', 'mismatch',
                    f'{fmt}: content signature {sig!r} is not a prefix of the header '
                    f'{head!r} the serialiser writes', ident.loc())
        # an empty list is a successful write too: its text must still be identifiable by content
        from ..vg import Const as _C, Evaluator as _E, Tup as _T, show as _show
        oute = _E(m).run(ser, [_T((), 'list')], {})
        vals = [v for _, v in oute.returns]
        ctx.need(vals and all(isinstance(v, _C) and isinstance(v.v, str) for v in vals), f'{fmt}:empty list',
                 f'text of an empty list not reducible: {[_show(v, 80) for v in vals]}')
        if all(v.v.startswith(sig) for v in vals):
            ctx.ok(f'{fmt}:empty list', f'an empty list is written as {vals[0].v!r}, which carries the signature')
        else:
            ctx.bad(f'{fmt}:empty list', 'no-signature',
                    f'{fmt}: an empty region list is serialised as {vals[0].v!r}: the file written from it has no content '
                    f'signature ({sig!r}), so a renamed copy cannot be read back without format=', ser.loc())
        if fmt == 'crtf':
            rmod = m.modules.get('regions.io.crtf.read')
            ctx.need(rmod and 'regex_begin' in rmod.assigns, 'crtf.read:regex_begin',
                     'header regex not found')
            v = rmod.assigns['regex_begin'][0].value
            pat = v.args[0].value
            if re.compile(pat).search(head):
                ctx.ok('crtf:regex_begin', f'{pat!r} accepts {head!r}')
            else:
                ctx.bad('crtf:regex_begin', 'mismatch',
                        f'reader header regex {pat!r} rejects the header {head!r}',
                        'regions/io/crtf/read.py')


def r4b(ctx):
    """identifier semantics by symbolic evaluation: write -> extension test; read -> (str and extension) or content;
    any other method -> False; never raises on a path string."""
    from ..vg import Const, Evaluator, Obj, show
    m = ctx.model
    ext_re = r"apply\(attr:endswith\(apply\(attr:lower\(filepath\)\)\), (\[.*?\]|'[^']*')\)"
    for fmt in FORMATS:
        ident = m.registered('identify', fmt)
        probs = []
        res = {}
        for meth in ('read', 'write', 'serialize'):
            ev = Evaluator(m)
            fp = Obj('str', {}, 'filepath')
            fp.typed = False
            out = ev.run(ident, [Const(meth), fp], {})
            # `return A or B` is `if A: return True` followed by `return B` (A a truth value): the same outcomes, spelt apart
            from ..vg import BoolT as _B, mk_not as _not
            pairs = []
            for pc, v in out.returns:
                if isinstance(v, _B) and v.op == 'or' and len(v.args) == 2 and 'attr:endswith' in show(v.args[0], 400) \
                        and 'attr:read' not in show(v.args[0], 400):
                    pairs.append((list(pc) + [v.args[0]], Const(True)))
                    pairs.append((list(pc) + [_not(v.args[0])], v.args[1]))
                else:
                    pairs.append((pc, v))
            res[meth] = ([(show(ev.conj(pc), 400), show(v, 400)) for pc, v in pairs], [n for _, n, _ in out.raises])
        rets, raises = res['serialize']
        if raises or [v for _, v in rets] != ['False']:
            probs.append(f'for a method that is neither read nor write it returns {[v for _, v in rets]} (raises {raises}); must be False')
        rets, raises = res['write']
        if raises or len(rets) != 1 or not re.fullmatch(ext_re, rets[0][1]):
            probs.append(f'write: returns {rets[:2]} (raises {raises}); must be the extension test on the lower-cased path')
        rets, raises = res['read']
        want_cond = r"\(bool\(isinstance\(filepath, str\)\) and bool\(" + ext_re + r"\)\)"
        if raises or not rets or rets[0][1] != 'True' or not re.fullmatch(want_cond, rets[0][0]):
            probs.append(f'read: first outcome is {rets[:1]} (raises {raises}); must be True exactly when the path is a str with a '
                         'read extension, before the content is looked at')
        # content branch (ds9, crtf): the signature read from the file equals the constant, as str or as bytes
        if fmt in ('ds9', 'crtf') and len(rets) > 1:
            content = rets[1][1]
            if not (re.fullmatch(r"\(\(apply\(attr:read\(.*\), \d+\) == '[^']+'\) or \(apply\(attr:read\(.*\), \d+\) == "
                                 r"apply\(attr:encode\('[^']+'\)\)\)\)", content)
                    or re.fullmatch(r"\(apply\(attr:read\(.*\), \d+\) in \['[^']+', apply\(attr:encode\('[^']+'\)\)\]\)", content)):
                probs.append(f'read: the content test is {content[:160]}; must be (signature read == constant) or (== its bytes)')
        # content branch (fits): opening the file as FITS succeeds -> True, fails with OSError -> False
        if fmt == 'fits':
            scopes_ = [ident.node] + [g.node for c in calls_in(ident.node) for g in (m.resolve_call(ident, c) or ())
                                     if g.module == ident.module]
            tries = [n for sc in scopes_ for n in ast.walk(sc) if isinstance(n, ast.Try)]
            okc = False
            for t in tries:
                withs = [w for w in ast.walk(t) if isinstance(w, ast.With) and any(
                    (call_name(it.context_expr) or '').endswith('.open') for it in w.items if isinstance(it.context_expr, ast.Call))]
                if not withs:
                    continue
                w = withs[-1]
                body_true = len(w.body) == 1 and isinstance(w.body[0], ast.Return) and isinstance(w.body[0].value, ast.Constant) \
                    and w.body[0].value.value is True
                hs_false = t.handlers and all(
                    len(h.body) == 1 and isinstance(h.body[0], ast.Return) and isinstance(h.body[0].value, ast.Constant)
                    and h.body[0].value.value is False and h.type is not None and 'OSError' in ast.unparse(h.type)
                    for h in t.handlers)
                okc = body_true and hs_false
            if not okc:
                probs.append('read: the content test must be "the file opens as FITS -> True; OSError -> False"')
        # the canonical extension of the format is a write extension
        canon = {'ds9': '.reg', 'crtf': '.crtf', 'fits': '.fits'}[fmt]
        wrets = res['write'][0]
        if wrets and f"'{canon}'" not in wrets[0][1]:
            probs.append(f'write: a destination ending in {canon} is not recognised ({wrets[0][1][-60:]})')
        if probs:
            ctx.bad(ident.qualname, 'identifier-semantics', f'{fmt}: ' + '; '.join(probs), ident.loc())
        else:
            ctx.ok(f'{ident.qualname}:semantics', 'write: extension; read: str+extension first; other methods: False')


def r4c(ctx):
    """the FITS reader finds the region table by its extension name: the header handed to the table HDU carries
    EXTNAME=REGION on every path, also when the caller supplies a header."""
    from ..vg import App, Const, DictV, Evaluator, Ite, Obj, show, walk_terms
    m = ctx.model
    wf = m.registered('write', 'fits')
    rmod = m.modules['regions.io.fits.read']
    want = None
    for fi in rmod.functions.values():
        for n in ast.walk(fi.node):
            if isinstance(n, ast.Constant) and isinstance(n.value, str) and 'EXTNAME' in n.value and '"' in n.value:
                mm = re.search(r'"(\w+)"', n.value)
                if mm:
                    want = mm.group(1)
    ctx.need(want is not None, 'fits read', 'required extension name not found in the reader')
    ser = m.registered('serialize', 'fits')
    ev = Evaluator(m, opaque_funcs={ser.qualname})
    hdr = Obj('Header', {}, 'header')
    hdr.typed = False
    out = ev.run(wf, [Obj('list', {}, 'regions'), Obj('str', {}, 'filename')], {'header': hdr, 'overwrite': Const(True)})
    hdus = []
    for name in ('bin_table',):
        v = out.env.get(name)
        if v is not None:
            hdus += [x for x in walk_terms(v) if isinstance(x, App) and x.name.endswith('BinTableHDU')]
    ctx.need(hdus, wf.qualname, 'table HDU construction not found')
    h = None
    for a in hdus[0].args:
        if isinstance(a, Tup_) and len(a.items) == 2 and isinstance(a.items[0], Const) and a.items[0].v == 'header':
            h = a.items[1]
    ctx.need(h is not None, wf.qualname, 'header argument of the table HDU not found')
    arms = []

    def split(t):
        if isinstance(t, Ite):
            c = show(t.cond, 400)
            if "'EXTNAME' notin" in c and not c.startswith('not '):
                split(t.a)        # the other arm already has an EXTNAME: the caller chose the name
            elif "'EXTNAME' in" in c and not c.startswith('not '):
                split(t.b)
            else:
                split(t.a)
                split(t.b)
        else:
            arms.append(t)
    split(h)
    bad = [a for a in arms if f"'EXTNAME'" not in show(a, 3000) or want not in show(a, 3000)]
    if bad:
        ctx.bad(wf.qualname, 'extname-missing',
                f'on the path where the caller supplies a header the table is written with header {show(bad[0], 120)}: '
                f'nothing guarantees EXTNAME="{want}", which the reader requires — write(..., header={{"FOO": 1}}) succeeds '
                'and the file cannot be read back', wf.loc())
    else:
        ctx.ok(wf.qualname + ':extname', f'every header reaching the table HDU carries EXTNAME={want}')


def r5(ctx):
    m = ctx.model
    reg = m.cls('RegionsRegistry')
    for name in ('read', 'write', 'parse', 'serialize'):
        fi = m.method(reg, name)
        ctx.need(fi is not None, f'RegionsRegistry.{name}', 'missing')
        fn = fi.node
        # the method and the helpers of the registry class it calls (one level)
        scopes = [fn]
        for c in calls_in(fn):
            for h in m.resolve_call(fi, c) or ():
                if h.cls == fi.cls and h.qualname != fi.qualname and h.node not in scopes:
                    scopes.append(h.node)
        pm = {}
        for sc in scopes:
            pm.update(parents(sc))
        # every registry[...] subscript sits in try/except KeyError -> raise IORegistryError
        subs = [n for sc in scopes for n in ast.walk(sc) if isinstance(n, ast.Subscript)
                and (dotted(n.value) or '').endswith('registry') and isinstance(n.ctx, ast.Load)
                and not any(isinstance(p_, ast.comprehension) for p_ in [pm.get(n)])]
        # a key taken from the registry itself (for key in registry ...) cannot miss; a key built from the caller's
        # arguments can
        loop_vars = {t.id for sc in scopes for n_ in ast.walk(sc) if isinstance(n_, (ast.For, ast.comprehension))
                     for t in ast.walk(n_.target) if isinstance(t, ast.Name)}
        subs = [n for n in subs if isinstance(n.slice, ast.Tuple)
                or (isinstance(n.slice, ast.Name) and n.slice.id not in loop_vars)]
        ctx.need(subs, fi.qualname, 'no registry lookup found')
        good = True
        for s in subs:
            cur = s
            intry = None
            while cur in pm:
                cur = pm[cur]
                if isinstance(cur, ast.Try):
                    intry = cur
                    break
            ok = False
            if intry is not None:
                for h in intry.handlers:
                    if h.type is not None and dotted(h.type) == 'KeyError':
                        ok = any(isinstance(x, ast.Raise) and x.exc is not None and
                                 (dotted(x.exc.func if isinstance(x.exc, ast.Call) else x.exc)
                                  == 'IORegistryError') for b in h.body for x in ast.walk(b))
            good &= ok
        # format None handled
        none_ok = False
        # ... in the method itself or in the registry helper it hands `format` to (one level)
        for sc in scopes:
            for st in sc.body:
                if isinstance(st, ast.If) and norm(st.test) == 'format is None':
                    txt = ' '.join(norm(b) for b in st.body)
                    if sc is not fn and not any(isinstance(a, ast.Name) and a.id == 'format'
                                                for c in calls_in(fn) for a in list(c.args) + [k.value for k in c.keywords]
                                                if (call_name(c) or '').split('.')[-1] == sc.name):
                        continue
                    none_ok = none_ok or 'identify_format' in txt or '_no_format_error' in txt
        if good and none_ok:
            ctx.ok(fi.qualname, 'KeyError -> IORegistryError; format None handled')
        else:
            ctx.bad(fi.qualname, 'registry-error',
                    'registry lookup can escape as KeyError or format=None is not handled',
                    fi.loc())
    # which registry entries are consulted to identify a format: exactly the 'identify' entries of the class asked about
    from ..vg import Const, Evaluator, Obj, Tup, show
    gi = m.method(reg, 'get_identifiers')
    ctx.need(gi is not None, 'RegionsRegistry.get_identifiers', 'missing')
    keys = [('Regions', 'identify', 'ds9'), ('Regions', 'read', 'ds9'), ('Region', 'identify', 'ds9'),
            ('Regions', 'identify', 'fits'), ('Regions', 'write', 'fits')]
    K = Tup(tuple(Tup(tuple(Const(x) for x in k)) for k in keys), 'list')
    out = Evaluator(m).run(gi, [Obj('RegionsRegistry', {'registry': K}, None, None), Const('Regions')], {})
    got = show(out.returns[0][1], 300) if len(out.returns) == 1 else '?'
    if got == "[['Regions', 'identify', 'ds9'], ['Regions', 'identify', 'fits']]":
        ctx.ok(gi.qualname, "selects the class's own 'identify' entries")
    else:
        ctx.bad(gi.qualname, 'identifier-selection', f'from the entries {keys} the identifiers selected for Regions are {got}',
                gi.loc())
    nf = m.method(reg, '_no_format_error')
    idf = m.method(reg, 'identify_format')
    ctx.need(nf and idf, 'RegionsRegistry', 'helpers missing')
    last = nf.node.body[-1]
    if isinstance(last, ast.Raise) and 'IORegistryError' in norm(last):
        ctx.ok(nf.qualname, 'always raises IORegistryError')
    else:
        ctx.bad(nf.qualname, 'no-raise', '_no_format_error does not end in raise IORegistryError',
                nf.loc())
    icfg = CFG(idf.node, exceptions=False)
    # every way out of identify_format hands back a format taken from a registry key, or goes through _no_format_error
    # (which always raises): a `return <name>` needs the `<name> is None -> _no_format_error` guard on every path to it
    nf_nodes = [i for i, st in icfg.stmt.items() if icfg.kind[i] == 'stmt' and any(
        (call_name(c) or '').endswith('_no_format_error') for c in calls_in(st))]
    rets = [(i, st) for i, st in icfg.stmt.items() if icfg.kind[i] == 'stmt' and isinstance(st, ast.Return)]
    good = bool(rets) and icfg.must_pass([EXIT], [i for i, _ in rets] + nf_nodes)
    for i, st in rets:
        if i in nf_nodes:
            continue
        if isinstance(st.value, ast.Subscript):
            continue                       # an element of the matching key
        if isinstance(st.value, ast.Name):
            x = st.value.id
            guards = [j for j, s2 in icfg.stmt.items() if icfg.kind[j] == 'test' and norm(s2.test).replace(' ', '') == f'{x}isNone'
                      and any('_no_format_error' in norm(b) for b in s2.body)]
            good = good and bool(guards) and icfg.must_pass([i], guards)
        else:
            good = False
    if good:
        ctx.ok(idf.qualname, 'unidentified format raises')
    else:
        ctx.bad(idf.qualname, 'no-raise', 'identify_format may return None silently', idf.loc())


def r5b(ctx):
    """format inference is asked about the right things: at the identify_format call in RegionsRegistry.read/write the
    destination path, the region class and the method name reach the roles the identifier functions give their
    parameters (roles are read from the identifiers, the registered readers/writers and identify_format itself)."""
    m = ctx.model
    reg = m.cls('RegionsRegistry')
    idf = m.method(reg, 'identify_format')
    ctx.need(idf is not None, 'RegionsRegistry.identify_format', 'missing')
    idents = [(k, f) for k, f in m.registry.items() if k[1] == 'identify']
    ctx.need(len(idents) >= 3, 'registry', 'fewer than three identifier functions registered')
    roles = set()
    for k, f in idents:
        ps = [a.arg for a in f.node.args.args]
        ctx.need(len(ps) == 2, f.qualname, 'identifier does not take (method, path)')
        meth = {n.left.id for n in ast.walk(f.node) if isinstance(n, ast.Compare) and isinstance(n.left, ast.Name)
                and n.left.id in ps and any(isinstance(c, ast.Constant) and c.value in ('read', 'write') for c in n.comparators)}
        ctx.need(len(meth) == 1, f.qualname, 'method-name parameter of the identifier not recognised')
        roles.add(ps.index(meth.pop()))
    ctx.need(len(roles) == 1, 'registry', 'identifier functions disagree on their parameter order')
    mi = roles.pop()
    pi = 1 - mi
    iparams = [a.arg for a in idf.node.args.args if a.arg != 'cls']
    role = {}
    def _is_lookup(e):
        return isinstance(e, ast.Subscript) and (dotted(e.value) or '').endswith('registry')
    idf_looked = {t.id for st in ast.walk(idf.node) if isinstance(st, ast.Assign) and _is_lookup(st.value)
                  for t in st.targets if isinstance(t, ast.Name)}
    for c in calls_in(idf.node):
        if (_is_lookup(c.func) or (isinstance(c.func, ast.Name) and c.func.id in idf_looked)) and len(c.args) == 2:
            for idx, r in ((mi, 'method'), (pi, 'path')):
                if isinstance(c.args[idx], ast.Name) and c.args[idx].id in iparams:
                    role[r] = c.args[idx].id
        elif (call_name(c) or '').endswith('get_identifiers') and c.args and isinstance(c.args[0], ast.Name):
            role['class'] = c.args[0].id
    if not (len(role) == 3 and len(set(role.values())) == 3):
        ctx.bad(idf.qualname, 'identifier-arguments',
                f'identify_format hands its parameters to the identifier functions as {role}: the identifiers take '
                f'(method name, path) at positions ({mi}, {pi}) and get_identifiers takes the class', idf.loc())
    else:
        ctx.ok(idf.qualname, f'identifier(method={role["method"]}, path={role["path"]}); identifiers of {role["class"]}')
    # the format returned is the format element of the matching registry key: its position is read from the key tuple
    # built by register()
    regf = m.method(reg, 'register')
    ctx.need(regf is not None, 'RegionsRegistry.register', 'missing')
    rparams = [a.arg for a in regf.node.args.args if a.arg != 'cls']
    key_t = next((t for t in ast.walk(regf.node) if isinstance(t, ast.Tuple) and len(t.elts) == 3
                  and all(isinstance(e, ast.Name) and e.id in rparams for e in t.elts)), None)
    ctx.need(key_t is not None and len(rparams) == 3, regf.qualname, 'registry key tuple not found')
    fmt_pos = [e.id for e in key_t.elts].index(rparams[2])
    loopvars = {t.id for n_ in ast.walk(idf.node) if isinstance(n_, ast.For) for t in ast.walk(n_.target) if isinstance(t, ast.Name)}
    picks = [st.value for st in ast.walk(idf.node) if isinstance(st, (ast.Assign, ast.Return)) and isinstance(st.value, ast.Subscript)
             and isinstance(st.value.value, ast.Name) and st.value.value.id in loopvars]
    ctx.need(picks, idf.qualname, 'no `<key>[i]` selection of the format found')
    wrong = [p_ for p_ in picks if not (isinstance(p_.slice, ast.Constant) and p_.slice.value in (fmt_pos, fmt_pos - 3))]
    if wrong:
        ctx.bad(idf.qualname + ':format element', 'key-position',
                f'identify_format takes `{norm(wrong[0])}` of the matching registry key; register() builds keys as '
                f'({", ".join(e.id for e in key_t.elts)}), so the format is element {fmt_pos}', idf.loc(wrong[0]))
    else:
        ctx.ok(idf.qualname + ':format element', f'the format is element {fmt_pos} of the key, as register() builds it')
    for name, path_idx in (('read', 0), ('write', 1)):
        fi = m.method(reg, name)
        fn = fi.node
        construct = f'RegionsRegistry.{name}: identify_format call'
        call = next((c for c in calls_in(fn) if (call_name(c) or '').endswith('identify_format')), None)
        subst = {}
        if call is None:
            # the inference may sit in a helper of the registry class (one level): its identify_format call, with the
            # helper's parameters replaced by what this method passes for them
            for c in calls_in(fn):
                for h in m.resolve_call(fi, c) or ():
                    if h.cls != fi.cls or h.qualname == fi.qualname:
                        continue
                    inner = next((c2 for c2 in calls_in(h.node) if (call_name(c2) or '').endswith('identify_format')), None)
                    if inner is not None and call is None:
                        hp = [a.arg for a in h.node.args.args if a.arg not in ('cls', 'self')]
                        subst = dict(zip(hp, c.args))
                        subst.update({k.arg: k.value for k in c.keywords if k.arg})
                        call = inner
        if call is None or len(role) != 3:
            ctx.need(call is not None, construct, 'no identify_format call')
            continue
        bound = {}
        for p_, a in zip(iparams, call.args):
            bound[p_] = a
        for kw in call.keywords:
            bound[kw.arg] = kw.value
        bound = {k_: (subst.get(v_.id, v_) if isinstance(v_, ast.Name) else v_) for k_, v_ in bound.items()}
        # the class of the registry key: the name that precedes the constant method name in the key tuple, or in the call
        # of the helper that builds the key
        key_cls = None
        for t in ast.walk(fn):
            elts = t.elts if isinstance(t, ast.Tuple) else (t.args if isinstance(t, ast.Call) and t is not call else None)
            if elts is None:
                continue
            for a, b in zip(elts, elts[1:]):
                if isinstance(b, ast.Constant) and b.value == name and isinstance(a, ast.Name) and key_cls is None:
                    key_cls = a.id
        # the dispatch: the call of a local variable (the looked-up reader/writer)
        params = {a.arg for a in fn.args.args}
        local = {t.id for st in ast.walk(fn) if isinstance(st, ast.Assign) for t in st.targets if isinstance(t, ast.Name)} - params
        disp = next((c for c in calls_in(fn) if isinstance(c.func, ast.Name) and c.func.id in local), None)
        ctx.need(key_cls is not None and disp is not None and len(disp.args) > path_idx, construct,
                 'registry key or dispatch call not recognised')
        # the dispatched argument may spell the path differently (os.fspath(filename), a helper); which parameter it carries
        # is what matters here — how it is spelt is R7b's business
        carried = sorted({n.id for n in ast.walk(disp.args[path_idx]) if isinstance(n, ast.Name) and n.id in params - {'cls', 'self'}})
        ctx.need(len(carried) == 1, construct, 'registry key or dispatch call not recognised')
        path_name = carried[0]
        probs = []
        a = bound.get(role['method'])
        if not (isinstance(a, ast.Constant) and a.value == name):
            probs.append(f'the method name asked about is `{norm(a) if a is not None else None}`, not {name!r}')
        a = bound.get(role['class'])
        if not (isinstance(a, ast.Name) and a.id == key_cls):
            probs.append(f'the class asked about is `{norm(a) if a is not None else None}`, the registry key uses `{key_cls}`')
        a = bound.get(role['path'])
        if a is not None and not isinstance(a, ast.Name):
            r_ = _path_forward(m, fi, a, {path_name})
            if r_ is not None and r_[0] == 'same':
                a = ast.Name(id=path_name, ctx=ast.Load())
        if not (isinstance(a, ast.Name) and a.id == path_name):
            probs.append(f'the path asked about is `{norm(a) if a is not None else None}`, the {name}r is given `{path_name}`')
        if probs:
            ctx.bad(construct, 'inference-arguments', '; '.join(probs) + ': the format of a file written/read without '
                    'format= is inferred from the wrong object', fi.loc())
        else:
            ctx.ok(construct, f'path `{path_name}`, class `{key_cls}`, method {name!r}')


def r6(ctx):
    """reading has no memory: the functions on the read/write/identify paths (registry, connect, io) write no
    module- or class-level object (rule C13.R2 restricted to them) — a remembered format or template would make a later
    read of the same path depend on what was there before."""
    from .c09 import _SubCtx
    from .c13 import r2 as c13r2
    sub = _SubCtx(ctx, lambda c: any(k in c for k in ('registry', 'connect', 'regions/io/', 'Registry')))
    c13r2(sub)
    sub.flush('no module/class-level state is written on the read/write/identify paths')


def r7(ctx):
    """the dispatch layer (Region.write, Regions.write, RegionsRegistry.write) only hands the destination on: it neither
    creates nor modifies it. A clean-up that removes a half-written file is accepted only where the path was established
    absent with os.path.lexists before the writer ran (os.path.exists is false for a dangling symlink, which a clean-up
    would then delete)."""
    m = ctx.model
    reg = m.cls('RegionsRegistry')
    entries = [m.method(reg, 'write')]
    for cname in ('Region', 'Regions'):
        ci = m.cls(cname)
        f = m.method(ci, 'write') if ci is not None else None
        if f is not None:
            entries.append(f)
    ctx.need(len(entries) == 3 and all(entries), 'write dispatch', 'Region.write / Regions.write / RegionsRegistry.write not found')
    for fi in entries:
        fn = fi.node
        params = [a.arg for a in fn.args.args if a.arg not in ('self', 'cls')]
        construct = fi.qualname.split(':')[1]
        pm = parents(fn)
        bad = None
        for pathparam in params:
            for c in _destination_modifiers(fn, pathparam) + [x[0] for x in _direct_creates(fn) if any(
                    isinstance(a, ast.Name) and a.id == pathparam for a in ast.walk(x[3]) if x[3] is not None)]:
                # accepted: under `if not <flag>` with <flag> = os.path.lexists(<path>) assigned in this function
                flags = {t.id for st in ast.walk(fn) if isinstance(st, ast.Assign) and isinstance(st.value, ast.Call)
                         and (call_name(st.value) or '').endswith('lexists') for t in st.targets if isinstance(t, ast.Name)}
                guarded = False
                cur = c
                while cur in pm:
                    cur = pm[cur]
                    if isinstance(cur, ast.If) and isinstance(cur.test, ast.UnaryOp) and isinstance(cur.test.op, ast.Not) \
                            and isinstance(cur.test.operand, ast.Name) and cur.test.operand.id in flags:
                        guarded = True
                if not guarded:
                    bad = c
        if bad is not None:
            ctx.bad(construct, 'dispatch-touches-destination',
                    f'`{norm(bad)[:80]}` in {construct} changes the destination itself: a failing write (no-clobber OSError, bad '
                    'option, unserialisable region) must leave it as it was — absent if absent, and a dangling symlink is '
                    '"present" (os.path.lexists), not something to clean up', fi.loc(bad))
        else:
            ctx.ok(construct, 'the destination is only handed on to the format writer')


PATH_KEEPERS = ('os.fspath', 'fspath', 'str', 'os.path.expanduser', 'expanduser', 'os.path.abspath', 'abspath', 'os.path.expandvars',
                'Path', 'pathlib.Path', 'PurePath', 'pathlib.PurePath', 'os.fsdecode')
PATH_KEEPER_METHODS = ('expanduser', 'absolute', 'as_posix', '__fspath__', '__str__')
LINK_FOLLOWERS = ('os.path.realpath', 'realpath', 'os.readlink', 'readlink')
LINK_FOLLOWER_METHODS = ('resolve', 'readlink')


def _path_forward(m, fi, expr, names, depth=0):
    """How expression `expr` of function `fi` relates to the path held by the variables `names`:
    ('same', names used) — the path itself, possibly through spellings that never follow a link (fspath, str, expanduser,
    abspath, Path); ('follows', construct) — through realpath / Path.resolve / readlink, i.e. the *target* of a symbolic link;
    ('unknown', construct) — something else; None — the expression does not carry the path."""
    uses = {n.id for n in ast.walk(expr) if isinstance(n, ast.Name) and n.id in names}
    if not uses:
        return None
    if isinstance(expr, ast.Name):
        return ('same', uses)
    if isinstance(expr, ast.IfExp):
        rs = [r for r in (_path_forward(m, fi, e, names, depth) for e in (expr.body, expr.orelse)) if r is not None]
        for kind in ('follows', 'unknown'):
            for r in rs:
                if r[0] == kind:
                    return r
        return ('same', uses)
    if isinstance(expr, ast.Call):
        cn = call_name(expr) or ''
        if isinstance(expr.func, ast.Attribute) and expr.func.attr in LINK_FOLLOWER_METHODS and not expr.args \
                and _path_forward(m, fi, expr.func.value, names, depth):
            return ('follows', norm(expr)[:80])
        if cn in LINK_FOLLOWERS and expr.args:
            return ('follows', norm(expr)[:80])
        if isinstance(expr.func, ast.Attribute) and expr.func.attr in PATH_KEEPER_METHODS and not expr.args:
            return _path_forward(m, fi, expr.func.value, names, depth)
        if cn in PATH_KEEPERS and len(expr.args) == 1 and not expr.keywords:
            return _path_forward(m, fi, expr.args[0], names, depth)
        if depth < 2:
            cands = m.resolve_call(fi, expr) or ()
            if len(cands) == 1:
                g = cands[0]
                params = [a.arg for a in g.node.args.args if a.arg not in ('self', 'cls')]
                carried = set()
                for prm, a in zip(params, expr.args):
                    r = _path_forward(m, fi, a, names, depth)
                    if r is not None:
                        if r[0] != 'same':
                            return r
                        carried.add(prm)
                if carried:
                    # single-assignment locals of the helper that carry the path
                    for _ in range(3):
                        for st in ast.walk(g.node):
                            if isinstance(st, ast.Assign) and len(st.targets) == 1 and isinstance(st.targets[0], ast.Name):
                                r = _path_forward(m, g, st.value, carried, depth + 1)
                                if r is not None and r[0] != 'same':
                                    return (r[0], f'{g.name}: {r[1]}')
                                if r is not None:
                                    carried.add(st.targets[0].id)
                    out = None
                    plain = None
                    for st in ast.walk(g.node):
                        if isinstance(st, ast.Return) and st.value is not None:
                            r = _path_forward(m, g, st.value, carried, depth + 1)
                            if r is None:
                                plain = plain or f'{g.name} returns `{norm(st.value)[:60]}`'
                                continue
                            if r[0] != 'same':
                                return (r[0], f'{g.name}: {r[1]}')
                            out = ('same', uses)
                    if out and plain:
                        return ('unknown', plain)       # the path on some returns, something else on others
                    if out:
                        return out
                    return None                         # the helper consumes the path (a format name, a flag): nothing is handed on
        return ('unknown', norm(expr)[:80])
    return ('unknown', norm(expr)[:80])


def r7b(ctx):
    """the destination the format writer tests and creates is the path the caller named: between Region.write /
    Regions.write / RegionsRegistry.write and the writer the path is handed on as it is (or through spellings that do not
    follow links: fspath, str, expanduser, abspath).  Through realpath / Path.resolve the writer's lexists guard looks at the
    *target* of a symbolic link: a dangling link counts as absent, and the write goes through it without overwrite=True."""
    m = ctx.model
    reg = m.cls('RegionsRegistry')
    entries = [m.method(reg, 'write')]
    for cname in ('Region', 'Regions'):
        ci = m.cls(cname)
        entries.append(m.method(ci, 'write') if ci is not None else None)
    ctx.need(len(entries) == 3 and all(entries), 'write dispatch', 'Region.write / Regions.write / RegionsRegistry.write not found')
    for fi in entries:
        fn = fi.node
        construct = fi.qualname.split(':')[1]
        pathparam = 'filename' if any(a.arg == 'filename' for a in fn.args.args) else None
        ctx.need(pathparam is not None, construct, 'no `filename` parameter')
        names = {pathparam}
        problem = None
        # locals re-bound from the path (filename = os.fspath(filename))
        for st in ast.walk(fn):
            if isinstance(st, ast.Assign) and len(st.targets) == 1 and isinstance(st.targets[0], ast.Name):
                r = _path_forward(m, fi, st.value, names)
                if r is not None and r[0] == 'same':
                    names.add(st.targets[0].id)
                elif r is not None and (call_name(st.value) or '').split('.')[-1] not in ('identify_format', 'lexists', 'exists'):
                    if st.targets[0].id in {n.id for c in calls_in(fn) for a in list(c.args) + [k.value for k in c.keywords]
                                            for n in ast.walk(a) if isinstance(n, ast.Name)}:
                        problem = problem or (r, st)
                        names.add(st.targets[0].id)
        local = {t.id for st in ast.walk(fn) if isinstance(st, ast.Assign) for t in st.targets if isinstance(t, ast.Name)}
        n_forward = 0
        for c in calls_in(fn):
            cn = call_name(c) or ''
            is_dispatch = (isinstance(c.func, ast.Name) and c.func.id in local) or cn.endswith('.write')
            if not is_dispatch:
                continue
            for a in list(c.args) + [k.value for k in c.keywords if k.arg is not None]:
                r = _path_forward(m, fi, a, names)
                if r is None:
                    continue
                n_forward += 1
                if r[0] != 'same':
                    problem = problem or (r, c)
        ctx.need(n_forward >= 1, construct, 'the call that hands the destination on was not found')
        if problem is None:
            ctx.ok(construct, 'the destination is handed on as named by the caller')
        elif problem[0][0] == 'follows':
            ctx.bad(construct, 'destination-resolved',
                    f'{construct} hands the writer `{problem[0][1]}` instead of the path it was given: a symbolic link is replaced '
                    'by its target, so for a dangling link the writer\'s os.path.lexists guard finds nothing and the file is '
                    'created through the link although overwrite=False', fi.loc(problem[1]))
        else:
            raise AnalysisError('C14.R7b', construct, f'what reaches the writer as destination is not recognised: {problem[0][1]}')


RULES = [
    RuleDef('R1', 'lexists guard dominates every destination-creating call', r1, 3),
    RuleDef('R2', 'serialisation dominates open; no repo code after open', r2, 3),
    RuleDef('R3', 'overwrite parameter default False, read and forwarded', r3, 6),
    RuleDef('R4', 'identifier extension/signature tables agree with writers and with the documented extensions', r4, 9),
    RuleDef('R4b', 'identifier semantics (symbolic): write/read/other-method outcomes', r4b, 3),
    RuleDef('R4c', 'FITS table is written under the extension name the reader looks for', r4c, 1),
    RuleDef('R5', 'registry raises IORegistryError for unknown/unidentified formats; identifier selection', r5, 7),
    RuleDef('R5b', 'format inference is asked with (path, class, method) in the identifiers\' roles; format element of the key', r5b, 4),
    RuleDef('R7', 'dispatch layer never creates, removes or renames the destination', r7, 3),
    RuleDef('R7b', 'the destination reaches the format writer as the caller named it (no link resolution on the way)', r7b, 3),
    RuleDef('R6', 'identification and I/O keep no state between calls (C13.R2 on registry/io)', r6, 1),
]
