"""C08 — compound regions and annuli obey set algebra."""
import sympy as sp

from ..report import RuleDef
from ..vg import (App, BoolT, ClassRef, Const, Evaluator, ExtRef, Ite, Obj, Tup,
                  is_num, num_equal, same, show, sym)
from . import c01, c02, c04, c06, c15
from .common import evaluator, inc_atom, method_or_fail, pixq, split_include

EXPLANATION = (
    'Decides from source: (R1) for PixelRegion and SkyRegion, &, |, ^ dispatch to intersection/union/symmetric_difference, '
    'which build the matching Compound*Region(region1=self, region2=other, operator=operator.and_/or_/xor) — 12 table cells; '
    '(R2) compound membership is operator(member1, member2) on the same query, complemented once by the compound\'s include '
    'flag (pixel and sky); (R3) the compound centre-mode mask pads operands to the union box and applies the operator '
    '(C02.R5); (R4) conversion and rotation are component-wise and keep the operator (C06.R2, C15.R2); (R5) annulus = outer '
    'and not inner complemented once (C01.R5), annulus area = outer.area − inner.area with the component area formulas, '
    'annulus box = outer box (C04.R3). Not decided: commuting with conversion numerically; nested expressions are covered '
    'because the rules are per class, not per depth.')
EXPLANATION_ADDED2 = (" (R6) a compound region owns its metadata: its meta/visual are objects distinct from both operands' (evaluation of the compound constructors and of the operators that build them).")
EXPLANATION += EXPLANATION_ADDED2
EXPLANATION_ADDED3 = (' (R7) the compound and annulus classes remember no membership / box / mask / area across calls (shared memo analysis, see C01.R8): an operand can be moved or replaced afterwards.')
EXPLANATION += EXPLANATION_ADDED3
TRUSTED = ['operator.and_/or_/xor on boolean arrays are element-wise and/or/xor']
ASSUMPTIONS = ['real arithmetic']

OPS = {'__and__': ('intersection', 'operator.and_'), '__or__': ('union', 'operator.or_'),
       '__xor__': ('symmetric_difference', 'operator.xor')}


def r1(ctx):
    m = ctx.model
    for base, comp in (('PixelRegion', 'CompoundPixelRegion'), ('SkyRegion', 'CompoundSkyRegion')):
        ci = m.cls(base)
        for dn, (meth, opname) in OPS.items():
            construct = f'{base}.{dn}'
            ev = evaluator(ctx)
            s = ev.symbolic_instance(ci)
            other = Obj(base, {}, 'other', ci)
            f = m.method(ci, dn)
            ctx.need(f is not None, construct, 'operator method missing')
            t = ev.call(f, [s, other], {})
            ok = isinstance(t, Obj) and t.cls == comp and isinstance(t.fields.get('region1'), Obj) and \
                t.fields['region1'].path == 'self' and isinstance(t.fields.get('region2'), Obj) and \
                t.fields['region2'].path == 'other' and isinstance(t.fields.get('_operator'), ExtRef) and \
                t.fields['_operator'].name == opname
            g = m.method(ci, meth)
            if ok and g is not None:
                ctx.ok(construct, f'{meth} -> {comp}(self, other, {opname})')
            else:
                ctx.bad(construct, 'operator-table',
                        f'`{dn}` builds {show(t, 200)}; expected {comp}(region1=self, region2=other, operator={opname})',
                        f.loc())


def r2(ctx):
    m = ctx.model
    inc = inc_atom()
    for cname, args in (('CompoundPixelRegion', None), ('CompoundSkyRegion', 'sky')):
        ci = m.cls(cname)
        ev = evaluator(ctx)
        s = ev.symbolic_instance(ci)
        f = method_or_fail(ctx, ci, 'contains')
        if args is None:
            q = pixq(ctx)
            t = ev.call(f, [s, q], {})
            w1 = App('method:contains', (Obj('PixelRegion', {}, 'self.region1'), q))
            w2 = App('method:contains', (Obj('PixelRegion', {}, 'self.region2'), q))
        else:
            sc, w = Obj('SkyCoord', {}, 'sc'), Obj('WCS', {}, 'wcs')
            t = ev.call(f, [s, sc, w], {})
            ev2 = evaluator(ctx)
            sky = m.cls('SkyRegion')
            w1 = ev2.call(m.method(sky, 'contains'), [Obj('SkyRegion', {}, 'self.region1', sky), sc, w], {})
            w2 = ev2.call(m.method(sky, 'contains'), [Obj('SkyRegion', {}, 'self.region2', sky), sc, w], {})
        v, wv = split_include(t, inc)
        ok = isinstance(v, App) and v.name == 'apply' and len(v.args) == 3 and \
            'attr:_operator(self)' in show(v.args[0]) and same(v.args[1], w1) and same(v.args[2], w2)
        if ok and c01.is_negation(wv, v) if hasattr(c01, 'is_negation') else ok:
            ctx.ok(f'{cname}.contains', 'operator(region1 answer, region2 answer), complemented once when excluded')
        else:
            ctx.bad(f'{cname}.contains', 'set-algebra',
                    f'compound membership is {show(v, 300)} (excluded: {show(wv, 200)}); expected operator(member1, member2) '
                    'on the same query with one include complement', f.loc())


def r3(ctx):
    c02.r5(ctx)


def r4(ctx):
    m = ctx.model
    # conversion: component-wise, operator kept (subset of C06.R2 on the compound pair)
    for c0n, c1n, fn in (('CompoundPixelRegion', 'CompoundSkyRegion', 'to_sky'),
                         ('CompoundSkyRegion', 'CompoundPixelRegion', 'to_pixel')):
        c0 = m.cls(c0n)
        ev = evaluator(ctx)
        s = ev.symbolic_instance(c0)
        f = method_or_fail(ctx, c0, fn)
        r = ev.call(f, [s, c06.WCS], {})
        ok = isinstance(r, Obj) and r.cls == c1n and 'attr:_operator(self)' in show(r.fields.get('_operator'))
        for k in ('region1', 'region2'):
            v = r.fields.get(k) if isinstance(r, Obj) else None
            ok = ok and isinstance(v, App) and v.name == f'method:{fn}' and f'self.{k}' in show(v.args[0])
        if ok and not (c06._fresh_from(r.fields.get('meta'), 'meta') and c06._fresh_from(r.fields.get('visual'), 'visual')):
            ctx.bad(f'{c0n}.{fn}', 'metadata', 'the converted compound does not carry copies of the compound\'s own '
                    f'meta/visual (include flag lost): meta={show(r.fields.get("meta"), 80)}', f.loc())
        elif ok:
            ctx.ok(f'{c0n}.{fn}', 'component-wise, operator and metadata kept')
        else:
            ctx.bad(f'{c0n}.{fn}', 'component-wise', f'conversion gives {show(r, 300)}', f.loc())
    # rotation
    c15.r2(ctx)


def r5(ctx):
    m = ctx.model
    c01.r5(ctx)
    # area = outer.area - inner.area with component formulas
    spec = {'CircleAnnulusPixelRegion': lambda S: sp.pi * S('outer_radius') ** 2 - sp.pi * S('inner_radius') ** 2,
            'EllipseAnnulusPixelRegion': lambda S: sp.pi / 4 * (S('outer_width') * S('outer_height')
                                                               - S('inner_width') * S('inner_height')),
            'RectangleAnnulusPixelRegion': lambda S: S('outer_width') * S('outer_height') - S('inner_width') * S('inner_height')}
    for cname, want in spec.items():
        ci = m.cls(cname)
        ev = evaluator(ctx)
        s = ev.symbolic_instance(ci)
        f = method_or_fail(ctx, ci, 'area')
        t = ev.call(f, [s], {})
        w = want(lambda n: sym(f'self.{n}', positive=True))
        if is_num(t) and num_equal(t, w):
            ctx.ok(f'{cname}.area', 'outer area − inner area')
        else:
            ctx.bad(f'{cname}.area', 'area', f'area is {show(t, 200)}; expected {w}', f.loc())
    c04.r3(ctx)


def r6(ctx):
    """the compound made by an operator (or by the constructor without meta=/visual=) has meta and visual objects of its
    own: `c = a | b; c.meta['include'] = False` must negate the compound as a whole, not exclude operand a as well (which
    is what happens when the compound holds a's own dictionary)."""
    from ..vg import ExtRef
    m = ctx.model
    for cn, leaf in (('CompoundPixelRegion', 'CirclePixelRegion'), ('CompoundSkyRegion', 'CircleSkyRegion')):
        ci = m.cls(cn)
        ev = evaluator(ctx)
        a = ev.symbolic_instance(m.cls(leaf), 'a')
        b = ev.symbolic_instance(m.cls(leaf), 'b')
        c = ev.construct(ci, [a, b, ExtRef('operator.or_')], {}, 0)
        ctx.need(isinstance(c, Obj), f'{cn}.__init__', 'constructor not reducible')
        shared = [k for k in ('meta', 'visual') if isinstance(c.fields.get(k), Obj)
                  and getattr(c.fields[k], 'path', None) in (f'a.{k}', f'b.{k}')]
        init = m.method(ci, '__init__')
        if shared:
            ctx.bad(f'{cn}.__init__', 'shares-operand-' + '-'.join(shared),
                    f'without meta=/visual= the compound stores the first operand\'s own {" and ".join(shared)} object(s): '
                    f'after `c = a | b; c.meta["include"] = False` operand a is excluded too, so c contains '
                    '`not op(not a, b)` instead of `not op(a, b)` (for | that is `a and not b`; for ^ nothing is negated), '
                    'while c.copy() — which copies the dictionary — answers differently', init.loc())
        else:
            ctx.ok(f'{cn}.__init__', 'meta and visual of the compound are objects of its own (copies)')


def r7(ctx):
    """a compound / an annulus answers from its *current* operands and parameters: membership, box, mask, area of the compound
    and annulus classes (and the properties they read) are not remembered across calls — an operand can be moved or
    replaced afterwards, and `(a | b).bounding_box` must follow it (c01.memoised_geometry on these classes)."""
    from .c01 import memoised_geometry
    m = ctx.model
    n = 0
    for ci in m.region_classes('pixel') + m.region_classes('sky'):
        if not (ci.name.startswith('Compound') or 'Annulus' in ci.name):
            continue
        n += 1
        memo = memoised_geometry(m, ci, rule='C08.R7')
        if memo:
            name, why, f = memo[0]
            ctx.bad(ci.name, f'memoised:{name}',
                    f'{ci.name}.{name} {why}: after an operand (or a radius) is changed or replaced the remembered result still '
                    'describes the old operands, so the compound no longer is the set operation on its members', f.loc())
        else:
            ctx.ok(ci.name, 'membership / box / mask / area are recomputed from the current operands on every use')
    ctx.need(n >= 8, 'compound and annulus classes', f'only {n} classes found')


RULES = [
    RuleDef('R1', 'operator table: &,|,^ -> Compound(self, other, and_/or_/xor)', r1, 6),
    RuleDef('R2', 'compound membership = operator(members), one include complement', r2, 2),
    RuleDef('R3', 'compound mask = operator on operands padded to the union box', r3, 1),
    RuleDef('R4', 'conversion and rotation are component-wise and keep the operator', r4, 14),
    RuleDef('R5', 'annulus algebra, area and box', r5, 12),
    RuleDef('R6', 'a compound has meta/visual objects of its own (not the first operand\'s)', r6, 2),
    RuleDef('R7', 'compound and annulus answers are recomputed from the current operands (nothing remembered)', r7, 8),
]
