"""C04 — bounding boxes enclose, are minimal, confine the mask."""
import sympy as sp

from ..report import RuleDef
from ..src import AnalysisError
from ..vg import (App, Const, Evaluator, Frame, Obj, Tup, contains_unknown,
                  is_num, num_equal, same, show, sym, term_equal)
from .common import evaluator, method_or_fail, need_known, pixq

EXPLANATION = (
    'Decides from source, for all parameters and angles: (R1) the float extents handed to the '
    'integer box are the exact support functions of each shape (circle c∓r; rotated ellipse '
    'sqrt((w/2 cos)^2+(h/2 sin)^2); rotated box (w/2)|cos|+(h/2)|sin|; vertex min/max for polygon '
    'and line; the point itself) — the tight extent by definition, so enclosure and minimality of '
    'the float rectangle follow; (R2) from_float is floor(min+1/2), ceil(max+1/2) in constructor '
    'order; (R3) annulus box = outer component box, compound box = union of the operand boxes, '
    'Text/RegularPolygon inherit; (R4) each kernel-calling to_mask wraps its data with the very '
    'bounding_box value that sized the grid; (R5, thorough) the rectangle frame used by corners '
    'equals centre + R(angle)(±w/2, ±h/2). Not decided: floor/ceil rounding within an ulp of a pixel '
    'edge; membership-inside-box for polygons is taken from the min/max form.')
EXPLANATION_ADDED = (' (R6) neither bounding_box nor to_mask nor any property of self they read remembers a result (memoising decorator or a store into self): the box is recomputed from the current parameters and operands.'
                     " R3's compound clause is decided by order types: with the operands' boxes given, the compound box is the smallest box containing both on all 676 orderings of their limits (empty boxes included), and it reads no other state of the compound.")
EXPLANATION += EXPLANATION_ADDED
EXPLANATION_ADDED2 = (' (R7) extents are computed in floating point: sizes keep the type they were given (PositiveScalar stores np.uint8(5) as it is) — the may-be-integer dataflow of C01.R9 over every bounding_box, with the size attributes as possibly-integer sources, finds no sum, difference, product or power in their own dtype.')
EXPLANATION += EXPLANATION_ADDED2
EXPLANATION_ADDED3 = (' (R7 also) the same dataflow over `corners` (a unary minus on an unsigned size wraps).')
EXPLANATION += EXPLANATION_ADDED3
TRUSTED = ['np.floor/np.ceil/int on floats', 'ndarray.min()/max() are the extreme elements',
           'np.cos/np.sin of an angle Quantity']
ASSUMPTIONS = ['real arithmetic', 'support function = tight axis-aligned extent of a convex shape']

S = sym


def _bbox(ctx, cname, ev=None):
    ci = ctx.model.cls(cname)
    ev = ev or evaluator(ctx)
    s = ev.symbolic_instance(ci)
    f = method_or_fail(ctx, ci, 'bounding_box')
    return ci, f, ev.call(f, [s], {})


def _extents(ctx, construct, box):
    """(xmin, xmax, ymin, ymax) float extents recovered from the integer box, checking
    the floor/ceil(+1/2) wrapper."""
    ctx.need(isinstance(box, Obj) and box.cls == 'RegionBoundingBox', construct,
             f'bounding_box is not a RegionBoundingBox value: {show(box, 120)}')
    out = []
    for name, fn in (('ixmin', sp.floor), ('ixmax', sp.ceiling), ('iymin', sp.floor), ('iymax', sp.ceiling)):
        v = box.fields.get(name)
        ctx.need(v is not None, construct, f'field {name} missing')
        if not is_num(v):
            need_known(ctx, v, construct)
            out.append(('wrap', name, v))      # understood, but not a number built from the shape's fields
        elif not isinstance(v, fn):
            out.append(('wrap', name, v))
        else:
            out.append(('ok', name, v.args[0] - sp.Rational(1, 2)))
    return out


def _support(kind, pre='self', w='width', h='height', r='radius'):
    cx, cy = S(f'{pre}.center.x'), S(f'{pre}.center.y')
    if kind == 'circle':
        R = S(f'{pre}.{r}', True)
        return cx - R, cx + R, cy - R, cy + R
    th = S(f'{pre}.angle')
    W, H = S(f'{pre}.{w}', True), S(f'{pre}.{h}', True)
    c, s = sp.cos(th), sp.sin(th)
    if kind == 'ellipse':
        dx = sp.sqrt((W / 2 * c) ** 2 + (H / 2 * s) ** 2)
        dy = sp.sqrt((W / 2 * s) ** 2 + (H / 2 * c) ** 2)
    else:
        dx = W / 2 * sp.Abs(c) + H / 2 * sp.Abs(s)
        dy = W / 2 * sp.Abs(s) + H / 2 * sp.Abs(c)
    return cx - dx, cx + dx, cy - dy, cy + dy


def _oracle(cname, **kw):
    if cname == 'CirclePixelRegion':
        return _support('circle', **kw)
    if cname == 'EllipsePixelRegion':
        return _support('ellipse', **kw)
    if cname == 'RectanglePixelRegion':
        return _support('rect', **kw)
    if cname == 'PolygonPixelRegion':
        vx, vy = S('self.vertices.x'), S('self.vertices.y')
        mn, mx = sp.Function('arr_min'), sp.Function('arr_max')
        return mn(vx), mx(vx), mn(vy), mx(vy)
    if cname == 'LinePixelRegion':
        sx, sy, ex, ey = S('self.start.x'), S('self.start.y'), S('self.end.x'), S('self.end.y')
        return sp.Min(sx, ex), sp.Max(sx, ex), sp.Min(sy, ey), sp.Max(sy, ey)
    if cname == 'PointPixelRegion':
        cx, cy = S('self.center.x'), S('self.center.y')
        return cx, cx, cy, cy
    raise KeyError(cname)


def _abs_cs_equal(a, b):
    """num_equal that also knows |k*cos|=k|cos| for positive k (sympy does this itself)."""
    return num_equal(a, b)


def compare_box(ctx, construct, box, oracle, loc):
    ext = _extents(ctx, construct, box)
    names = ('xmin', 'xmax', 'ymin', 'ymax')
    for (st, fld, val), want, nm in zip(ext, oracle, names):
        if st == 'wrap':
            ctx.bad(construct, f'{fld}-rounding',
                    f'{fld} is {show(val, 160)}: not {"floor" if "min" in fld else "ceil"}(extent + 1/2)', loc)
            return False
        need_known(ctx, val, construct)
        if not _abs_cs_equal(val, want):
            ctx.bad(construct, f'{nm}-extent',
                    f'{nm} extent is {show(val, 200)}; the support function of the shape gives {show(want, 160)}',
                    loc, {'got': str(val), 'want': str(want)})
            return False
    return True


def r1(ctx):
    for cname in ('CirclePixelRegion', 'EllipsePixelRegion', 'RectanglePixelRegion',
                  'PolygonPixelRegion', 'LinePixelRegion', 'PointPixelRegion'):
        ci, f, box = _bbox(ctx, cname)
        if compare_box(ctx, f'{cname}.bounding_box', box, _oracle(cname), f.loc()):
            ctx.ok(f'{cname}.bounding_box', 'extents = support function; floor/ceil(+1/2)')


def r2(ctx):
    m = ctx.model
    ci = m.cls('RegionBoundingBox')
    f = method_or_fail(ctx, ci, 'from_float')
    ev = evaluator(ctx)
    a = [S('xmin'), S('xmax'), S('ymin'), S('ymax')]
    box = ev.call(f, [ev_cls(ci)] + a, {})
    want = {'ixmin': sp.floor(a[0] + sp.Rational(1, 2)), 'ixmax': sp.ceiling(a[1] + sp.Rational(1, 2)),
            'iymin': sp.floor(a[2] + sp.Rational(1, 2)), 'iymax': sp.ceiling(a[3] + sp.Rational(1, 2))}
    ctx.need(isinstance(box, Obj), 'RegionBoundingBox.from_float', 'does not construct a box')
    bad = [k for k, w in want.items() if not (is_num(box.fields.get(k)) and sp.simplify(box.fields[k] - w) == 0)]
    if bad:
        ctx.bad('RegionBoundingBox.from_float', 'rounding',
                f'fields {bad} are not floor(min+1/2)/ceil(max+1/2) in (ixmin, ixmax, iymin, iymax) order: '
                + ', '.join(f'{k}={show(box.fields.get(k))}' for k in bad), f.loc())
    else:
        ctx.ok('RegionBoundingBox.from_float', 'floor(min+1/2), ceil(max+1/2), constructor order')
    # extent is (ixmin-1/2, ixmax-1/2, iymin-1/2, iymax-1/2): the pixel-edge rectangle of the box
    s = ev.symbolic_instance(ci)
    s.fields.update({k: sp.Symbol(k, integer=True) for k in want})
    ext = ev.call(method_or_fail(ctx, ci, 'extent'), [s], {})
    h = sp.Rational(1, 2)
    wantx = [s.fields['ixmin'] - h, s.fields['ixmax'] - h, s.fields['iymin'] - h, s.fields['iymax'] - h]
    if isinstance(ext, Tup) and len(ext.items) == 4 and all(
            is_num(g) and sp.simplify(g - w) == 0 for g, w in zip(ext.items, wantx)):
        ctx.ok('RegionBoundingBox.extent', 'pixel-edge rectangle')
    else:
        ctx.bad('RegionBoundingBox.extent', 'edges', f'extent is {show(ext)}', ci.path)


def ev_cls(ci):
    from ..vg import ClassRef
    return ClassRef(ci, ci.name)


def r3(ctx):
    m = ctx.model
    comp = {'CircleAnnulusPixelRegion': ('CirclePixelRegion', dict(r='outer_radius')),
            'EllipseAnnulusPixelRegion': ('EllipsePixelRegion', dict(w='outer_width', h='outer_height')),
            'RectangleAnnulusPixelRegion': ('RectanglePixelRegion', dict(w='outer_width', h='outer_height'))}
    for ci in m.region_classes('pixel'):
        if not m.is_subclass(ci, 'AnnulusPixelRegion'):
            continue
        ctx.need(ci.name in comp, ci.name, 'unknown annulus class')
        _, f, box = _bbox(ctx, ci.name)
        base, kw = comp[ci.name]
        if compare_box(ctx, f'{ci.name}.bounding_box', box, _oracle(base, **kw), f.loc()):
            ctx.ok(f'{ci.name}.bounding_box', 'equals the outer component box')
    # compound: the box is the smallest box containing both operand boxes, whatever they are (also when one of them has
    # no pixels: a line or a point exactly on a pixel edge has such a box, and the compound must still reach it) —
    # evaluated with the operands' boxes given, on every order type of their limits
    from ..ot import ev as ot_ev
    from .c19 import _box, _pairs, _val
    cci = m.cls('CompoundPixelRegion')
    f = method_or_fail(ctx, cci, 'bounding_box')
    ba, bb_ = _box(ctx, 'a'), _box(ctx, 'b')
    boxes = {'self.region1': ba, 'self.region2': bb_}
    ev = Evaluator(m, hooks={'regions.core.core:PixelRegion.bounding_box': lambda e, a, k: boxes[a[0].path]})
    t = ev.call(f, [ev.symbolic_instance(cci)], {})
    need_known(ctx, t, 'CompoundPixelRegion.bounding_box')
    xs, ys, X, Y = _pairs(ba, bb_)
    nbad, first, n = 0, None, 0
    own_state = None
    for ax in X:
        if own_state:
            break
        for ay in Y:
            asg = {**ax, **ay}
            n += 1
            try:
                got = _val(ot_ev(t, asg))
            except (ValueError, KeyError, TypeError) as exc:
                from ..vg import walk_terms
                reads_self = [x for x in walk_terms(t) if isinstance(x, App) and any(
                    isinstance(a_, Obj) and a_.path == 'self' for a_ in x.args)]
                if reads_self:
                    own_state = reads_self[0]
                    break
                raise AnalysisError('C04.R3', 'CompoundPixelRegion.bounding_box', f'box not evaluable on an order type: {exc!r}')
            want = ('box', min(asg[xs[0]], asg[xs[2]]), max(asg[xs[1]], asg[xs[3]]),
                    min(asg[ys[0]], asg[ys[2]]), max(asg[ys[1]], asg[ys[3]]))
            if got != want:
                nbad += 1
                first = first or (asg, got, want)
    if own_state is not None:
        # the box is not a function of the two operand boxes: it reads other state of the compound itself
        ctx.bad('CompoundPixelRegion.bounding_box', 'not-union',
                f'compound box is {show(t, 200)}: it depends on state of the compound itself '
                f'({show(own_state, 80)}), not only on the boxes its operands have now', f.loc())
    elif nbad:
        asg, got, want = first
        ctx.bad('CompoundPixelRegion.bounding_box', 'not-union',
                f'compound box is not the smallest box containing both operand boxes on {nbad} of {n} order types of their '
                f'limits, e.g. operands {[(int(asg[v]) ) for v in xs]} x {[(int(asg[v])) for v in ys]} '
                f'(xmin, xmax of a, b; ymin, ymax of a, b): got {got}, want {want} — an operand whose own box has a zero-length '
                'side (a line or point on a pixel edge) is not enclosed', f.loc())
    else:
        ctx.ok('CompoundPixelRegion.bounding_box', f'{n} order types of the operand boxes: smallest box containing both')
    for sub, base in (('TextPixelRegion', 'PointPixelRegion'), ('RegularPolygonPixelRegion', 'PolygonPixelRegion')):
        f1 = m.method(m.cls(sub), 'bounding_box')
        f2 = m.method(m.cls(base), 'bounding_box')
        if f1 is f2:
            ctx.ok(f'{sub}.bounding_box', f'inherits {base}')
        else:
            ctx.bad(f'{sub}.bounding_box', 'override', 'overrides the inherited box (not analysed)', f1.loc())


MASKED = ('CirclePixelRegion', 'EllipsePixelRegion', 'RectanglePixelRegion', 'PolygonPixelRegion')


def mask_term(ctx, cname, mode, ev=None):
    ci = ctx.model.cls(cname)
    ev = ev or evaluator(ctx)
    s = ev.symbolic_instance(ci)
    f = method_or_fail(ctx, ci, 'to_mask')
    n = sp.Symbol('n', integer=True, positive=True)
    return ci, f, s, ev.call(f, [s], {'mode': Const(mode), 'subpixels': n}), ev


def r4(ctx):
    for cname in MASKED:
        ci, f, s, t, ev = mask_term(ctx, cname, 'subpixels')
        construct = f'{cname}.to_mask'
        ctx.need(isinstance(t, Obj) and t.cls == 'RegionMask', construct,
                 f'to_mask does not return a RegionMask value: {show(t, 200)}')
        box = ev.call(method_or_fail(ctx, ci, 'bounding_box'), [s], {})
        if same(t.fields.get('bbox'), box):
            ctx.ok(construct, 'mask bbox is self.bounding_box')
        else:
            ctx.bad(construct, 'mask-bbox', 'the bbox carried by the mask is not self.bounding_box: '
                    f'{show(t.fields.get("bbox"), 200)}', f.loc())


def r5(ctx):
    ci = ctx.model.cls('RectanglePixelRegion')
    ev = evaluator(ctx)
    s = ev.symbolic_instance(ci)
    f = method_or_fail(ctx, ci, 'corners')
    t = ev.call(f, [s], {})
    cx, cy, W, H, th = S('self.center.x'), S('self.center.y'), S('self.width', True), S('self.height', True), S('self.angle')
    c, sn = sp.cos(th), sp.sin(th)
    want = set()
    for sx in (-1, 1):
        for sy in (-1, 1):
            px, py = sx * W / 2, sy * H / 2
            want.add((sp.expand(cx + c * px - sn * py), sp.expand(cy + sn * px + c * py)))
    got = set()
    if isinstance(t, Tup) and len(t.items) == 4 and all(isinstance(r, Tup) and len(r.items) == 2 for r in t.items):
        for r in t.items:
            if all(is_num(x) for x in r.items):
                got.add((sp.expand(r.items[0]), sp.expand(r.items[1])))
    if got == want:
        ctx.ok('RectanglePixelRegion.corners', 'centre + R(angle)(±w/2, ±h/2), 4 distinct corners')
    else:
        need_known(ctx, t, 'RectanglePixelRegion.corners')
        ctx.bad('RectanglePixelRegion.corners', 'frame',
                f'corners are {show(t, 400)}; expected centre + R(angle)(±w/2, ±h/2)', f.loc())
    # to_polygon uses them as (x, y)
    tp = method_or_fail(ctx, ci, 'to_polygon')
    poly = ev.call(tp, [s], {})
    ok = isinstance(poly, Obj) and poly.cls == 'PolygonPixelRegion'
    if ok:
        ctx.ok('RectanglePixelRegion.to_polygon', 'builds a PolygonPixelRegion from corners')
    else:
        ctx.bad('RectanglePixelRegion.to_polygon', 'class', f'to_polygon returns {show(poly, 120)}', tp.loc())


def r6(ctx):
    """the box is recomputed from the region's current parameters (and a compound's current operands) on every use: neither
    bounding_box, to_mask nor anything of `self` they read remembers a result (memoising decorator, store into self)."""
    from .c01 import memoised_geometry
    m = ctx.model
    for ci in m.region_classes('pixel'):
        memo = memoised_geometry(m, ci, ('bounding_box', 'to_mask'), rule='C04.R6')
        if memo:
            name, why, f = memo[0]
            ctx.bad(ci.name, f'memoised:{name}',
                    f'{ci.name}.{name} {why}: after a parameter (or an operand of a compound) is changed the box no longer '
                    'contains the shape, and region box and mask box can differ', f.loc())
        else:
            ctx.ok(ci.name, 'bounding_box / to_mask and what they read are recomputed on every use')


def r7(ctx):
    """sizes keep the type they were given (PositiveScalar stores np.uint8(5) as it is) and scalar positions are Python
    numbers, so `center.x - radius` in the radius' own dtype wraps around (3 - np.uint8(5) = 254: "ixmin must be <= ixmax")
    — the may-be-integer dataflow of C01.R9 over every bounding_box, with the size attributes as possibly-integer sources:
    no sum, difference, product or power of such values unless an operand is floating."""
    from .c01 import _DtypeLint
    m = ctx.model
    n = 0
    for ci in m.region_classes('pixel'):
        for prop_ in ('bounding_box', 'corners'):
            f = ci.methods.get(prop_)
            if f is None:
                continue
            n += 1
            lint = _DtypeLint(ctx, m, sums=True, int_descr_kinds=('PositiveScalar',))
            lint.fn(f, ['scalar'])
            if lint.problems:
                fi, node, text = lint.problems[0]
                ctx.bad(f'{ci.name}.{prop_}', 'fixed-width-size',
                        f'{text}: a size given as a fixed-width numpy integer makes the extent wrap around; convert it to float '
                        'first', fi.loc(node))
            else:
                ctx.ok(f'{ci.name}.{prop_}', 'extents are computed in floating point')
    ctx.need(n >= 6, 'bounding_box properties', f'only {n} found')


RULES = [
    RuleDef('R1', 'float extents are the support functions of each shape', r1, 6),
    RuleDef('R2', 'from_float = floor(min+1/2), ceil(max+1/2); extent = pixel edges', r2, 2),
    RuleDef('R3', 'annulus box = outer box; compound box = smallest box containing both operand boxes (order types); inheritance', r3, 6),
    RuleDef('R4', 'mask carries self.bounding_box', r4, 4),
    RuleDef('R5', 'rectangle corners use the same rotation frame', r5, 2, tier='thorough'),
    RuleDef('R6', 'no remembered box: bounding_box / to_mask recompute from current parameters and operands', r6, 12),
    RuleDef('R7', 'extents are computed in floating point (sizes given as fixed-width integers cannot wrap)', r7, 6),
]
