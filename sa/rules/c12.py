"""C12 — FITS region tables round-trip every supported pixel region."""
import ast

import sympy as sp

from ..astutil import call_name, calls_in, enclosing_tests, norm, parents, stmts_of
from ..report import RuleDef
from ..src import AnalysisError
from ..tb import tables
from ..vg import (DEG, App, BoolT, Cmp, Const, DictV, Evaluator, Ite, Obj, Tup,
                  assume, contains_unknown, is_num, num_equal, same, show, sym,
                  walk_terms)
from .common import method_or_fail

EXPLANATION = (
    'Decides from source by composing the symbolic value of the FITS row writer with the symbolic value of the FITS row '
    'reader: (R1) for every FITS-representable class and include in {on, off} the emitted SHAPE, after stripping one leading '
    '"!", is a key of shape_map whose class is the original class (regular polygons as polygons), and "!" is present exactly '
    'when include is off; (R2) the fields the writer halves (semi-axes) are exactly those the reader doubles, for both include '
    'values; (R3) column map: the writer\'s (x, y, r[k], rotang) layout and the reader\'s column tuple put every field back '
    'into the same constructor slot; the alternative notations box/rectangle/rotrectangle build rectangles from their '
    'columns; (R4) sky regions and unsupported classes are skipped (continue / None sentinel tested by the caller); (R5) on '
    'read the stored meta has exactly {include iff "!"} ∪ {component iff the column}; (R6) the serialiser does not mutate the '
    'regions; (R7) fresh component numbers are max(existing)+1+k; (R8) padding at the end; (R9) units converted, never relabelled; '
    '(R10) the table builder, evaluated on three symbolic rows, stores the rows\' shape strings themselves in SHAPE (no '
    'fixed-width conversion that could cut "!elliptannulus") and the padded row values of x, y, r, rotang in the same row '
    'order; (R7b) the filled COMPONENT array is converted to a numeric dtype on every path to its return; (R11) the padding '
    'the writer adds to shorter vector columns is not read back as polygon vertices. Not decided: astropy table/FITS I/O.')
EXPLANATION_ADDED = (' (R12) column addressing on read (NAME<i> is element i of the cell, NAME the whole cell) on a probe row; (R13) table rows become regions in row order, skipped rows are dropped, foreign columns are rejected.')
EXPLANATION += EXPLANATION_ADDED
EXPLANATION_ADDED2 = (" (R5b) the SHAPE cell is split into (shape key, include) by the reader on probe cells ('!' prefix, padding, letter case).")
EXPLANATION += EXPLANATION_ADDED2
EXPLANATION_ADDED3 = (" (R3 also) the ROTANG cell is the region's angle converted to degrees (`to(angle, deg)`), not the bare number of whatever unit the angle carries.")
EXPLANATION += EXPLANATION_ADDED3
EXPLANATION_ADDED4 = (' (R11 also) the number of vertices read must not depend on comparing the cell values with a finite number (a cut at the last non-zero entry drops a genuine vertex at that coordinate).')
EXPLANATION += EXPLANATION_ADDED4
TRUSTED = ['np.atleast_1d keeps element order', 'QTable column access by name']
ASSUMPTIONS = ['real arithmetic']

WRITER_MOD = 'regions.io.fits.write'
READER_MOD = 'regions.io.fits.read'


def _funcs(m):
    ser = m.registered('serialize', 'fits')
    wmod = m.modules[ser.module]
    # the row writer is the first function on the serialiser's call path that takes one region and (possibly through
    # helpers) builds the row record
    def builds_row(fi, seen=()):
        if any(isinstance(n, ast.Call) and call_name(n) == '_RegionData' for n in ast.walk(fi.node)):
            return True
        for c in calls_in(fi.node):
            for g in m.resolve_call(fi, c) or ():
                if g.module == fi.module and g.qualname not in seen and g is not fi and builds_row(g, seen + (fi.qualname,)):
                    return True
        return False

    def required(fi):
        a = fi.node.args
        return len(a.args) - len(a.defaults)
    row_writer = None
    frontier, seen_q = [ser], {ser.qualname}
    while frontier and row_writer is None:
        nxt = []
        for fi in frontier:
            callees = [g for c in calls_in(fi.node) for g in (m.resolve_call(fi, c) or ())]
            # functions passed by reference (map(f, xs), key=f) are callees too
            callees += [wmod.functions[n.id] for n in ast.walk(fi.node) if isinstance(n, ast.Name) and n.id in wmod.functions
                        and isinstance(n.ctx, ast.Load)]
            for g in callees:
                if True:
                    if g.module != ser.module or g.qualname in seen_q:
                        continue
                    seen_q.add(g.qualname)
                    if required(g) == 1 and builds_row(g) and row_writer is None:
                        row_writer = g
                    nxt.append(g)
        frontier = nxt
    par = m.registered('parse', 'fits')
    rmod = m.modules[par.module]
    row_reader = None
    for fi in rmod.functions.values():
        if any(isinstance(n, ast.Subscript) and norm(n.value) == 'shape_map' for n in ast.walk(fi.node)) and \
                any(isinstance(n, ast.Return) for n in ast.walk(fi.node)):
            row_reader = fi
    if row_writer is None or row_reader is None:
        raise AnalysisError('C12', 'fits io', 'row writer / row reader not found')
    return ser, row_writer, par, row_reader, rmod


def fits_classes(m):
    t = tables(m, 'regions.io.fits.core').env.get('shape_map')
    if not isinstance(t, dict):
        raise AnalysisError('C12', 'shape_map', 'table not evaluable')
    names = sorted({v[0][1] for v in t.values()})
    return t, [m.cls(n) for n in names] + [m.cls('RegularPolygonPixelRegion')]


INC = Obj('flag', {}, 'INC')
EXC = Cmp('==', INC, sp.Integer(0))


def write_row(m, ci):
    ser, row_writer, par, row_reader, rmod = _funcs(m)
    # (np.atleast_1d is kept as an application of its raw argument, so that a unit conversion in it stays visible)
    ev = Evaluator(m, hooks={'numpy.atleast_1d': lambda e, a, k: App('numpy.atleast_1d', (a[0],))})
    s = ev.symbolic_instance(ci, 'region')
    s.fields['meta'] = DictV([{'include': INC}])
    out = ev.run(row_writer, [s], {})
    rets = [v for _, v in out.returns if isinstance(v, Obj)]
    return row_writer, (rets[-1] if rets else None), out


def read_row(m, shape, include, component):
    ser, row_writer, par, row_reader, rmod = _funcs(m)
    cols = ['X', 'Y', 'SHAPE', 'R', 'ROTANG'] + (['COMPONENT'] if component else [])
    row = Obj('Row', {'colnames': Tup(tuple(Const(c) for c in cols), 'list')}, None, None)
    helpers = {fi.name: fi for fi in rmod.functions.values()}
    hooks = {}
    if 'get_shape' in helpers:
        hooks[helpers['get_shape'].qualname] = lambda e, a, k: Tup((Const(shape), sp.Integer(include)))
    if 'get_column_values' in helpers:
        hooks[helpers['get_column_values'].qualname] = lambda e, a, k: App('col', (a[1],))
    ev = Evaluator(m, hooks=hooks)
    out = ev.run(row_reader, [row], {})
    regs = [v for _, v in out.returns if isinstance(v, Obj)]
    return row_reader, (regs[-1] if regs else None), out


def _const(t, cond, val):
    r = assume(t, cond, val)
    return r


def r1(ctx):
    m = ctx.model
    table, classes = fits_classes(m)
    for ci in classes:
        wf, row, out = write_row(m, ci)
        construct = f'{ci.name}'
        if row is None:
            ctx.bad(construct, 'not-written', 'no table row is produced for a FITS-representable class', wf.loc())
            continue
        want_cls = 'PolygonPixelRegion' if ci.name == 'RegularPolygonPixelRegion' else ci.name
        probs = []
        for excluded in (False, True):
            shp = _const(row.fields.get('shape'), EXC, excluded)
            if not (isinstance(shp, Const) and isinstance(shp.v, str)):
                conds = [x.cond for x in walk_terms(row.fields.get('shape')) if isinstance(x, Ite)]
                if conds and all('INC' in show(c, 200) for c in conds):
                    probs.append(f'the exclusion test is `{show(conds[0], 120)}`; the flag values 0 and False must both count as '
                                 'excluded (`include == 0`)')
                    break
                raise AnalysisError('C12.R1', construct, f'SHAPE value not constant under include={not excluded}: {show(shp, 120)}')
            name = shp.v
            bang = name.startswith('!')
            key = name[1:] if bang else name
            entry = table.get(key.lower())
            if bang != excluded:
                probs.append(f'include {"off" if excluded else "on"} is written as "{name}" ("!" must mark exactly the excluded regions)')
            if entry is None:
                probs.append(f'include {"off" if excluded else "on"}: SHAPE "{name}" is not a shape the reader knows '
                             f'(after stripping "!": "{key}")')
            elif entry[0][1] != want_cls:
                probs.append(f'SHAPE "{name}" reads back as {entry[0][1]}, not {want_cls}')
        if probs:
            ctx.bad(construct, 'shape-name', '; '.join(probs), wf.loc())
        else:
            ctx.ok(construct, 'SHAPE name known to the reader for include on/off; "!" iff excluded')


def _r_list(row, excluded):
    r = _const(row.fields.get('r'), EXC, excluded)
    if isinstance(r, App) and r.name.endswith('atleast_1d'):
        r = r.args[0]
    if isinstance(r, Tup):
        return list(r.items)
    if is_num(r) and r == 0:
        return []
    return None


def r2(ctx):
    m = ctx.model
    table, classes = fits_classes(m)
    for ci in classes:
        if ci.name == 'RegularPolygonPixelRegion':
            continue
        wf, row, out = write_row(m, ci)
        if row is None:
            continue
        construct = f'{ci.name}'
        probs = []
        for excluded in (False, True):
            shp = _const(row.fields.get('shape'), EXC, excluded)
            if not isinstance(shp, Const):
                continue
            key = shp.v.lstrip('!').lower()
            if key not in table:
                continue                      # reported by R1
            rl = _r_list(row, excluded)
            if rl is None:
                raise AnalysisError('C12.R2', construct, f'R column value not understood: {show(row.fields.get("r"), 160)}')
            rf, reg, rout = read_row(m, key, 0 if excluded else 1, False)
            if reg is None:
                probs.append(f'"{key}" row is not rebuilt into a region')
                continue
            # writer scale per field (order = _params minus centre/angle)
            sizes = [p for p in m.params_of(ci) if m.descriptor_kind(ci, p) == 'PositiveScalar']
            if len(rl) != len(sizes):
                probs.append(f'R column holds {len(rl)} values for the {len(sizes)} size fields {sizes}')
                continue
            for k, (p, wv) in enumerate(zip(sizes, rl)):
                base = sym(f'region.{p}', positive=True)
                if not is_num(wv):
                    raise AnalysisError('C12.R2', construct, f'R[{k}] not numeric: {show(wv, 80)}')
                wscale = sp.simplify(wv / base)
                got = reg.fields.get(p)
                rscale = None
                src = None
                for x in walk_terms(got):
                    if isinstance(x, App) and x.name == 'col':
                        src = x.args[0].v
                if isinstance(got, App) and got.name == 'binop:Mult' and is_num(got.args[1]):
                    rscale = got.args[1]
                elif isinstance(got, App) and got.name == 'col':
                    rscale = sp.Integer(1)
                if src != f'R{k}':
                    probs.append(f'{p} is written to R{k} but read from {src}')
                elif rscale is None or sp.simplify(wscale * rscale) != 1:
                    probs.append(f'include {"off" if excluded else "on"}: {p} is written x{wscale} and read x{rscale} '
                                 '(semi-axis halving and doubling do not cancel)')
        if probs:
            ctx.bad(construct, 'axis-convention', '; '.join(dict.fromkeys(probs)), wf.loc())
        else:
            ctx.ok(construct, 'written scale x read scale = 1 for every size field, include on/off')


def r3(ctx):
    m = ctx.model
    table, classes = fits_classes(m)
    # writer layout: x, y from centre/vertices; rotang from angle
    for ci in classes:
        if ci.name == 'RegularPolygonPixelRegion':
            continue
        wf, row, out = write_row(m, ci)
        if row is None:
            continue
        cfield = 'vertices' if 'vertices' in m.params_of(ci) else 'center'
        probs = []
        for col, comp in (('x', 'x'), ('y', 'y')):
            v = row.fields.get(col)
            want = sym(f'region.{cfield}.{comp}')
            ok = isinstance(v, App) and v.name.endswith('atleast_1d') and is_num(v.args[0]) and v.args[0] == want
            if not ok:
                probs.append(f'{col.upper()} column holds {show(v, 80)}, not {cfield}.{comp}')
        if 'angle' in m.params_of(ci):
            v = row.fields.get('rotang')
            inner = v.args[0] if isinstance(v, App) and v.args else None
            in_deg = isinstance(inner, App) and inner.name == 'to' and len(inner.args) == 2 and is_num(inner.args[0]) \
                and inner.args[0] == sym('region.angle') and is_num(inner.args[1]) and num_equal(inner.args[1], DEG)
            if not (isinstance(v, App) and (in_deg or (is_num(inner) and inner == sym('region.angle')))):
                probs.append(f'ROTANG holds {show(v, 80)}, not the angle')
            elif not in_deg:
                probs.append('ROTANG holds the angle in whatever unit the region carries: the column takes the unit of its '
                             'first row, so an angle in hourangle or cycles (Angle("2h")) makes the file writer fail '
                             '(UnitScaleError: no FITS unit string) and the outcome depends on the order of the list; the FITS '
                             'region convention has ROTANG in degrees (value.to(u.deg))')
        shp = _const(row.fields.get('shape'), EXC, False)
        key = shp.v.lower() if isinstance(shp, Const) else None
        if key in table:
            rf, reg, rout = read_row(m, key, 1, False)
            if reg is None:
                probs.append('row not rebuilt')
            else:
                c = reg.fields.get(cfield if cfield == 'center' else '_vertices')

                def prefix_of(t, colname):
                    """the set of cut points if t is the column itself or a prefix slice of it on every path (vertex
                    vectors may be cut where their padding starts), else None"""
                    if same(t, App('col', (Const(colname),))):
                        return {'whole'}
                    if isinstance(t, Ite):
                        a_, b_ = prefix_of(t.a, colname), prefix_of(t.b, colname)
                        return None if a_ is None or b_ is None else a_ | b_
                    if isinstance(t, App) and t.name == 'slice_of' and len(t.args) == 4:
                        base_, lo_, hi_, st_ = t.args
                        none_ = lambda z: isinstance(z, Const) and z.v is None        # noqa: E731
                        if (none_(lo_) or (is_num(lo_) and lo_ == 0)) and none_(st_):
                            inner = prefix_of(base_, colname)
                            return None if inner is None else {show(hi_, 200)}
                    return None
                if cfield != 'center' and isinstance(c, Obj):
                    px, py = prefix_of(c.fields.get('x'), 'X'), prefix_of(c.fields.get('y'), 'Y')
                    if px is not None and py is not None and px == py:
                        pass          # vertices are the X/Y vectors, cut at the same place
                    else:
                        probs.append(f'{cfield} is rebuilt as {show(c, 120)}, not from the X/Y columns')
                elif not (isinstance(c, Obj) and same(c.fields.get('x'), App('col', (Const('X0' if cfield == 'center' else 'X'),)))
                          and same(c.fields.get('y'), App('col', (Const('Y0' if cfield == 'center' else 'Y'),)))):
                    probs.append(f'{cfield} is rebuilt as {show(c, 120)}, not from the X/Y columns')
                if 'angle' in m.params_of(ci) and not same(reg.fields.get('angle'), App('col', (Const('ROTANG0'),))):
                    probs.append(f'angle is rebuilt as {show(reg.fields.get("angle"), 80)}, not from ROTANG')
        if probs:
            ctx.bad(f'{ci.name}', 'column-map', '; '.join(probs), wf.loc())
        else:
            ctx.ok(f'{ci.name}', 'X/Y/ROTANG columns map back to centre (vertices) and angle')
    # read-side alternative notations
    C = lambda n: App('col', (Const(n),))
    for key, want in (('box', {'width': 'R0', 'height': 'R1'}), ('rotbox', {'width': 'R0', 'height': 'R1', 'angle': 'ROTANG0'}),
                      ('rectangle', None), ('rotrectangle', None)):
        rf, reg, rout = read_row(m, key, 1, False)
        construct = f'read:{key}'
        if reg is None or reg.cls != 'RectanglePixelRegion':
            ctx.bad(construct, 'notation', f'"{key}" rows do not become rectangles: {show(reg, 100)}', rf.loc())
            continue
        if want is not None:
            ok = all(same(reg.fields.get(f), C(c)) for f, c in want.items())
        else:
            txt = show(reg, 900)
            ok = "width=binop:Sub(col('X1'), col('X0'))" in txt and "height=binop:Sub(col('Y1'), col('Y0'))" in txt and \
                "x=binop:Mult(1/2, binop:Add(col('X0'), col('X1')))" in txt and \
                "y=binop:Mult(1/2, binop:Add(col('Y0'), col('Y1')))" in txt and \
                (key == 'rectangle' or "angle=col('ROTANG0')" in txt)
        if ok:
            ctx.ok(construct, 'rectangle rebuilt from its columns')
        else:
            ctx.bad(construct, 'notation', f'"{key}" row gives {show(reg, 300)}', rf.loc())


def r4(ctx):
    m = ctx.model
    ser, row_writer, par, row_reader, rmod = _funcs(m)
    # sky regions: the serialiser warns and goes on with the next region — decided on the value: a list holding one sky
    # region yields no row (the table builder is not called with a row for it)
    wmod = m.modules[ser.module]
    seen_rows = []

    def rec_table(e, a_, k_):
        seen_rows.append(a_[0] if a_ else None)
        return Obj('QTable', {}, 'table')
    table_fns = [g for c in calls_in(ser.node) for g in (m.resolve_call(ser, c) or ())
                 if g.module == ser.module and g.qualname != row_writer.qualname and len(g.node.args.args) == 1]
    evs = Evaluator(m, hooks={g.qualname: rec_table for g in table_fns})
    sky = evs.symbolic_instance(m.cls('CircleSkyRegion'), 'skyregion')
    outs = evs.run(ser, [Tup((sky,), 'list')], {})
    rows_given = [r for r in seen_rows if not (isinstance(r, Tup) and not r.items)]
    ok_sky = bool(outs.returns) and not rows_given and not outs.raises
    if ok_sky:
        ctx.ok(f'{ser.qualname.split(":")[1]}:sky', 'sky regions: warn, continue')
    else:
        ctx.bad(ser.qualname.split(':')[1], 'sky-not-skipped', 'sky regions can reach the row writer', ser.loc())
    # unsupported classes: the row writer, evaluated on a symbolic instance of every pixel class, yields a row exactly for
    # the FITS-representable classes and the None sentinel (and nothing else) for the others; the caller tests the sentinel
    from .c09 import _untested_sentinel_callers
    table, classes = fits_classes(m)
    handled = {c.name for c in classes}
    probs = []
    skipped = []
    for ci in m.region_classes('pixel'):
        wf, row, out = write_row(m, ci)
        vals = [v for _, v in out.returns]
        only_none = bool(vals) and all(isinstance(v, Const) and v.v is None for v in vals) and not out.raises
        if ci.name in handled:
            continue            # R1 decides these
        if only_none:
            skipped.append(ci.name)
        else:
            probs.append(f'{ci.name} (no FITS shape) is not skipped with the None sentinel: '
                         f'{[show(v, 40) for v in vals][:2]} raises {[n for _, n, _ in out.raises][:2]}')
    untested = _untested_sentinel_callers(m, row_writer) if skipped else []
    if untested:
        probs.append(f'the caller {untested[0][0].qualname.split(":")[1]} uses `{untested[0][1]}` without testing it for None')
    if probs:
        ctx.bad(row_writer.qualname.split(':')[1], 'unsupported-not-skipped', '; '.join(probs[:2]), row_writer.loc())
    else:
        ctx.ok(f'{row_writer.qualname.split(":")[1]}:unsupported', f'{sorted(skipped)} yield the None sentinel; every caller tests it')


def r5(ctx):
    m = ctx.model
    for include in (1, 0):
        for comp in (False, True):
            rf, reg, rout = read_row(m, 'circle', include, comp)
            construct = f'read: include={include}, COMPONENT column {"present" if comp else "absent"}'
            if reg is None:
                ctx.bad(construct, 'no-region', 'circle row not rebuilt', rf.loc())
                continue
            meta = reg.fields.get('meta')
            keys = None
            d = meta.args[0] if isinstance(meta, App) and meta.name == 'RegionMeta' and meta.args else meta
            if isinstance(d, DictV) and not d.has_symbolic():
                keys = set(d.keys())
            want = set()
            if include == 0:
                want.add('include')
            if comp:
                want.add('component')
            if keys == want and (include == 1 or (isinstance(d.get('include'), sp.Integer) and d.get('include') == 0)):
                ctx.ok(construct, f'meta keys {sorted(want)}')
            else:
                ctx.bad(construct, 'meta-keys',
                        f'stored meta has keys {sorted(keys) if keys is not None else show(meta, 80)}; expected {sorted(want)} '
                        '(an excluded, numbered row must keep both)', rf.loc())


SHAPE_PROBES = [('circle', "['circle', 1]"), ('!circle', "['circle', 0]"), ('!ELLIPTANNULUS', "['elliptannulus', 0]"),
                ('Polygon', "['polygon', 1]"), ('!rotbox', "['rotbox', 0]"), ('pie', "[None, 1]"), ('blob', 'raises FITSParserError')]


def r5b(ctx):
    """the SHAPE cell -> (shape key, include): partial evaluation of the reader's shape function on probe cells; a row
    without a SHAPE column is a point."""
    m = ctx.model
    ser, row_writer, par, row_reader, rmod = _funcs(m)
    gs = {fi.name: fi for fi in rmod.functions.values()}.get('get_shape')
    ctx.need(gs is not None, 'fits read', 'shape function not found')
    bad = []
    for cell, want in SHAPE_PROBES:
        row = Obj('Row', {'colnames': Tup((Const('SHAPE'), Const('X'), Const('Y')), 'list'),
                          '__data__': DictV([{'SHAPE': Const(cell)}])}, None, None)
        out = Evaluator(m).run(gs, [row], {})
        if out.raises and not out.returns:
            got = 'raises ' + str(out.raises[0][1])
        elif len(out.returns) == 1:
            got = show(out.returns[0][1], 120)
        else:
            got = f'{len(out.returns)} outcomes'
        if got != want:
            bad.append((cell, got, want))
    row = Obj('Row', {'colnames': Tup((Const('X'), Const('Y')), 'list'), '__data__': DictV([{}])}, None, None)
    out = Evaluator(m).run(gs, [row], {})
    got = show(out.returns[0][1], 120) if len(out.returns) == 1 else '?'
    if got != "['point', 1]":
        bad.append(('<no SHAPE column>', got, "['point', 1]"))
    if bad:
        cell, got, want = bad[0]
        ctx.bad('get_shape', 'shape-cell', f'SHAPE cell {cell!r} is read as {got}; it must be {want} (lower-cased key, include 0 '
                f'exactly for a leading "!") — {len(bad)} of {len(SHAPE_PROBES) + 1} probes differ', gs.loc())
    else:
        ctx.ok('get_shape', f'{len(SHAPE_PROBES) + 1} probe cells: key lower-cased, "!" <-> include 0, unsupported -> skipped, unknown -> error')


def r6(ctx):
    from ..fx import FX, param_name
    from .c13 import REVIEWED, REVIEWED_IN_MODULE
    m = ctx.model
    fx = FX(m)
    for kind in ('serialize', 'write'):
        fi = m.registered(kind, 'fits')
        s = fx.summary(fi)
        muts = [e for e in s.muts if e.target[0] == 'param' and not e.via.startswith('iteration')
                and (e.func, ' '.join(e.stmt.split())) not in REVIEWED
                and (e.func.split(':')[0], ' '.join(e.stmt.split())) not in REVIEWED_IN_MODULE]
        if muts:
            e = muts[0]
            ctx.bad(fi.qualname.split(':')[1], f'mutates:{" ".join(e.stmt.split())[:60]}',
                    f'`{e.stmt}` writes through `{param_name(fi, e.target[1])}.{".".join(e.target[2])}`', f'{e.path}:{e.line}')
        else:
            ctx.ok(fi.qualname.split(':')[1], 'no write reaches the regions being serialised')


COMPONENT_PROBES = [([7, None, 3, None], [7, 8, 3, 9]), ([None, None], None), ([1, 2], [1, 2]), ([None, 5], [6, 5]),
                    ([None, 2, None, 2], [3, 2, 4, 2]), ([4], [4]), ([None], None), ([0, None], [0, 1]), ([None, 0, 0], [1, 0, 0])]


def r7(ctx):
    """fresh component numbers: the numbering function, partially evaluated on rows with given / missing components —
    given numbers stay, missing ones become max(given) + 1 + k (distinct from every given one and from each other), and no
    column is produced when no row has a number."""
    m = ctx.model
    ser, row_writer, par, row_reader, rmod = _funcs(m)
    wmod = m.modules[ser.module]
    mk = [fi for fi in wmod.functions.values() if any((call_name(c) or '').endswith('QTable') for c in calls_in(fi.node))
          and any(isinstance(n, ast.Subscript) and isinstance(n.ctx, ast.Store) for n in ast.walk(fi.node))]
    comp_fn = None
    if len(mk) == 1:
        for st in stmts_of(mk[0].node):
            if isinstance(st, ast.Assign) and isinstance(st.value, ast.Call) and 'component' in norm(st.targets[0]).lower():
                cs = m.resolve_call(mk[0], st.value)
                if cs:
                    comp_fn = cs[0]
    ctx.need(comp_fn is not None, 'fits write', 'component numbering function not found')
    bad = []
    for given, want in COMPONENT_PROBES:
        rows = Tup(tuple(Obj('_RegionData', {'component': (Const(None) if c is None else sp.Integer(c))}, None, None)
                         for c in given), 'list')
        ev_ = Evaluator(m)
        out = ev_.run(comp_fn, [rows], {})
        v = ev_.gated_return(out) if out.returns and not out.raises else None
        if isinstance(v, Tup) and all(is_num(i) and i.is_number for i in v.items):
            got = [int(i) for i in v.items]
        elif isinstance(v, Const) and v.v is None:
            got = None
        else:
            raise AnalysisError('C12.R7', comp_fn.qualname, f'not reducible on components {given}: {show(v, 160)}')
        if got != want:
            bad.append((given, got, want))
    name = comp_fn.qualname.split(':')[1]
    if bad:
        given, got, want = bad[0]
        ctx.bad(name, 'component-numbers',
                f'rows with components {given} are numbered {got}; given numbers must stay and the missing ones must be '
                f'max(given)+1+k: {want} ({len(bad)} of {len(COMPONENT_PROBES)} probes differ)', comp_fn.loc())
    else:
        ctx.ok(name, f'{len(COMPONENT_PROBES)} probes: given numbers kept, missing = max(given) + 1 + k, no column when none is given')


def r7b(ctx):
    """the COMPONENT column handed to the table is numeric on every path: an array built from values the function itself
    tests against None is an object array, and filling the gaps in place keeps it one (a FITS file cannot hold it)."""
    from ..cfg import CFG
    m = ctx.model
    ser, row_writer, par, row_reader, rmod = _funcs(m)
    wmod = m.modules[ser.module]
    comp_fn = None
    for fi in wmod.functions.values():
        if 'component' in fi.name:
            comp_fn = fi
    ctx.need(comp_fn is not None, 'fits write', 'component numbering function not found')
    fn = comp_fn.node
    construct = comp_fn.qualname.split(':')[1]
    # arrays built without a dtype from a sequence
    arrays = {}
    for st in stmts_of(fn):
        if isinstance(st, ast.Assign) and len(st.targets) == 1 and isinstance(st.targets[0], ast.Name) \
                and isinstance(st.value, ast.Call) and (call_name(st.value) or '').split('.')[-1] in ('array', 'asarray') \
                and not any(k.arg == 'dtype' for k in st.value.keywords):
            arrays[st.targets[0].id] = st
    believed_none = {a for a in arrays
                     if any(isinstance(n, ast.Compare) and any(isinstance(o, (ast.Is, ast.IsNot)) for o in n.ops)
                            and isinstance(n.comparators[0], ast.Constant) and n.comparators[0].value is None
                            for n in ast.walk(fn))}
    ctx.need(believed_none, construct, 'component array / None test not found')
    cfg = CFG(fn, exceptions=False)
    for a in sorted(believed_none):
        fills = [i for i, st in cfg.stmt.items() if cfg.kind[i] == 'stmt' and isinstance(st, ast.Assign)
                 and isinstance(st.targets[0], ast.Subscript) and norm(st.targets[0].value) == a]
        convs = [i for i, st in cfg.stmt.items() if cfg.kind[i] == 'stmt' and isinstance(st, ast.Assign)
                 and norm(st.targets[0]) == a and (
                     f'{a}.astype(' in norm(st.value) or ('dtype=' in norm(st.value) and a in norm(st.value)))]
        rets = [i for i, st in cfg.stmt.items() if cfg.kind[i] == 'stmt' and isinstance(st, ast.Return)
                and st.value is not None and a in {n.id for n in ast.walk(st.value) if isinstance(n, ast.Name)}
                and '.astype(' not in norm(st.value)]
        bad = None
        for f_ in fills:
            for r_ in rets:
                p_ = cfg.path_avoiding(f_, r_, without=convs)
                if p_ is not None:
                    bad = (f_, r_)
        if bad:
            ctx.bad(construct, 'object-column',
                    f'`{a}` is built by np.array(...) from values that may be None (object dtype); after the gaps are filled in '
                    f'place (line {cfg.stmt[bad[0]].lineno}) it is returned (line {cfg.stmt[bad[1]].lineno}) without a numeric '
                    'conversion: the COMPONENT column of a list with some numbered and some unnumbered regions has dtype '
                    'object and cannot be written to a FITS file', comp_fn.loc(cfg.stmt[bad[1]]))
        else:
            ctx.ok(construct + ':dtype', 'filled component array is converted to a numeric dtype before it is returned')


def r8(ctx):
    m = ctx.model
    ser, row_writer, par, row_reader, rmod = _funcs(m)
    wmod = m.modules[ser.module]
    pads = [(fi, c) for fi in wmod.functions.values() for c in calls_in(fi.node) if (call_name(c) or '').endswith('.pad')]
    ctx.need(pads, 'fits write', 'column padding call not found')
    for fi, c in pads:
        w = c.args[1] if len(c.args) > 1 else None
        if isinstance(w, ast.Tuple) and len(w.elts) == 2 and norm(w.elts[0]) == '0' and norm(w.elts[1]) != '0':
            ctx.ok(fi.qualname.split(':')[1], 'shorter columns are padded at the end (values keep their index)')
        else:
            ctx.bad(fi.qualname.split(':')[1], 'padding-side',
                    f'columns are padded with {norm(w) if w is not None else "?"}: values must keep their index (pad at the end), '
                    'the reader takes R[k]/X[k] by position', fi.loc(c))


def r9(ctx):
    """every column entry is the row's own quantity (units are converted by astropy, never relabelled)."""
    from ..vg import mark_quantity, PIX, unq
    m = ctx.model
    ser, row_writer, par, row_reader, rmod = _funcs(m)
    wmod = m.modules[ser.module]
    # the column builder: the one-argument function that (possibly through a helper) pads cells and turns a list of row
    # arrays into a Quantity column
    def pads(fi, seen=()):
        if any((call_name(c) or '').endswith('.pad') for c in calls_in(fi.node)):
            return True
        return any(g.module == fi.module and g.qualname not in seen and g is not fi and pads(g, seen + (fi.qualname,))
                   for c in calls_in(fi.node) for g in (m.resolve_call(fi, c) or ()))
    q0 = mark_quantity(sp.Symbol('rotang0', real=True))
    q1 = mark_quantity(sp.Symbol('rotang1', real=True))
    cands = []
    for fi in wmod.functions.values():
        a_ = fi.node.args
        if len(a_.args) - len(a_.defaults) == 1 and pads(fi):
            try:
                t_ = Evaluator(m).call(fi, [Tup((Tup((q0,), 'array'), Tup((q1,), 'array')), 'list')], {})
            except AnalysisError:
                continue
            if isinstance(t_, App) and t_.name.endswith('Quantity'):
                cands.append(fi)
    ctx.need(len(cands) == 1, 'fits write', f'column builder not identified ({[c.qualname for c in cands]})')
    col_fn = cands[0]
    ev = Evaluator(m)
    t = ev.call(col_fn, [Tup((Tup((q0,), 'array'), Tup((q1,), 'array')), 'list')], {})
    construct = col_fn.qualname.split(':')[1]
    ok = isinstance(t, App) and t.name.endswith('Quantity') and len(t.args) == 1 and isinstance(t.args[0], Tup) and \
        len(t.args[0].items) == 2 and all(is_num(unq(g)) and sp.simplify(unq(g) - w) == 0
                                          for g, w in zip(t.args[0].items, (q0, q1)))
    if ok:
        ctx.ok(construct + ':quantities', 'angle rows enter the column as their own quantities (common unit by conversion)')
    else:
        ctx.bad(construct, 'unit-relabelled',
                f'a column of two angle rows is built as {show(t, 300)}: rows must enter as their own Quantity so that astropy '
                'converts them to one unit; stripping .value and attaching another row\'s unit relabels the number '
                '(0.4 rad becomes 0.4 deg)', col_fn.loc())
    x0, x1 = sym('x0'), sym('x1')
    t = ev.call(col_fn, [Tup((Tup((x0,), 'array'), Tup((x1,), 'array')), 'list')], {})
    ok = isinstance(t, App) and t.name.endswith('Quantity') and isinstance(t.args[0], Tup) and (all(
        is_num(unq(g)) and sp.simplify(unq(g) - w * PIX) == 0 for g, w in zip(t.args[0].items, (x0, x1))) or (
        len(t.args) == 2 and is_num(t.args[1]) and t.args[1] == PIX and all(
            is_num(g) and sp.simplify(g - w) == 0 for g, w in zip(t.args[0].items, (x0, x1)))))
    if ok:
        ctx.ok(construct + ':pixels', 'plain rows get pixel units')
    else:
        ctx.bad(construct, 'pixel-unit', f'a column of plain rows is built as {show(t, 300)}; expected value*pix per row', col_fn.loc())


def r10(ctx):
    """table assembly: every column holds the rows' own values, row by row; SHAPE strings reach the table untouched."""
    m = ctx.model
    ser, row_writer, par, row_reader, rmod = _funcs(m)
    wmod = m.modules[ser.module]
    mk = [fi for fi in wmod.functions.values() if any((call_name(c) or '').endswith('QTable') for c in calls_in(fi.node))
          and any(isinstance(n, ast.Subscript) and isinstance(n.ctx, ast.Store) for n in ast.walk(fi.node))]
    ctx.need(len(mk) == 1, 'fits write', 'table-building function not identified')
    mk = mk[0]
    helpers = set()
    for c in calls_in(mk.node):
        for f in m.resolve_call(mk, c) or ():
            helpers.add(f.qualname)
    attrs = ('shape', 'x', 'y', 'r', 'rotang', 'component')
    rows = [Obj('_RegionData', {k: Obj('val', {}, f'{k}{i}') for k in attrs}, None, None) for i in (1, 2, 3)]
    ev = Evaluator(m, opaque_funcs=helpers)
    out = ev.run(mk, [Tup(tuple(rows), 'list')], {})
    vals = [v for _, v in out.returns]
    ctx.need(vals, mk.qualname, 'no table returned')
    t = vals[-1]
    while isinstance(t, Ite):      # optional COMPONENT column: take the arm that has it
        t = t.a if 'COMPONENT' in show(t.a, 4000) else t.b
    cols = {}
    while isinstance(t, App) and t.name == 'setitem' and len(t.args) == 3 and isinstance(t.args[1], Const):
        cols.setdefault(t.args[1].v, t.args[2])
        t = t.args[0]
    ctx.need(cols, mk.qualname, f'table value not understood: {show(vals[-1], 200)}')
    construct = mk.qualname.split(':')[1]
    want_rows = lambda k: Tup(tuple(r.fields[k] for r in rows), 'list')      # noqa: E731
    probs = []
    shp = cols.get('SHAPE')
    if shp is None:
        probs.append('no SHAPE column')
    elif not same(shp, want_rows('shape')):
        probs.append(f'the SHAPE column is {show(shp, 160)}, not the rows\' shape strings themselves in row order (a fixed-width '
                     'or otherwise converted column can cut names such as "!elliptannulus")')
    for k in ('x', 'y', 'r', 'rotang'):
        v = cols.get(k.upper())
        def harmless(extra):
            # further (keyword) arguments of the column builder may depend on the rows' shape names only (e.g. the fill
            # value for unused vector elements), never on another column's values
            from ..vg import walk_terms
            if not (isinstance(extra, Tup) and len(extra.items) == 2 and isinstance(extra.items[0], Const)):
                return False
            return all(x.path.startswith('shape') for x in walk_terms(extra.items[1]) if isinstance(x, Obj) and x.cls == 'val')
        ok = isinstance(v, App) and v.name.startswith('call:') and len(v.args) >= 1 and same(v.args[0], want_rows(k)) \
            and all(harmless(e_) for e_ in v.args[1:])
        if not ok:
            probs.append(f'column {k.upper()} is {show(v, 120)}, not the padded rows\' {k} values in row order')
    if 'COMPONENT' not in cols:
        probs.append('no COMPONENT column on any path')
    if probs:
        ctx.bad(construct, 'table-assembly', '; '.join(probs), mk.loc())
    else:
        ctx.ok(construct, 'SHAPE = row strings; X/Y/R/ROTANG = padded row values; row order kept')


def r11(ctx):
    """variable-length rows: the writer pads shorter vector columns; a shape whose number of entries is part of its
    geometry (polygon vertices) must be read back through something that removes the padding."""
    m = ctx.model
    ser, row_writer, par, row_reader, rmod = _funcs(m)
    wmod = m.modules[ser.module]
    pads = [(fi, c) for fi in wmod.functions.values() for c in calls_in(fi.node) if (call_name(c) or '').endswith('.pad')]
    f, reg, out = read_row(m, 'polygon', 1, False)
    ctx.need(reg is not None and isinstance(reg.fields.get('vertices'), Obj), 'polygon row', 'reader builds no polygon')
    v = reg.fields['vertices']
    bare = [k for k in ('x', 'y') if isinstance(v.fields.get(k), App) and v.fields[k].name == 'col']
    # a cut that depends on the VALUES of the cells (compared with a finite number) cannot tell padding from a vertex with
    # that coordinate: whatever the writer pads with, a polygon ending in such a vertex comes back shorter
    from ..vg import walk_terms, Cmp as _Cmp, is_num as _is_num
    valcut = None
    for k in ('x', 'y'):
        for t in walk_terms(v.fields.get(k)):
            if isinstance(t, _Cmp) and t.op in ('==', '!=', '<', '<=', '>', '>='):
                for cell, other in ((t.lhs, t.rhs), (t.rhs, t.lhs)):
                    if isinstance(cell, App) and cell.name == 'col' and _is_num(other) and getattr(other, 'is_number', False) \
                            and other.is_finite:
                        valcut = valcut or (show(t, 60), other)
    if valcut:
        ctx.bad('polygon row', 'vertex-value-read-as-padding',
                f'the number of vertices read for a polygon depends on the cell values themselves ({valcut[0]}): {valcut[1]} is a '
                f'legal pixel coordinate, so a polygon whose last vertices have that coordinate comes back with fewer vertices '
                f'({show(v, 100)})', f.loc())
    elif pads and bare:
        ctx.bad('polygon row', 'padding-read-as-vertices',
                f'the writer pads shorter X/Y vectors with zeros ({pads[0][0].name}) and the reader builds the polygon from the '
                f'whole column ({show(v, 100)}): in a table holding polygons with different numbers of vertices the shorter ones '
                'come back with extra (0, 0) vertices', f.loc())
    else:
        ctx.ok('polygon row', 'padding is removed (or never added) before the vertices are built')


COLUMN_PROBES = [('R0', 'a'), ('R1', 'b'), ('R2', 'c'), ('X0', 'x'), ('Y0', 'y'), ('ROTANG0', 'r'), ('X', '[x]'), ('R', '[a, b, c]')]


def r12(ctx):
    """column addressing on read: `<NAME><i>` is element i of the row's NAME cell, a bare NAME is the whole cell (polygon
    vertices) — the reader's column accessor partially evaluated on a probe row."""
    m = ctx.model
    mod = next((mi for n, mi in m.modules.items() if n.endswith('io.fits.read')), None)
    ctx.need(mod is not None, 'regions.io.fits.read', 'module not found')
    from ..vg import DictV, sym
    row = DictV([{'R': Tup((sym('a'), sym('b'), sym('c')), 'list'), 'X': Tup((sym('x'),), 'list'),
                  'Y': Tup((sym('y'),), 'list'), 'ROTANG': Tup((sym('r'),), 'list')}])
    # the accessor is the (row, column name) function the shape-parameter reader maps over the column list
    gsp = [g for g in mod.functions.values() if any(isinstance(n, ast.Name) and n.id == 'shape_columns' for n in ast.walk(g.node))
           and len(g.node.args.args) == 3]
    cand = []
    for g in gsp:
        for c in calls_in(g.node):
            for h in m.resolve_call(g, c) or ():
                if h.module == mod.name and len(h.node.args.args) == 2 and h not in cand:
                    cand.append(h)
    if len(cand) > 1:
        # several two-argument helpers: the accessor is the one that answers with a cell element for ('R1')
        keep = []
        for h in cand:
            try:
                o_ = Evaluator(m).run(h, [row, Const('R1')], {})
            except AnalysisError:
                continue
            if [show(v, 40) for _, v in o_.returns] == ['b']:
                keep.append(h)
        cand = keep or cand
    ctx.need(len(cand) == 1, 'fits read', f'column accessor not identified ({[c.qualname for c in cand]})')
    f = cand[0]
    bad = []
    for col, want in COLUMN_PROBES:
        ev = Evaluator(m)
        out = ev.run(f, [row, Const(col)], {})
        got = [show(v, 80) for _, v in out.returns]
        if len(got) != 1 or got[0] != want or out.raises:
            bad.append((col, got, want))
    construct = f.qualname.split(':')[1]
    if bad:
        col, got, want = bad[0]
        ctx.bad(construct, 'column-addressing',
                f'column {col!r} of a row with R=[a, b, c], X=[x], Y=[y], ROTANG=[r] is read as {got}; the FITS region convention '
                f'(and the writer) make it {want} ({len(bad)} of {len(COLUMN_PROBES)} probes differ)', f.loc())
    else:
        ctx.ok(construct, f'{len(COLUMN_PROBES)} probes: NAME<i> is element i of the cell, NAME is the whole cell')


def r13(ctx):
    """table level on read: rows become regions in row order, a row the reader skips (returns None for) leaves the others
    alone, and a table with a foreign column is rejected with FITSParserError."""
    m = ctx.model
    mod = next((mi for n, mi in m.modules.items() if n.endswith('io.fits.read')), None)
    ctx.need(mod is not None and 'parse_table' in mod.functions and 'parse_row' in mod.functions, 'fits read',
             'parse_table / parse_row not found')
    pt, pr = mod.functions['parse_table'], mod.functions['parse_row']

    def run(cols):
        res = iter([Obj('Region', {}, 'A'), Const(None), Obj('Region', {}, 'C')])
        rows = Tup(tuple(Obj('Row', {}, f'row{i}') for i in range(3)), 'list')
        tab = Obj('Table', {'colnames': Tup(tuple(Const(c) for c in cols), 'list'), '__items__': rows}, 'table')
        ev = Evaluator(m, hooks={pr.qualname: lambda e, a, k: next(res)})
        out = ev.run(pt, [tab], {})
        definite = [n for pc, n, _ in out.raises if not [c for c in pc if not (isinstance(c, Const) and c.v is True)]]
        return [show(v, 100) for _, v in out.returns], definite
    got, raised = run(('X', 'Y', 'SHAPE', 'R', 'ROTANG', 'COMPONENT'))
    got2, raised2 = run(('X', 'Y', 'SHAPE', 'FOO'))
    probs = []
    if got != ['[A, C]'] or raised:
        probs.append(f'rows (A, skipped, C) become {got} (raises {raised}); expected [A, C]')
    if 'FITSParserError' not in raised2:
        probs.append(f'a table with the foreign column FOO gives {got2} (raises {raised2}); expected FITSParserError')
    if probs:
        ctx.bad('parse_table', 'table-assembly', '; '.join(probs), pt.loc())
    else:
        ctx.ok('parse_table', 'rows in order, skipped rows dropped, foreign columns rejected')


RULES = [
    RuleDef('R1', 'SHAPE name pipeline x include (writer name known to reader; "!" iff excluded)', r1, 8),
    RuleDef('R2', 'semi-axis halving/doubling agreement x include', r2, 7),
    RuleDef('R3', 'column map agreement; alternative read notations', r3, 11),
    RuleDef('R4', 'skip discipline (sky / unsupported)', r4, 2),
    RuleDef('R5', 'include/component meta on read (4 combinations)', r5, 4),
    RuleDef('R5b', 'SHAPE cell -> (shape key, include) on probe cells', r5b, 1),
    RuleDef('R6', 'serialisers do not mutate the regions', r6, 2),
    RuleDef('R7', 'fresh component numbers', r7, 1),
    RuleDef('R7b', 'filled COMPONENT column has a numeric dtype', r7b, 1),
    RuleDef('R8', 'column padding keeps value positions', r8, 1),
    RuleDef('R9', 'column entries keep their own units (converted, never relabelled)', r9, 2),
    RuleDef('R10', 'table assembly: SHAPE strings untouched, columns = row values in row order', r10, 1),
    RuleDef('R11', 'column padding never becomes polygon vertices', r11, 1),
    RuleDef('R12', 'column addressing on read (probe row)', r12, 1),
    RuleDef('R13', 'table rows -> regions: in order, skipped rows dropped, foreign columns rejected', r13, 1),
]
