"""C16 — regions are values: copies are equal and independent, equality sees every field."""
import ast

import sympy as sp

from ..astutil import call_name, calls_in, func_params, norm, stmts_of
from ..report import RuleDef
from ..src import AnalysisError
from ..vg import (App, BoolT, Cmp, Const, Evaluator, ExtRef, Ite, Obj, Tup,
                  contains_unknown, is_num, same, show, sym, term_equal, truthy)
from .common import evaluator, method_or_fail

EXPLANATION = (
    'Decides from source: (R1) Region.copy deep-copies every field of _params + meta + visual that is not overridden and '
    'rebuilds through the class constructor — evaluated for all 23 concrete classes: the copy has the same class and every field '
    'is (a deep copy of) the original\'s, and a copy with changes differs in exactly the named fields; (R2) Region.__eq__ '
    'requires the same class and field lists and compares every field of _params + meta + visual with != under np.any; '
    '__ne__ is its negation; (R3) the field list is the truth: for every concrete class _params equals the constructor\'s '
    'parameters minus meta/visual (reviewed exception: origin of PolygonPixelRegion, folded into vertices) and each _params name '
    'is stored by the constructor; (R4) PixCoord.copy and Meta.copy are deep; (R5) Regions.__getitem__ (slice) and Regions.copy '
    'bind a new list object, never self.regions itself. Not decided: Quantity/SkyCoord comparison semantics (astropy).')
EXPLANATION_ADDED = (' (R2 is decided as a truth table over the comparison atoms of the outcomes: equal fields -> equal; a difference in any one field, another class, or a comparison that raises -> unequal.) (R5 is decided on the list term of the returned object.) (R6) the objects the DS9 reader itself stores in visual (point symbol markers) survive deepcopy as equal values.'
                     ' In R2 side tests on a field (its type, its unit) may go either way and a comparison within a tolerance counts as passable by differing values; the angular parameters are Quantities on both sides.')
EXPLANATION += EXPLANATION_ADDED
EXPLANATION_ADDED3 = (' (R5 also) copy.copy(Regions) — the `__copy__` the class defines or inherits — binds a new list, so appending to the copy does not change the original.')
EXPLANATION += EXPLANATION_ADDED3
EXPLANATION_ADDED2 = (' (R7) regions that come out of one parse are values of their own (C13.R7 on the DS9 reader).')
EXPLANATION += EXPLANATION_ADDED2
EXPLANATION_ADDED4 = (' (R4b) copy.deepcopy is a primitive only for classes that do not customise it: every __deepcopy__ / __reduce_ex__ / __reduce__ / __getstate__ defined by a class on the copy path (Meta and subclasses, PixCoord, Region, Regions, RegionBoundingBox, RegionMask) is followed with the may-hold-a-reference dataflow of C13.R7 (source: the object being copied; sanitizer: copy.deepcopy of the member, on every path) and must not hand a member of the original to the copy.')
EXPLANATION += EXPLANATION_ADDED4
TRUSTED = ['copy.deepcopy yields an equal object sharing no mutable state', 'list slicing / list.copy() build a new list']
ASSUMPTIONS = ['descriptor __set__ stores the value it validated (C17.R2)']


def r1(ctx):
    m = ctx.model
    reg = m.cls('Region')
    cp = method_or_fail(ctx, reg, 'copy')
    IMMUTABLE_KINDS = {'PositiveScalar': 'a Python/numpy float'}
    IMMUTABLE_FIELDS = {'text': 'str', 'operator': 'function object'}

    def copied_everywhere(t, orig):
        """every path hands the constructor a deep copy of orig"""
        if isinstance(t, Ite):
            return copied_everywhere(t.a, orig) and copied_everywhere(t.b, orig)
        return isinstance(t, App) and t.name == 'copy' and same(t.args[0], orig)

    def unchanged_everywhere(t, orig):
        if isinstance(t, Ite):
            return unchanged_everywhere(t.a, orig) and unchanged_everywhere(t.b, orig)
        return same(t, orig) or (isinstance(t, App) and t.name == 'copy' and same(t.args[0], orig))

    n = 0
    for ci in m.region_classes():
        ev = Evaluator(m, track_copies=True)
        s = ev.symbolic_instance(ci)
        params = m.params_of(ci)
        # copy with one change (first parameter) and without
        for changed in (None, params[0]):
            kw = {}
            marker = Obj('changed', {}, 'NEW')
            if changed:
                kw[changed] = marker
            r = ev.call(cp, [s], kw)
            construct = f'{ci.name}.copy' + (f'({changed}=...)' if changed else '()')
            if not (isinstance(r, Obj) and r.cls == ci.name):
                ctx.bad(construct, 'class', f'copy returns {show(r, 120)}', cp.loc())
                continue
            probs = []
            for p in list(params) + ['meta', 'visual']:
                fld = '_operator' if p == 'operator' else p
                got = r.fields.get(fld)
                if p == changed:
                    if not (same(got, marker) or (ci.name == 'PolygonPixelRegion' and 'NEW' in show(got, 300))):
                        probs.append(f'{p} change not applied')
                    continue
                orig = ev.attr(s, fld, None)
                if got is None:
                    probs.append(f'{p} not supplied to the constructor')
                    continue
                if p == 'vertices' and ci.name == 'PolygonPixelRegion':
                    ok = 'copy(self.vertices)' in show(got, 400) and show(got, 400).count('self.vertices') == \
                        show(got, 400).count('copy(self.vertices')
                    if not ok:
                        probs.append('vertices of the copy are not built from a deep copy of self.vertices')
                    continue
                immutable = p in IMMUTABLE_FIELDS or m.descriptor_kind(ci, p) in IMMUTABLE_KINDS
                if immutable:
                    if not unchanged_everywhere(got, orig):
                        probs.append(f'{p} of the copy is {show(got, 100)}, not the original value')
                elif not copied_everywhere(got, orig):
                    if unchanged_everywhere(got, orig):
                        probs.append(f'{p} (a mutable {m.descriptor_kind(ci, p) or "object"}) reaches the copy without a deep '
                                     f'copy on some path ({show(got, 140)}): in-place changes of the copy show in the original')
                    else:
                        probs.append(f'{p} of the copy is {show(got, 100)}, not a deep copy of the original')
            n += 1
            if probs:
                ctx.bad(construct, 'fields', '; '.join(probs), cp.loc())
            else:
                ctx.ok(construct, 'same class; every mutable field deep-copied on every path; only named fields differ')
    ctx.need(n >= 40, 'copy instances', f'only {n}')


def r2(ctx):
    m = ctx.model
    reg = m.cls('Region')
    eq = method_or_fail(ctx, reg, '__eq__')
    def evalb(t, asg):
        """truth of the boolean term t under an assignment of its atoms (atoms are keyed by their text)."""
        if isinstance(t, Const):
            return bool(t.v)
        if isinstance(t, BoolT) and t.op == 'and':
            return all(evalb(a_, asg) for a_ in t.args)
        if isinstance(t, BoolT) and t.op == 'or':
            return any(evalb(a_, asg) for a_ in t.args)
        if isinstance(t, BoolT) and t.op == 'not':
            return not evalb(t.args[0], asg)
        if isinstance(t, BoolT) and t.op == 'truthy' and isinstance(t.args[0], (Ite, BoolT, Const, Tup)):
            return evalb(t.args[0], asg)
        if isinstance(t, Tup) and t.kind in ('any', 'all'):
            vs = [evalb(truthy(i), asg) for i in t.items]
            return any(vs) if t.kind == 'any' else all(vs)
        if isinstance(t, Ite):
            return evalb(t.a, asg) if evalb(t.cond, asg) else evalb(t.b, asg)
        if hasattr(t, 'rets'):
            for pc_, v_ in t.rets:
                if all(evalb(truthy(c_), asg) for c_ in pc_):
                    return evalb(truthy(v_), asg)
            return False
        return asg(show(t, 2000))

    for ci in m.region_classes():
        ev = evaluator(ctx)
        s = ev.symbolic_instance(ci)
        o = Obj(ci.name, {}, 'other', ci)
        o.typed = False
        # the angular parameters are Quantities (a comparison may treat them apart from plain numbers)
        from ..vg import mark_quantity, reset_marks
        reset_marks()
        for p_ in m.params_of(ci):
            if m.descriptor_kind(ci, p_) in ('ScalarAngle', 'PositiveScalarAngle'):
                for holder_ in (s, o):
                    v_ = ev.attr(holder_, p_, None)
                    if isinstance(v_, sp.Symbol):
                        mark_quantity(v_)
        out = ev.run(eq, [s, o], {})
        reset_marks()
        construct = f'{ci.name}.__eq__'
        # the outcomes are a decision list in program order: the first return whose (necessary) path condition holds
        # decides
        class _DL:
            pass
        E = _DL()
        E.rets = list(out.returns)
        want = sorted(set(m.params_of(ci)) | {'meta', 'visual'})
        fieldtxt = {p: (show(ev.attr(s, p, None), 400), show(ev.attr(o, p, None), 400)) for p in want}

        def assignment(differs=None, guard=True, completes=True, aux=True):
            def asg(key):
                if 'isinstance(other' in key:
                    return guard
                if key.startswith('bool(completes_without') or 'completes_without' in key:
                    return completes
                for p in want:
                    a_, b_ = fieldtxt[p]
                    if f'{a_} != {b_}' in key or f'{b_} != {a_}' in key:
                        return p == differs
                    if f'{a_} == {b_}' in key or f'{b_} == {a_}' in key:
                        return p != differs
                mentioned = [p for p in want if fieldtxt[p][0] in key or fieldtxt[p][1] in key]
                if mentioned and ('allclose(' in key or 'isclose(' in key):
                    # a comparison within a tolerance holds for some values that differ: a differing field can pass it
                    return True
                if mentioned:
                    # a side test on a field (its type, its unit, ...): the table must come out right whichever way it goes
                    return aux
                raise AnalysisError('C16.R2', construct, f'equality depends on something that is not a field comparison: {key[:160]}')
            return asg
        probs = []
        if not all(evalb(E, assignment(aux=x_)) for x_ in (True, False)):
            probs.append('two regions of the same class with equal fields compare unequal')
        blind = [p for p in want if any(evalb(E, assignment(differs=p, aux=x_)) for x_ in (True, False))]
        if blind:
            probs.append(f'a difference in {blind} alone leaves the regions equal (fields compared: {sorted(set(want) - set(blind))}, '
                         f'must compare {want})')
        if evalb(E, assignment(guard=False)):
            probs.append('an object of another class can compare equal (no class guard)')
        if any('completes_without' in show(c_, 400) for pc_, v_ in out.returns for c_ in list(pc_) + [v_]) \
                and evalb(E, assignment(completes=False)):
            probs.append('a field comparison that raises (frame or shape mismatch) makes the regions equal')
        if probs:
            ctx.bad(construct, 'fields-compared', 'equality does not see every field: ' + '; '.join(probs), eq.loc())
        else:
            ctx.ok(construct, f'class checked; a difference in any of {want} means unequal; equal fields mean equal')
    # error discipline: comparing two well-formed regions never raises — a frame mismatch (TypeError) or a shape
    # mismatch (ValueError, e.g. polygons with different numbers of vertices) of a SkyCoord/Quantity field means "unequal"
    # (read off the value: the field comparisons sit under a try whose handlers — all returning a constant — name them)
    import re as _re
    caught = set()
    evx = evaluator(ctx)
    cix = m.cls('PolygonSkyRegion')
    ox = Obj(cix.name, {}, 'other', cix)
    ox.typed = False
    outx = evx.run(eq, [evx.symbolic_instance(cix), ox], {})
    alltxt = ' '.join(show(c_, 3000) for pc_, v_ in outx.returns for c_ in list(pc_) + [v_])
    for mt in _re.finditer(r'completes_without:\(?([A-Za-z_., ]+?)\)?\(', alltxt):
        caught |= {x.strip().split('.')[-1] for x in mt.group(1).split(',') if x.strip()}
    if '*' in alltxt and 'completes_without:*' in alltxt:
        caught.add('Exception')
    need = {'TypeError', 'ValueError'}
    if need <= caught or caught & {'Exception', 'BaseException'}:
        ctx.ok('Region.__eq__:exceptions', 'TypeError and ValueError of field comparisons mean unequal')
    else:
        ctx.bad('Region.__eq__', 'comparison-raises',
                f'field comparison exceptions turned into False: {sorted(caught)}; missing {sorted(need - caught)} — '
                'PolygonSkyRegion with 3 vertices == PolygonSkyRegion with 4 vertices raises ValueError (shape mismatch) instead '
                'of returning False', eq.loc())
    ne = method_or_fail(ctx, reg, '__ne__')
    # decided on the value: with the outcome of == given (an opaque truth value E), != must be `not E`
    evn = evaluator(ctx)
    E_ = App('EQ_OUTCOME', ())
    evn.hooks[eq.qualname] = lambda e, a, k: E_
    cin = m.cls('CirclePixelRegion')
    on = Obj(cin.name, {}, 'other', cin)
    outn = evn.run(ne, [evn.symbolic_instance(cin), on], {})
    okn = not outn.raises and bool(outn.returns)

    def _tv(t, val):
        from ..vg import BoolT as _B
        if isinstance(t, Const):
            return bool(t.v)
        if same(t, E_):
            return val
        if isinstance(t, Cmp) and t.op in ('==', '!=') and {getattr(t.lhs, 'path', None), getattr(t.rhs, 'path', None)} == {'self', 'other'}:
            return val if t.op == '==' else not val     # self == other / other == self: the outcome of ==
        if isinstance(t, _B) and t.op == 'not':
            return not _tv(t.args[0], val)
        if isinstance(t, _B) and t.op == 'truthy':
            return _tv(t.args[0], val)
        if isinstance(t, _B) and t.op in ('and', 'or'):
            vs = [_tv(a_, val) for a_ in t.args]
            return all(vs) if t.op == 'and' else any(vs)
        raise ValueError(show(t, 120))
    if okn:
      try:
        for val in (True, False):
            got = None
            for pc_, v_ in outn.returns:
                if all(_tv(truthy(c_), val) for c_ in pc_):
                    got = _tv(truthy(v_), val)
                    break
            if got is not (not val):
                okn = False
      except ValueError:
        okn = False          # depends on something else than the outcome of ==
    if okn:
        ctx.ok('Region.__ne__', 'negation of __eq__ (decided on the value, with the outcome of == given)')
    else:
        ctx.bad('Region.__ne__', 'negation', '__ne__ is not `not (self == other)`', ne.loc())


def r3(ctx):
    m = ctx.model
    REVIEWED = {('PolygonPixelRegion', 'origin'): 'origin is folded into vertices by the constructor'}
    for ci in m.region_classes():
        init = m.method(ci, '__init__')
        ctx.need(init is not None, ci.name, 'no constructor')
        pnames = [p for p in func_params(init.node)[1:] if p not in ('meta', 'visual')]
        extra = [p for p in pnames if p not in m.params_of(ci) and (ci.name, p) not in REVIEWED]
        missing = [p for p in m.params_of(ci) if p not in pnames]
        construct = f'{ci.name}._params'
        if extra or missing or list(m.params_of(ci)) != [p for p in pnames if p in m.params_of(ci)]:
            ctx.bad(construct, 'field-list',
                    f'_params {m.params_of(ci)} and constructor parameters {pnames} disagree (extra: {extra}, missing: '
                    f'{missing}): copy/equality/serialisation would ignore or mis-order a field', init.loc())
            continue
        # each _params name is stored by the constructor
        ev = evaluator(ctx)
        o = Obj(ci.name, {}, None, ci)
        args = []
        for nm in func_params(init.node)[1:]:
            if nm in ('meta', 'visual'):
                args.append(Const(None))
            elif nm in ('region1', 'region2'):
                base = 'PixelRegion' if m.is_subclass(ci, 'PixelRegion') else 'SkyRegion'
                args.append(Obj(base, {}, f'given.{nm}', m.cls(base)))
            elif nm == 'operator':
                args.append(ExtRef('operator.and_'))
            elif nm in ('vertices', 'origin', 'center', 'start', 'end') and m.is_subclass(ci, 'PixelRegion'):
                args.append(Obj('PixCoord', {}, f'given.{nm}', m.cls('PixCoord')))
            else:
                args.append(sym(f'given.{nm}', positive=True))
        ev.run(init, [o] + args, {})
        notstored = []
        for nm, av in zip(func_params(init.node)[1:], args):
            if nm not in m.params_of(ci):
                continue
            got = o.fields.get('_operator' if nm == 'operator' else nm)
            if nm == 'vertices' and ci.name == 'PolygonPixelRegion':
                continue
            if got is None or not same(got, av):
                notstored.append(nm)
        if notstored:
            ctx.bad(construct, 'not-stored', f'constructor does not store {notstored} as given', init.loc())
        else:
            ctx.ok(construct, '= constructor parameters, each stored')
    for k, why in REVIEWED.items():
        ctx.note(f'reviewed exception {k}: {why}')


def r4(ctx):
    m = ctx.model
    mc = method_or_fail(ctx, m.cls('Meta'), 'copy')
    if norm(mc.node.body[-1]).replace(' ', '') in ('returndeepcopy(self)', 'returncopy.deepcopy(self)'):
        ctx.ok('Meta.copy', 'deepcopy(self)')
    else:
        ctx.bad('Meta.copy', 'not-deep', 'Meta.copy is not a deep copy', mc.loc())
    from .c20 import r6 as c20r6
    c20r6(ctx)


def r5(ctx):
    """Regions.copy() and slicing hand back a new Regions object whose list is a new list object (a copy or a slice of
    the source list), never the source list itself — decided on the value of the returned object's `regions` field."""
    m = ctx.model
    ci = m.cls('Regions')
    if m.method(ci, '__copy__') is None:
        # the default protocol of the copy module makes a new object with a (shallow) copy of the instance dictionary:
        # the entry `regions` of the copy is the source list itself
        ctx.bad('Regions.__copy__', 'aliases-list',
                'copy.copy(regions) is not defined by the class, so the standard protocol copies the instance dictionary and the '
                'new Regions object holds the source list itself: D = copy.copy(R); D.append(x) also lengthens R '
                '(R.copy() and R[:] make a new list)', ci.path)
    for name, args in (('copy', []), ('__getitem__', [Obj('slice', {}, 'index')])) + (
            (('__copy__', []),) if m.method(ci, '__copy__') is not None else ()):
        f = method_or_fail(ctx, ci, name)
        ev = evaluator(ctx)
        src = Obj('list', {}, 'self.regions')
        s = Obj('Regions', {'regions': src}, 'self', ci)
        out = ev.run(f, [s] + args, {})
        objs = [v for _, v in out.returns if isinstance(v, Obj) and v.cls == 'Regions']
        if name == '__getitem__':
            # one item (a Region) is handed out as it is; the list case is the other return
            objs = [v for pc, v in out.returns if isinstance(v, Obj) and v.cls == 'Regions']
            if not objs:
                for pc, v in out.returns:
                    for x in ([v.a, v.b] if isinstance(v, Ite) else [v]):
                        if isinstance(x, Obj) and x.cls == 'Regions':
                            objs.append(x)
        probs = []
        if not objs:
            probs.append('no new Regions object is populated')
        for r in objs:
            lst = r.fields.get('regions')
            if r is s:
                probs.append('the object itself is returned')
            elif lst is None or lst is src or same(lst, src):
                probs.append(f'the new object holds `{show(lst, 80)}`, the source list itself')
        if probs:
            ctx.bad(f'Regions.{name}', 'aliases-list', '; '.join(probs) + ': later edits of the result alter the source list',
                    f.loc())
        else:
            ctx.ok(f'Regions.{name}', f'binds a new list object ({show(objs[0].fields.get("regions"), 60)})')


def _copy_stable(m, mod, expr):
    """(stable?, description) of a value expression the library itself stores in a region's meta/visual: a copy of the
    region (copy(), to_sky(), to_pixel(), rotate() all deep-copy meta and visual) must compare equal to the original,
    so the value must compare by value (str, number, tuple/list of those) or survive deepcopy as the same object."""
    if isinstance(expr, ast.Constant):
        return True, f'constant {expr.value!r}'
    if isinstance(expr, (ast.Tuple, ast.List)):
        rs = [_copy_stable(m, mod, e) for e in expr.elts]
        return all(r[0] for r in rs), 'sequence of ' + ', '.join(sorted({r[1] for r in rs}))
    if isinstance(expr, ast.Call) and isinstance(expr.func, ast.Name) and expr.func.id in mod.classes:
        ci = mod.classes[expr.func.id]
        dc = m.method(ci, '__deepcopy__')
        eq = m.method(ci, '__eq__')
        if dc is not None:
            rets = [n for n in ast.walk(dc.node) if isinstance(n, ast.Return)]
            if rets and all(isinstance(r.value, ast.Name) and r.value.id == 'self' for r in rets):
                return True, f'{ci.name} instance (deepcopy returns the object itself)'
        if eq is not None:
            return True, f'{ci.name} instance (defines __eq__)'
        return False, f'{ci.name} instance without value equality'
    if isinstance(expr, ast.Call):
        return False, f'object built by {norm(expr.func)}(...) — compared by identity, rebuilt by deepcopy'
    return False, f'`{norm(expr)[:60]}`'


def r6(ctx):
    """what the readers themselves put into meta/visual survives copying: the DS9 point symbols are translated to
    matplotlib markers through a table; every marker a region can receive from it must be copy-stable, otherwise
    region.copy() != region (and to_sky/to_pixel/rotate results differ from the original's visual)."""
    from ..tb import tables
    from . import ds9
    from ..vg import DictV
    m = ctx.model
    par, make, lexers, raw, rmod = ds9.reader_funcs(m)
    callees = []
    for st in stmts_of(make.node):
        if isinstance(st, ast.Assign) and isinstance(st.value, ast.Call):
            for f in m.resolve_call(make, st.value) or ():
                if f.module != make.module and f not in callees:
                    callees.append(f)
    ctx.need(len(callees) >= 2, make.qualname, 'metadata split/translation calls not found')
    trans = callees[1]
    core = next((mi for n, mi in m.modules.items() if n.endswith('io.ds9.core')), None)
    ctx.need(core is not None, 'regions.io.ds9.core', 'module not found')
    symtab = tables(m, core.name).env.get('ds9_valid_symbols')
    if not isinstance(symtab, dict):
        # the table refers to module objects: take its keys from the source
        symtab = None
        for n in ast.walk(ctx.src.parse(core.path)):
            if isinstance(n, ast.Assign) and any(isinstance(t, ast.Name) and t.id == 'ds9_valid_symbols' for t in n.targets) \
                    and isinstance(n.value, ast.Dict):
                symtab = {k.value: v for k, v in zip(n.value.keys, n.value.values) if isinstance(k, ast.Constant)}
    ctx.need(symtab and len(symtab) >= 5, 'ds9_valid_symbols', 'point symbol table not found')
    tree = ctx.src.parse(core.path)
    for sym in sorted(symtab):
        construct = f'point={sym}'
        v = Evaluator(m).call(trans, [Const('point'), DictV([{'point': Const(sym)}])], {})
        ctx.need(isinstance(v, DictV) and 'marker' in v.keys(), construct, f'no marker produced: {show(v, 120)}')
        mk = v.get('marker')
        if isinstance(mk, Const):
            ctx.ok(construct, f'marker {mk.v!r}: a string')
            continue
        ctx.need(isinstance(mk, App) and mk.name.startswith('global:'), construct, f'marker value not resolved: {show(mk, 120)}')
        gname = mk.name.split('.')[-1]
        defs = [n.value for n in ast.walk(tree) if isinstance(n, ast.Assign) and any(
            isinstance(t, ast.Name) and t.id == gname for t in n.targets)]
        ctx.need(defs, construct, f'no definition of {gname} found')
        bad = [(d, _copy_stable(m, core, d)) for d in defs]
        bad = [(d, r) for d, r in bad if not r[0]]
        if bad:
            d, r = bad[0]
            ctx.bad(construct, 'marker-not-copy-stable',
                    f'a DS9 point with point={sym} is read with visual[\'marker\'] = {gname}, an {r[1]}: region.copy() (and '
                    'to_sky/to_pixel/rotate) deep-copy the visual dict, so the copy does not compare equal to the region and its '
                    'marker is no longer found in the writer\'s symbol table (the copy is serialised without point=)',
                    f'{core.path}:{gname}:{d.lineno}')
        else:
            ctx.ok(construct, f'marker {gname}: ' + '; '.join(sorted({_copy_stable(m, core, d)[1] for d in defs})))


def r4b(ctx):
    """copy.deepcopy is a primitive only for classes that do not customise it: a `__deepcopy__` (or `__reduce_ex__` /
    `__getstate__`) defined by a class on the copy path (Meta and its subclasses, PixCoord, Region, Regions, RegionBoundingBox,
    RegionMask) decides what "deep" means for every Region.copy().  Such a method is followed with the may-hold-a-reference
    dataflow of C13.R7 — source: the object being copied; sanitizer: copy.deepcopy of the member — and must not hand a
    member of the original to the copy."""
    from .c13 import _Shared
    m = ctx.model
    n = 0
    for cname in ('Meta', 'RegionMeta', 'RegionVisual', 'PixCoord', 'Region', 'PixelRegion', 'SkyRegion', 'Regions',
                  'RegionBoundingBox', 'RegionMask'):
        ci = m.cls(cname)
        for hook in ('__deepcopy__', '__reduce_ex__', '__reduce__', '__getstate__'):
            f = ci.methods.get(hook)
            if f is None:
                continue
            n += 1
            params = [a.arg for a in f.node.args.args]
            an = _Shared(m, f, {params[0]})
            an.block(f.node.body)
            if an.returns:
                ctx.bad(f'{cname}.{hook}', 'deepcopy-shares-members',
                        f'{cname}.{hook} builds the copy that copy.deepcopy — hence Region.copy(), {cname}.copy() — returns, and '
                        f'hands it members of the original without copying them (`{norm(an.returns[0])[:60]}` holds them): a value '
                        'such as a Quantity or an array stored in meta/visual is one object in the copy and in the original, so '
                        'an in-place change of the copy shows in the original', f.loc(an.returns[0]))
            else:
                ctx.ok(f'{cname}.{hook}', 'every member reaches the copy through copy.deepcopy')
    if not n:
        ctx.ok('copy path', 'no class on the copy path customises deepcopy / pickling: copy.deepcopy is the library primitive')


def r7(ctx):
    """regions that come out of one parse are values of their own: changing the metadata of one never shows in another
    (C13.R7: the DS9 reader deep-copies the metadata that several regions inherit)."""
    from .c13 import r7 as c13r7
    c13r7(ctx)


RULES = [
    RuleDef('R1', 'Region.copy: deep, complete, class-preserving (23 classes x 2)', r1, 41),
    RuleDef('R2', 'Region.__eq__ compares class and every field, never raises; __ne__ negates', r2, 25),
    RuleDef('R3', '_params = constructor parameters, each stored', r3, 23),
    RuleDef('R4', 'PixCoord.copy / Meta.copy deep; PixCoord.__eq__', r4, 3),
    RuleDef('R4b', 'no class on the copy path customises deepcopy in a way that shares members', r4b, 1),
    RuleDef('R5', 'Regions slicing/copy bind a new list', r5, 2),
    RuleDef('R6', 'values the DS9 reader stores in visual are copy-stable (point symbol markers)', r6, 5),
    RuleDef('R7', 'regions read from one text share no mutable metadata object (C13.R7)', r7, 2),
]
