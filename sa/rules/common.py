"""Helpers shared by the formula rules."""
import ast

import sympy as sp

from ..src import AnalysisError
from ..vg import (App, BoolT, Cmp, Const, Evaluator, Ite, Obj, Tup, Unknown,
                  contains_unknown, mk_not, same, show, simp_bool, subst_bool,
                  sym, truthy)


def evaluator(ctx, **kw):
    return Evaluator(ctx.model, **kw)


def pixq(ctx, name='q'):
    return Obj('PixCoord', {}, name, ctx.model.cls('PixCoord'))


def inc_atom(path='self.meta'):
    """truthiness of <obj>.meta.get('include', True)"""
    return truthy(App('meta.get', (Obj('RegionMeta', {}, path), Const('include'), Const(True))))


def split_include(term, inc):
    """(V, W): the term with INC:=True and INC:=False."""
    v = subst_bool(term, inc, True)
    w = subst_bool(term, inc, False)
    return v, w


def is_negation(w, v):
    """w == not v structurally (after normalising double negation / ite)."""
    if same(w, mk_not(v)):
        return True
    if isinstance(v, Const) and isinstance(w, Const):
        return bool(w.v) == (not bool(v.v))
    if isinstance(w, Ite) and isinstance(v, Ite) and same(w.cond, v.cond):
        return is_negation(w.a, v.a) and is_negation(w.b, v.b)
    if isinstance(w, BoolT) and w.op == 'not' and isinstance(w.args[0], Ite) and isinstance(v, Ite):
        return same(w.args[0], v)
    if isinstance(w, BoolT) and w.op == 'xor' and len(w.args) == 2:
        # V xor True
        a, b = w.args
        if isinstance(b, Const) and b.v is True:
            return same(a, v)
    return False


def mentions(term, sub):
    from ..vg import contains_term
    return contains_term(term, sub)


def need_known(ctx, term, construct):
    u = contains_unknown(term)
    if u is not None:
        raise AnalysisError(f'{ctx.prop}.{ctx._rule}', construct,
                            f'value not understood by the translator: {u.why}')


def method_or_fail(ctx, ci, name):
    f = ctx.model.method(ci, name)
    ctx.need(f is not None, f'{ci.name}.{name}', 'method not found (anchor vanished)')
    return f


def conj_list(t):
    if isinstance(t, BoolT) and t.op == 'and':
        out = []
        for a in t.args:
            out += conj_list(a)
        return out
    return [t]
