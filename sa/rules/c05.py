"""C05 — applying a mask to an image is exact placement at the bounding box."""
import ast

import sympy as sp

from ..astutil import names_in, norm, stmts_of
from ..cfg import CFG
from ..report import RuleDef
from ..src import AnalysisError
from ..vg import (App, BoolT, Cmp, Const, Evaluator, Ite, Obj, Tup, same, show, sym)
from .c01 import _find_apps
from .common import evaluator, method_or_fail

EXPLANATION = (
    'Decides from source: (R1) the overlap windows are (max(min,0):min(max,S)) in image coordinates and the same '
    'window shifted by the box origin in mask coordinates, y before x (shared with C19.R5) — hence equal shapes and '
    'no negative (wrapping) index; (R2) to_image writes mask[small] into zeros[large]; cutout reads data[large] into '
    'fill[small]; RegionMask.get_overlap_slices is the box\'s; (R3) in to_image/cutout/multiply/_get_overlap_cutouts/'
    'get_values the None test dominates every use of the windows and the no-overlap exits return None (empty array for '
    'get_values); (R4) no statement of mask.py writes through the image or user mask parameters, including through '
    'the view cutout(copy=False) may return; (R5) multiply zeroes with the mask\'s own data==0 map and get_values '
    'selects weights>0 & ~mask[large]. Not decided: dtype promotion, fill-value/Quantity interaction (numpy/astropy).')
EXPLANATION_ADDED = (" Also (R2): the full-overlap shortcut of cutout is taken exactly when the small window has the mask's shape (stop-start of axis 0 and of axis 1); (R6) the mask operations read the current weight array and box only, no value derived once in the constructor.")
EXPLANATION += EXPLANATION_ADDED
EXPLANATION_ADDED2 = (" (R1 also) the image shape handed to get_overlap_slices is converted to Python integers before the slice arithmetic (C19.R8's shape clause): 'never a wrapped-around slice' also for a shape of numpy integer scalars.")
EXPLANATION += EXPLANATION_ADDED2
TRUSTED = ['numpy basic slicing returns a view; arithmetic returns a new array', 'np.zeros, np.copy']
ASSUMPTIONS = ['external numpy calls are pure']


def r1(ctx):
    from .c19 import r5 as c19r5, shape_clause
    c19r5(ctx)
    shape_clause(ctx)       # "never a wrapped-around slice": also for an image shape given as numpy integer scalars


def _mask_self(ctx, ev):
    ci = ctx.model.cls('RegionMask')
    return ci, ev.symbolic_instance(ci)


def r2(ctx):
    ev = evaluator(ctx)
    ci, s = _mask_self(ctx, ev)
    g = method_or_fail(ctx, ci, 'get_overlap_slices')
    src = norm(g.node.body[-1]).replace(' ', '')
    if src == 'returnself.bbox.get_overlap_slices(shape)':
        ctx.ok('RegionMask.get_overlap_slices', 'delegates to the bounding box with the same shape')
    else:
        ctx.bad('RegionMask.get_overlap_slices', 'delegation', f'is `{src}`', g.loc())
    # to_image
    f = method_or_fail(ctx, ci, 'to_image')
    shape = Tup((sym('S0'), sym('S1')))
    out = ev.run(f, [s, shape], {})
    slc = None
    img_ok = False
    for pc, v in out.returns:
        if isinstance(v, App) and v.name == 'setitem':
            base, key, val = v.args
            large_ok = isinstance(key, App) and key.name == 'getitem' and key.args[1] == 0
            small_ok = isinstance(val, App) and val.name == 'getitem' and 'attr:data(self)' in show(val.args[0]) \
                and isinstance(val.args[1], App) and val.args[1].name == 'getitem' and val.args[1].args[1] == 1 \
                and same(val.args[1].args[0], key.args[0])
            zeros = isinstance(base, App) and base.name.endswith('zeros') and same(base.args[0], shape)
            img_ok = large_ok and small_ok and zeros
            detail = show(v, 400)
    if img_ok:
        ctx.ok('RegionMask.to_image', 'zeros(shape)[large] = data[small]')
    else:
        ctx.bad('RegionMask.to_image', 'roles',
                'to_image does not place mask[small window] into a zero image at [large window]: '
                + show([v for _, v in out.returns], 400), f.loc())
    # cutout
    f = method_or_fail(ctx, ci, 'cutout')
    data = Obj('ndarray', {}, 'data')
    out = ev.run(f, [s, data], {'fill_value': sym('fill'), 'copy': Const(False)})
    vals = [v for _, v in out.returns if not (isinstance(v, Const) and v.v is None)]
    full = [v for v in vals if isinstance(v, App) and v.name == 'getitem']
    part = [v for v in vals if isinstance(v, (App, Ite)) and v not in full]
    okf = len(full) == 1 and isinstance(full[0].args[1], App) and full[0].args[1].args[1] == 0 \
        and 'data' in show(full[0].args[0])
    okp = False
    for v in part:
        for st in _find_apps(v, 'setitem'):
            base, key, val = st.args
            if isinstance(key, App) and key.name == 'getitem' and key.args[1] == 1 and \
                    isinstance(val, App) and val.name == 'getitem' and isinstance(val.args[1], App) and \
                    val.args[1].args[1] == 0 and 'data' in show(val.args[0]):
                # the destination was filled with fill_value first
                if any(same(x.args[2], sym('fill')) and x is not st for x in _find_apps(base, 'setitem')
                       if len(x.args) == 3):
                    okp = True
    # the full-overlap shortcut (a view of the data, no fill) is taken exactly when the small window has the mask's
    # shape: (small[0].stop - small[0].start, small[1].stop - small[1].start) == shape
    shortcut = None
    for pc, v in out.returns:
        if full and v is full[0]:
            def eqform(c):
                if isinstance(c, BoolT) and c.op == 'not' and len(c.args) == 1 and isinstance(c.args[0], Cmp) and c.args[0].op == '!=':
                    return Cmp('==', c.args[0].lhs, c.args[0].rhs)       # not (a != b)
                return c
            conds = [c for c in map(eqform, pc) if isinstance(c, Cmp) and c.op == '==' and (isinstance(c.lhs, Tup) or isinstance(c.rhs, Tup))]
            if len(conds) != 1:
                raise AnalysisError('C05.R2', 'RegionMask.cutout', 'condition of the full-overlap shortcut not recognised: '
                                    + show(list(pc), 300))
            c = conds[0]
            tup, other = (c.lhs, c.rhs) if isinstance(c.lhs, Tup) else (c.rhs, c.lhs)
            ext = []
            for it in tup.items:
                if not (isinstance(it, App) and it.name == 'binop:Sub' and all(isinstance(x, App) for x in it.args)
                        and it.args[0].name == 'attr:stop' and it.args[1].name == 'attr:start'):
                    raise AnalysisError('C05.R2', 'RegionMask.cutout', f'window extent term not recognised: {show(it, 200)}')
                ext.append((it.args[0].args[0], it.args[1].args[0]))
            small = full[0].args[1].args[0]           # the pair of windows; [1] is the small one

            def axis(t):
                return int(t.args[1]) if isinstance(t, App) and t.name == 'getitem' and isinstance(t.args[0], App) \
                    and t.args[0].name == 'getitem' and same(t.args[0].args[0], small) and t.args[0].args[1] == 1 \
                    and t.args[1] in (0, 1) else None
            got = [(axis(a), axis(b)) for a, b in ext]
            shortcut = got == [(0, 0), (1, 1)] and 'shape' in show(other) and 'self' in show(other)
            if not shortcut:
                shortcut_msg = (f'the full-overlap shortcut of cutout is taken when {show(c, 300)}: the extents compared with the '
                                f'mask shape are (stop, start) of small-window axes {got}, not [(0, 0), (1, 1)] — a partial '
                                'overlap can be returned as a smaller array without fill values')
    if okf and shortcut is False:
        ctx.bad('RegionMask.cutout', 'shortcut-condition', shortcut_msg, f.loc())
    elif okf and okp:
        ctx.ok('RegionMask.cutout', 'inside: data[large]; partial: fill[small] = data[large]')
    else:
        ctx.bad('RegionMask.cutout', 'roles',
                f'cutout windows/roles deviate (full-overlap ok: {okf}, partial ok: {okp}): ' + show(vals, 500), f.loc())


GUARDED = {'to_image': ('slices_small', 'None'), 'cutout': ('slices_small', 'None'),
           'multiply': ('cutout', 'None'), '_get_overlap_cutouts': ('slc_large', 'None'),
           'get_values': ('slc_large', 'empty')}


def r3(ctx):
    ci = ctx.model.cls('RegionMask')
    for name in ('to_image', 'cutout', 'multiply', '_get_overlap_cutouts', 'get_values'):
        f = method_or_fail(ctx, ci, name)
        fn = f.node
        construct = f'RegionMask.{name}'
        # variables bound from the overlap computation
        srcvars = set()
        for st in stmts_of(fn):
            if isinstance(st, ast.Assign) and isinstance(st.value, ast.Call):
                cn = norm(st.value.func)
                if cn.endswith(('get_overlap_slices', '_get_overlap_cutouts')) or cn == 'self.cutout':
                    srcvars |= names_in(st.targets[0])
        ctx.need(srcvars, construct, 'no overlap computation found')
        cfg = CFG(fn, exceptions=False)
        guards = []
        for i, st in cfg.stmt.items():
            if cfg.kind[i] == 'test' and isinstance(st.test, ast.Compare) and \
                    isinstance(st.test.ops[0], ast.Is) and isinstance(st.test.left, ast.Name) and \
                    st.test.left.id in srcvars and norm(st.test.comparators[0]) == 'None' and \
                    st.body and isinstance(st.body[-1], ast.Return):
                guards.append((i, st))
        uses = []
        for i, st in cfg.stmt.items():
            if cfg.kind[i] != 'stmt':
                continue
            for n in ast.walk(st):
                if isinstance(n, ast.Subscript) and (names_in(n.slice) & srcvars or (
                        isinstance(n.value, ast.Name) and n.value.id in srcvars)):
                    uses.append(i)
                elif isinstance(n, ast.BinOp) and names_in(n) & srcvars:
                    uses.append(i)
        if not guards:
            ctx.bad(construct, 'no-overlap-guard',
                    f'no `if <{"/".join(sorted(srcvars))}> is None: return ...` guard: a missing overlap would be '
                    'used as an index (TypeError) instead of returning None', f.loc())
            continue
        gi, gst = guards[0]
        ret = gst.body[-1].value
        rtxt = norm(ret) if ret is not None else 'None'
        want_empty = name == 'get_values'
        ret_ok = ('array([])' in rtxt.replace('np.', '')) if want_empty else all(
            p.strip() == 'None' for p in rtxt.strip('()').split(','))
        dom = cfg.must_pass(uses, [gi]) if uses else True
        # uses must be on the false side: guard body ends in return, so passing the test suffices
        if dom and ret_ok:
            ctx.ok(construct, f'None test dominates {len(uses)} window uses; no-overlap exit returns {rtxt}')
        else:
            ctx.bad(construct, 'no-overlap-discipline',
                    f'None test does not dominate every use of the windows ({dom}) or the no-overlap exit returns '
                    f'`{rtxt}`', f.loc(gst))


def r5(ctx):
    ev = evaluator(ctx)
    ci, s = _mask_self(ctx, ev)
    # _mask is data == 0
    init = method_or_fail(ctx, ci, '__init__')
    o = Obj('RegionMask', {}, None, ci)
    box = Obj('RegionBoundingBox', {}, 'bbox', ctx.model.cls('RegionBoundingBox'))
    ev.run(init, [o, Obj('ndarray', {}, 'data0'), box], {})
    mk = o.fields.get('_mask')
    ok_mask = isinstance(mk, Cmp) and mk.op == '==' and mk.rhs == 0 and same(mk.lhs, o.fields.get('data'))
    f = method_or_fail(ctx, ci, 'multiply')
    out = ev.run(f, [s, Obj('ndarray', {}, 'data')], {'fill_value': sym('fill')})
    vals = [v for _, v in out.returns if not (isinstance(v, Const) and v.v is None)]
    ok_mul = False
    for v in vals:
        for st in _find_apps(v, 'setitem'):
            base, key, val = st.args
            via_attr = 'attr:_mask(self)' in show(key) and ok_mask
            direct = isinstance(key, Cmp) and key.op == '==' and key.rhs == 0 and show(key.lhs) == 'attr:data(self)'
            if (via_attr or direct) and same(val, sym('fill')) and \
                    'binop:Mult' in show(base) and 'attr:data(self)' in show(base):
                ok_mul = True
    if ok_mul:
        ctx.ok('RegionMask.multiply', 'cutout*data, then [data==0] = fill_value')
    else:
        ctx.bad('RegionMask.multiply', 'zero-map',
                f'multiply does not zero with the mask\'s own data==0 map (mask map ok: {ok_mask}, store ok: {ok_mul}): '
                + show(vals, 400), f.loc())
    f = method_or_fail(ctx, ci, 'get_values')
    data = Obj('ndarray', {}, 'data')
    um = Obj('ndarray', {}, 'umask')
    out = ev.run(f, [s, data], {'mask': um})
    vals = [v for _, v in out.returns]
    txt = show(vals, 2000)
    sel = [v for v in vals if isinstance(v, App) and v.name == 'getitem']
    ok = False
    if sel:
        prod, pm = sel[-1].args
        ps = show(prod, 800)
        ms = show(pm, 800)
        ok = 'getitem(data, getitem(' in ps and 'binop:Mult' in ps and \
            ms.startswith('bitand((0 < getitem(attr:data(self)') and 'invert(getitem(umask' in ms
    if ok:
        ctx.ok('RegionMask.get_values', '(data[large]*weights)[weights>0 & ~mask[large]]')
    else:
        ctx.bad('RegionMask.get_values', 'selection',
                'get_values does not select exactly the positive-weight, not-user-masked pixels: ' + txt[:500], f.loc())


def r4(ctx):
    """Input image untouched: decided by the effect analysis (FX) restricted to mask.py."""
    from ..fx import analyse_module_params
    res = analyse_module_params(ctx.model, 'regions.core.mask', 'RegionMask',
                                protect={'data', 'mask', 'shape', 'fill_value'})
    for meth, writes in sorted(res.items()):
        if writes:
            w = writes[0]
            ctx.bad(f'RegionMask.{meth}', 'writes-input',
                    f'`{w["stmt"]}` may write through parameter `{w["param"]}` (via {w["via"]}): the caller\'s '
                    'array would be modified', f'regions/core/mask.py:RegionMask.{meth}:{w["line"]}')
        else:
            ctx.ok(f'RegionMask.{meth}', 'no store reaches the image / mask parameters')


def r6(ctx):
    """the mask operations are functions of the mask's *current* weight array and box: every attribute of `self` they read
    is a constructor parameter (data, bbox), a property/method, or a class constant — not a value derived once in the
    constructor, which goes stale when the weight array is edited in place (`mask.data[...] = ...`)."""
    import ast as _ast
    m = ctx.model
    ci = m.cls('RegionMask')
    init = method_or_fail(ctx, ci, '__init__')
    params = {a.arg for a in init.node.args.args if a.arg != 'self'}
    derived = {}
    for st in _ast.walk(init.node):
        if isinstance(st, _ast.Assign):
            for t in st.targets:
                if isinstance(t, _ast.Attribute) and isinstance(t.value, _ast.Name) and t.value.id == 'self' and t.attr not in params:
                    derived[t.attr] = st
    ctx.need(params >= {'data', 'bbox'}, init.qualname, f'constructor parameters are {sorted(params)}')
    n = 0
    for name, f in sorted(ci.methods.items()):
        if name == '__init__':
            continue
        n += 1
        reads = sorted({x.attr for x in _ast.walk(f.node) if isinstance(x, _ast.Attribute) and isinstance(x.value, _ast.Name)
                        and x.value.id == 'self' and isinstance(x.ctx, _ast.Load) and x.attr in derived})
        if reads:
            a = reads[0]
            ctx.bad(f'RegionMask.{name}', f'stale-derived:{a}',
                    f'RegionMask.{name} reads self.{a}, computed once by the constructor (`{_ast.unparse(derived[a])[:60]}`): after the '
                    'weight array is edited in place the result no longer is what placing the current mask array implies',
                    f.loc())
        else:
            ctx.ok(f'RegionMask.{name}', 'reads the current data / bbox (and properties of them) only')
    ctx.need(n >= 6, 'RegionMask', f'only {n} methods')


RULES = [
    RuleDef('R1', 'window consistency (clip, shift by origin, y before x)', r1, 2),
    RuleDef('R2', 'window roles in to_image / cutout', r2, 3),
    RuleDef('R3', 'None test dominates window uses; no-overlap exits', r3, 5),
    RuleDef('R4', 'input image / mask never written', r4, 5),
    RuleDef('R5', 'multiply zero-map and get_values selection', r5, 2),
    RuleDef('R6', 'mask operations read the current weight array (no constructor-time derived state)', r6, 6),
]
