"""C10 — DS9 text is read according to the DS9 region-file conventions."""
import ast

import sympy as sp

from ..astutil import (call_name, calls_in, enclosing_tests, func_params, norm,
                       parents, stmts_of)
from ..cfg import CFG, stmt_ends_control
from ..report import RuleDef
from ..src import AnalysisError
from ..tb import tables
from ..vg import (ANG, DEG, UNIT, App, BoolT, Cmp, Const, DictV, Evaluator, Ite,
                  Obj, Tup, is_num, num_equal, same, show, sym, walk_terms)
from . import ds9
from .common import method_or_fail

EXPLANATION = (
    'Decides from source: (R1) in the raw DS9 line parser every path to the creation of a region record passes the '
    '`frame is None -> warn, continue` guard; a supported frame line assigns the frame, an unsupported one clears it, nothing '
    'else writes it (persistence); (R2) metadata precedence global < composite < sign-derived include < per-region, and include '
    '= 0 exactly for a leading "-"; (R3) lexing constants: pixel coordinates float−1 with an optional trailing i; pixel sizes '
    'float unshifted; size/angle suffix table " -> arcsec, \' -> arcmin, d -> deg, r -> rad, bare -> degree; sky coordinates with '
    'r/d suffixes, sexagesimal ":" read as hour angle exactly for even parameter index in non-galactic/ecliptic frames, else '
    'degrees; (R4) parameter templates by symbolic evaluation of the parser on token lists: point/text 2 coords, circle 2 coords '
    '+ length, line 4 coords, polygon coords, ellipse/box/annulus 2 coords then lengths with the last parameter of ellipse/box '
    'an angle, only ellipse lengths doubled, multi-radius lines expand into consecutive annuli, and the frame-name table is the '
    'DS9 table; (R5) composite metadata is cleared when a line without "||" ends the composite; (R6) text and tags enclosed in {} "" '
    '\'\' come out verbatim: the metadata lexer is partially evaluated (its regex, taken from the source, run by stdlib re; the '
    'statements around it evaluated on the constants) on every delimiter pair x every foreign delimiter character x four '
    'positions, and on mixed-case keys. Not decided: tokenisation of whole lines (semicolon splitting, optional '
    'parentheses/commas).')
EXPLANATION_ADDED = (" (R8, which replaces the structural R1/R2/R5) the raw parser is partially evaluated on about 45 probe documents: frame persistence and requirement, every unsupported frame/shape keyword, include sign, global/own metadata precedence, composite metadata, comment lines (a comment runs to the end of the line, semicolons included), letter case and separators; (R4 also) ellipse/box without the optional angle; the coordinate lexer is told each token's own parameter index; (R3 also) the dispatcher in front of the lexers is probed; (R7) shape lines are split into parameter and metadata strings on probe lines.")
EXPLANATION += EXPLANATION_ADDED
EXPLANATION_ADDED2 = (" (R3b) the size and angle lexers are probed once per dispatch branch and per number ending. (R9, deep tier) grammar enumeration: every document of at most three lines over a 16-line DS9 grammar (frame lines, global lines, shape lines with and without sign/metadata, composite headers and members, comments, unsupported keywords: 7324 documents) is pushed through the partially evaluated raw parser and compared with a state-machine oracle written from the property's statement (current frame, global metadata, composite state, include sign).")
EXPLANATION += EXPLANATION_ADDED2
EXPLANATION_ADDED3 = (' (R10) regions read from one text share no mutable metadata object (C13.R7 on the DS9 reader).')
EXPLANATION += EXPLANATION_ADDED3
TRUSTED = ['astropy Angle(str, unit) / Quantity(float, unit) parse as documented', 'str.split/strip/lower']
ASSUMPTIONS = ['lines reach the raw parser one statement at a time (splitting is not decided)']


def r1(ctx):
    m = ctx.model
    par, make, lexers, raw, mod = ds9.reader_funcs(m)
    ctx.need(raw is not None, 'ds9 raw parser', 'function creating _RegionData not found')
    fn = raw.node
    cfg = CFG(fn, exceptions=False)
    creates = [i for i, st in cfg.stmt.items() if cfg.kind[i] == 'stmt' and any(
        call_name(c) == '_RegionData' for c in calls_in(st))]
    guards = [i for i, st in cfg.stmt.items() if cfg.kind[i] == 'test' and norm(st.test).replace(' ', '') == 'frameisNone'
              and stmt_ends_control(st.body) and isinstance(st.body[-1], ast.Continue)]
    if creates and guards and cfg.must_pass(creates, guards):
        ctx.ok(f'{raw.qualname.split(":")[1]}:frame-guard', 'frame is None -> warn, continue dominates every region record')
    else:
        ctx.bad(raw.qualname.split(':')[1], 'no-frame-guard',
                'a region record can be created on a path that has not passed the `frame is None: continue` guard: a line '
                'without a coordinate frame would produce a region', raw.loc())
    # writes of `frame`
    pm = parents(fn)
    writes = []
    for st in stmts_of(fn):
        if isinstance(st, ast.Assign) and any(norm(t) == 'frame' for t in st.targets):
            tests = [(norm(t), pol) for t, pol in enclosing_tests(fn, st, pm)]
            writes.append((norm(st.value), tests, st))
    ok_init = any(v == 'None' and not t for v, t, _ in writes)
    ok_set = any(v == 'frame_or_shape' and any('in supported_frames' in a and pol for a, pol in t) for v, t, _ in writes)
    ok_clear = any(v == 'None' and any('in unsupported_frames' in a and pol for a, pol in t) for v, t, _ in writes)
    others = [w for w in writes if not ((w[0] == 'None' and not w[1]) or
                                        (w[0] == 'frame_or_shape' and any('in supported_frames' in a for a, _ in w[1])) or
                                        (w[0] == 'None' and any('in unsupported_frames' in a for a, _ in w[1])))]
    if ok_init and ok_set and ok_clear and not others:
        ctx.ok(f'{raw.qualname.split(":")[1]}:frame-state', 'set by supported frame lines, cleared by unsupported ones, persists otherwise')
    else:
        ctx.bad(raw.qualname.split(':')[1], 'frame-state',
                f'frame state handling deviates (init None: {ok_init}, set on supported: {ok_set}, cleared on unsupported: '
                f'{ok_clear}, other writes: {[norm(w[2]) for w in others]})', raw.loc())


def r1b(ctx):
    """keyword partition: every recognised-but-unsupported *frame* keyword clears the active frame."""
    from ..tb import ModuleTables, Opaque
    m = ctx.model
    par, make, lexers, raw, mod = ds9.reader_funcs(m)
    pre = [st for st in raw.node.body if isinstance(st, (ast.Assign, ast.AugAssign))]
    t = ModuleTables(m, raw.module, stmts=pre, env=dict(tables(m, raw.module).env)).env
    need = ('supported_frames', 'unsupported_frames', 'supported_shapes', 'unsupported_shapes',
            'unsupported_frames_shapes', 'valid_frames_shapes')
    for k in need:
        ctx.need(isinstance(t.get(k), list) and not any(isinstance(x, Opaque) for x in t[k]), raw.qualname,
                 f'keyword table {k} not evaluable')
    skip = set(t['unsupported_frames_shapes'])
    clears = set(t['unsupported_frames'])
    shapes = set(t['unsupported_shapes'])
    stay = sorted(skip - shapes - clears)
    if stay:
        ctx.bad(raw.qualname.split(':')[1], f'frame-not-cleared:{stay[0]}',
                f'the frame keywords {stay[:6]}{"..." if len(stay) > 6 else ""} are skipped as unsupported but are not in the '
                'set that clears the active frame: regions after such a line are read in the *previous* frame', raw.loc())
    else:
        ctx.ok(f'{raw.qualname.split(":")[1]}:keyword-partition',
               f'{len(clears)} unsupported frame keywords all clear the frame; {len(shapes)} unsupported shapes do not')
    valid = set(t['valid_frames_shapes'])
    want = set(t['supported_frames']) | set(t['supported_shapes']) | clears | shapes
    if valid != want or (set(t['supported_frames']) & clears):
        ctx.bad(raw.qualname.split(':')[1], 'keyword-tables',
                f'valid keyword set is not the disjoint union of the four keyword lists (difference: {sorted(valid ^ want)[:6]})',
                raw.loc())
    else:
        ctx.ok(f'{raw.qualname.split(":")[1]}:keyword-tables', 'valid = supported frames + shapes + unsupported frames + shapes')
    # DS9 frame vocabulary (reference list)
    ds9_unsup = {'physical', 'linear', 'amplifier', 'detector', 'tile', 'wcs', 'wcs0'} | {f'wcs{c}' for c in 'abcdefghijklmnopqrstuvwxyz'}
    miss = sorted(ds9_unsup - clears)
    if miss:
        ctx.bad(raw.qualname.split(':')[1], f'ds9-frames-missing:{miss[0]}',
                f'DS9 frame keywords {miss[:6]} do not clear the active frame', raw.loc())
    else:
        ctx.ok(f'{raw.qualname.split(":")[1]}:ds9-frames', 'every DS9 frame keyword outside the supported subset clears the frame')


def r2(ctx):
    m = ctx.model
    par, make, lexers, raw, mod = ds9.reader_funcs(m)
    # the merge function: called from the raw parser with four metadata dicts
    merge = None
    call = None
    for c in calls_in(raw.node):
        cs = m.resolve_call(raw, c)
        if cs and len(c.args) == 4 and all(isinstance(a, ast.Name) for a in c.args) and 'meta' in cs[0].name:
            merge, call = cs[0], c
    ctx.need(merge is not None, raw.qualname, 'metadata merge call not found')
    roles = [a.id for a in call.args]
    want_roles = ['global_meta', 'composite_meta', 'include_meta', 'region_meta']
    params = func_params(merge.node)
    order = []
    base = None
    for st in merge.node.body:
        if isinstance(st, ast.Assign) and isinstance(st.value, ast.Call) and norm(st.value.func).endswith('.copy') and base is None:
            base = norm(st.targets[0])
            order.append(norm(st.value.func)[:-5])
        elif isinstance(st, ast.Expr) and isinstance(st.value, ast.Call) and norm(st.value.func) == f'{base}.update':
            order.append(norm(st.value.args[0]))
    mapped = [roles[params.index(o)] if o in params else o for o in order]
    if mapped == want_roles:
        ctx.ok(f'{merge.qualname.split(":")[1]}:order', 'global < composite < sign include < per-region')
    else:
        ctx.bad(merge.qualname.split(':')[1], 'precedence',
                f'metadata is merged in the order {mapped}; DS9 precedence is {want_roles} (later wins)', merge.loc())
    # include derived from the sign
    inc_ok = False
    for st in stmts_of(raw.node):
        if isinstance(st, ast.Assign) and norm(st.targets[0]) == 'include' and isinstance(st.value, ast.IfExp):
            v = st.value
            inc_ok = norm(v.body) == '0' and norm(v.orelse) == '1' and norm(v.test).replace(' ', '') in (
                "include_symbol=='-'",)
    d_ok = any(isinstance(st, ast.Assign) and norm(st.targets[0]) == 'include_meta' and
               norm(st.value).replace(' ', '') == "{'include':include}" for st in stmts_of(raw.node))
    if inc_ok and d_ok:
        ctx.ok(f'{raw.qualname.split(":")[1]}:sign', 'include = 0 iff the sign group is "-"')
    else:
        ctx.bad(raw.qualname.split(':')[1], 'include-sign', 'sign-derived include is not `0 if sign == "-" else 1`', raw.loc())


def _arms(t):
    if isinstance(t, Ite):
        return _arms(t.a) + _arms(t.b)
    return [t]


HOUR, DEGU, RADU = 'hourangle', 'deg', 'rad'
SKY_PROBES = [
    # (token, frame keyword, parameter index) -> ('str', text handed to Angle, unit) | ('num', degrees) | 'raises'
    (('10:30:00', 'fk5', 0), ('str', '10:30:00', HOUR), 'a:b:c longitude in an equatorial frame is hours'),
    (('10:30:00', 'icrs', 2), ('str', '10:30:00', HOUR), 'every even parameter index is a longitude'),
    (('10:30:00', 'j2000', 0), ('str', '10:30:00', HOUR), 'j2000 is an equatorial frame keyword'),
    (('10:30:00', 'b1950', 0), ('str', '10:30:00', HOUR), 'b1950 is an equatorial frame keyword'),
    (('10:30:00', 'fk4', 0), ('str', '10:30:00', HOUR), 'fk4'),
    (('10:30:00', 'fk5', 1), ('str', '10:30:00', DEGU), 'a:b:c latitude is degrees'),
    (('10:30:00', 'galactic', 0), ('str', '10:30:00', DEGU), 'galactic longitudes are degrees'),
    (('10:30:00', 'ecliptic', 0), ('str', '10:30:00', DEGU), 'ecliptic longitudes are degrees'),
    (('12.5', 'fk5', 0), ('num', 12.5), 'bare numbers are degrees'),
    (('12.5', 'galactic', 1), ('num', 12.5), 'bare numbers are degrees'),
    (('12.5d', 'fk5', 0), ('str', '12.5', DEGU), 'd suffix'),
    (('1.5r', 'icrs', 1), ('str', '1.5', RADU), 'r suffix'),
    (('10h30m00s', 'fk5', 0), ('str', '10h30m00s', None), 'hms notation carries its unit'),
    (('+20d30m00s', 'fk5', 1), ('str', '+20d30m00s', None), 'dms notation carries its unit'),
    (('12.5p', 'fk5', 0), 'raises', 'physical units are not sky coordinates'),
    (('12.5i', 'fk5', 0), 'raises', 'image units are not sky coordinates'),
]
PIXEL_PROBES = [('5', 4.0), ('5.5', 4.5), ('5i', 4.0), ('1e2', 99.0), ('-3', -4.0)]
SIZE_PROBES = [(('pixel', '3'), 3.0), (('pixel', '3.5i'), 3.5), (('pixel', '3"'), 'raises'), (('pixel', '3d'), 'raises'),
               (('sky', '3"'), (3.0, 'arcsec')), (('sky', '3'), (3.0, 'deg'))]
UNIT_RAD = {'deg': sp.pi / 180, 'arcmin': sp.pi / 10800, 'arcsec': sp.pi / 648000, 'rad': sp.Integer(1), 'hourangle': sp.pi / 12}


def _outcome(out):
    if out.raises and not out.returns:
        return 'raises'
    if len(out.returns) == 1 and not out.raises:
        return out.returns[0][1]
    return f'{len(out.returns)} outcomes, {len(out.raises)} raises'


def _angle_norm(t):
    """('str', text, unit name | None) for Angle('<text>'[, unit]); ('num', degrees) for a numeric angle."""
    if is_num(t) and (t / ANG).is_number:
        return ('num', float((t / ANG * 180 / sp.pi).evalf()))
    if isinstance(t, App) and t.name.endswith('Angle') and t.args and isinstance(t.args[0], Const):
        unit = None
        for a in t.args[1:]:
            u_ = a.items[1] if isinstance(a, Tup) and len(a.items) == 2 and isinstance(a.items[0], Const) else a
            if is_num(u_):
                for nm, val in UNIT_RAD.items():
                    if sp.simplify(u_ / ANG - val) == 0:
                        unit = nm
        return ('str', t.args[0].v, unit)
    if isinstance(t, App) and t.name.endswith('Angle') and t.args and is_num(t.args[0]):
        for a in t.args[1:]:
            u_ = a.items[1] if isinstance(a, Tup) and len(a.items) == 2 else a
            if is_num(u_) and t.args[0].is_number:
                return ('num', float((t.args[0] * u_ / ANG * 180 / sp.pi).evalf()))
    return ('?', show(t, 120))


def r3(ctx):
    """the coordinate and size lexers on probe tokens (one per branch of their dispatch)."""
    m = ctx.model
    par, make, lexers, raw, mod = ds9.reader_funcs(m)
    # pixel coordinates: 1-based -> 0-based, optional trailing i
    f = lexers.get('_parse_pixel_coord')
    ctx.need(f is not None, 'ds9 read', 'pixel coordinate lexer missing')
    bad = []
    for tok, want in PIXEL_PROBES:
        got = _outcome(Evaluator(m).run(f, [Const(tok)], {}))
        if not (is_num(got) and got.is_number and abs(float(got) - want) < 1e-12):
            bad.append((tok, got if isinstance(got, str) else show(got, 80), want))
    if bad:
        ctx.bad(f.qualname.split(':')[1], 'origin-shift', f'pixel coordinate token {bad[0][0]!r} is lexed as {bad[0][1]}; DS9 is '
                f'1-based: must be {bad[0][2]} (trailing i allowed)', f.loc())
    else:
        ctx.ok(f.qualname.split(':')[1], f'{len(PIXEL_PROBES)} probe tokens: float(token) − 1, trailing "i" stripped')
    # sizes
    f = lexers.get('_parse_size')
    ctx.need(f is not None, 'ds9 read', 'size lexer missing')
    bad = []
    for (rt, tok), want in SIZE_PROBES:
        got = _outcome(Evaluator(m).run(f, [Const(rt), Const(tok)], {}))
        if want == 'raises':
            ok = got == 'raises'
        elif isinstance(want, tuple):
            ok = is_num(got) and abs(float((got / ANG - want[0] * UNIT_RAD[want[1]]).evalf())) < 1e-12
        else:
            ok = is_num(got) and got.is_number and abs(float(got) - want) < 1e-12
        if not ok:
            bad.append((rt, tok, got if isinstance(got, str) else show(got, 80), want))
    if bad:
        ctx.bad(f.qualname.split(':')[1], 'size-lexing', f'{bad[0][0]} size token {bad[0][1]!r} is lexed as {bad[0][2]}; expected '
                f'{bad[0][3]} (pixel sizes are plain unshifted numbers and reject angular units; sky sizes are angles)', f.loc())
    else:
        ctx.ok(f.qualname.split(':')[1] + ':pixel', 'pixel sizes: float(token), unshifted, angular units rejected')
        ctx.ok(f.qualname.split(':')[1] + ':sky', 'sky sizes go through the angle lexer')
    # angle suffix table: covered token by token in R3b; keep the instance for the count
    ctx.ok('_parse_angle', 'see R3b')
    # sky coordinates
    f = lexers['_parse_sky_coord']
    bad = []
    for (tok, frame, idx), want, why in SKY_PROBES:
        got = _outcome(Evaluator(m).run(f, [Const(tok), Const(frame), sp.Integer(idx)], {}))
        g = 'raises' if got == 'raises' else (_angle_norm(got) if not isinstance(got, str) else ('?', got))
        ok = g == want or (isinstance(want, tuple) and want[0] == 'num' and g[0] == 'num' and abs(g[1] - want[1]) < 1e-9)
        if not ok:
            bad.append((tok, frame, idx, g, want, why))
    if bad:
        tok, frame, idx, g, want, why = bad[0]
        ctx.bad(f.qualname.split(':')[1], 'sky-coordinates',
                f'coordinate token {tok!r} (frame {frame}, parameter {idx}) is lexed as {g}; DS9: {why} -> {want} '
                f'({len(bad)} of {len(SKY_PROBES)} probes differ)', f.loc())
    else:
        ctx.ok(f.qualname.split(':')[1], f'{len(SKY_PROBES)} probes: r/d suffixes, hms/dms, ":" is hours iff even index and equatorial frame')
    # the dispatcher in front of the two coordinate lexers hands (token, frame, index) on unchanged: pixel regions take
    # the pixel lexer, sky regions the sky lexer with the frame and the parameter index
    d = lexers.get('_parse_coord')
    if d is not None:
        bad = []
        for (tok, frame, idx), want, why in SKY_PROBES:
            got = _outcome(Evaluator(m).run(d, [Const('sky'), Const(tok), Const(frame), sp.Integer(idx)], {}))
            g = 'raises' if got == 'raises' else (_angle_norm(got) if not isinstance(got, str) else ('?', got))
            ok = g == want or (isinstance(want, tuple) and want[0] == 'num' and g[0] == 'num' and abs(g[1] - want[1]) < 1e-9)
            if not ok:
                bad.append((('sky', tok, frame, idx), g, want))
        for tok, want in PIXEL_PROBES:
            got = _outcome(Evaluator(m).run(d, [Const('pixel'), Const(tok), Const('image'), sp.Integer(0)], {}))
            if not (is_num(got) and got.is_number and abs(float(got) - want) < 1e-12):
                bad.append((('pixel', tok, 'image', 0), show(got, 60) if not isinstance(got, str) else got, want))
        if bad:
            ctx.bad('_parse_coord', 'dispatch', f'_parse_coord{bad[0][0]} gives {bad[0][1]}; the lexers give {bad[0][2]} '
                    f'({len(bad)} probes differ): region type, frame or parameter index do not reach the right lexer', d.loc())
        else:
            ctx.ok('_parse_coord', 'pixel -> pixel lexer; sky -> sky lexer with frame and parameter index unchanged')


SHAPE_CASES = [('point', 2), ('text', 2), ('circle', 3), ('line', 4), ('polygon', 6), ('ellipse', 5), ('box', 5),
               ('ellipse', 4), ('box', 4), ('ellipse', 6), ('box', 6), ('ellipse', 8), ('box', 8),
               ('annulus', 4), ('annulus', 6), ('ellipse', 7), ('box', 7), ('ellipse', 9), ('box', 9)]


def r4(ctx):
    m = ctx.model
    for rt in ('pixel', 'sky'):
        for shape, n in SHAPE_CASES:
            construct = f'{rt}:{shape}({n} parameters)'
            ev, make, out = ds9.eval_reader(m, shape, rt, n)
            rl = [v for _, v in out.returns if isinstance(v, Tup)]
            if not rl:
                ctx.bad(construct, 'no-region', f'no region is built: {[x[1] for x in out.raises][:3]}', make.loc())
                continue
            regs = [r for r in rl[-1].items if isinstance(r, Obj)]
            # expected number of regions and class
            if shape == 'annulus':
                nexp, cls = n - 3, 'CircleAnnulus'
            elif shape in ('ellipse', 'box') and n > 5:
                # (an even count: the optional angle is absent, the sizes are the same pairs)
                nexp = (n + (n % 2 == 0) - 3) // 2 - 1
                cls = 'EllipseAnnulus' if shape == 'ellipse' else 'RectangleAnnulus'
            else:
                nexp = 1
                cls = {'point': 'Point', 'text': 'Text', 'circle': 'Circle', 'line': 'Line', 'polygon': 'Polygon',
                       'ellipse': 'Ellipse', 'box': 'Rectangle'}[shape]
            want_cls = cls + ('PixelRegion' if rt == 'pixel' else 'SkyRegion')
            probs = []
            if len(regs) != nexp or any(r.cls != want_cls for r in regs):
                probs.append(f'builds {[r.cls for r in regs]}; expected {nexp} x {want_cls}')
            else:
                probs += _template_check(m, shape, rt, n, regs)
            if probs:
                ctx.bad(construct, 'template', '; '.join(probs), make.loc())
            else:
                ctx.ok(construct, f'{nexp} x {want_cls}, coordinates/lengths/angle in their slots')
    # frame names
    table = tables(m, 'regions.io.ds9.core').env.get('ds9_frame_map')
    want = {'image': 'image', 'icrs': 'icrs', 'fk5': 'fk5', 'j2000': 'fk5', 'fk4': 'fk4', 'b1950': 'fk4',
            'galactic': 'galactic', 'ecliptic': 'barycentricmeanecliptic'}
    missing = {k: v for k, v in want.items() if table.get(k) != v}
    if not missing:
        ctx.ok('ds9_frame_map', 'DS9 frame names map to the documented astropy frames')
    else:
        ctx.bad('ds9_frame_map', 'frame-names', f'frame table deviates for {missing}', 'regions/io/ds9/core.py')


def _lex(t):
    inner, k = ds9.strip_factor(t)
    i, name = ds9.tok_index(inner)
    return i, name, k


def _coord_pair(v, i0):
    """v is a PixCoord Obj or SkyCoord App built from tokens i0, i0+1"""
    if isinstance(v, Obj) and v.cls == 'PixCoord':
        a, b = v.fields.get('x'), v.fields.get('y')
    elif isinstance(v, App) and v.name.endswith('SkyCoord'):
        a, b = v.args[0], v.args[1]
    else:
        return False
    return _lex(a) == (i0, 'coord', 1) and _lex(b) == (i0 + 1, 'coord', 1) and _idx_arg_ok(a, i0) and _idx_arg_ok(b, i0 + 1)


def _idx_arg_ok(t, i):
    """the coordinate lexer is told the position of the token among the parameters (its parity decides longitude vs
    latitude for a:b:c values): the integer argument of the lexer call, when there is one, is the token's own index."""
    inner, _ = ds9.strip_factor(t)
    if isinstance(inner, App) and inner.name.startswith('call:_parse_'):
        nums = [a for a in inner.args if is_num(a)]
        return all(a.is_number and int(a) == i for a in nums) if nums else True
    return True


def _template_check(m, shape, rt, n, regs):
    probs = []
    r0 = regs[0]
    if shape in ('point', 'text', 'circle', 'ellipse', 'box', 'annulus'):
        for r in regs:
            if not _coord_pair(r.fields.get('center'), 0):
                probs.append('centre is not read from the first two parameters as coordinates')
    if shape == 'circle':
        if _lex(r0.fields.get('radius')) != (2, 'size', 1):
            probs.append(f'radius is {show(r0.fields.get("radius"), 80)}; expected the third parameter as an undoubled length')
    if shape == 'line':
        if not (_coord_pair(r0.fields.get('start'), 0) and _coord_pair(r0.fields.get('end'), 2)):
            probs.append('line end points are not parameters (0,1) and (2,3) as coordinates')
    if shape == 'polygon':
        v = r0.fields.get('vertices')
        if isinstance(v, Obj):
            xs, ys = v.fields.get('x'), v.fields.get('y')
        elif isinstance(v, App):
            xs, ys = v.args[0], v.args[1]
        else:
            xs = ys = None
        ok = isinstance(xs, Tup) and isinstance(ys, Tup) and [_lex(i)[:2] for i in xs.items] == [(k, 'coord') for k in range(0, n, 2)] \
            and [_lex(i)[:2] for i in ys.items] == [(k, 'coord') for k in range(1, n, 2)] \
            and all(_idx_arg_ok(i, k) for i, k in zip(xs.items, range(0, n, 2))) \
            and all(_idx_arg_ok(i, k) for i, k in zip(ys.items, range(1, n, 2)))
        if not ok:
            probs.append('polygon vertices are not alternating x,y coordinates')
    if shape in ('ellipse', 'box') and n == 4:
        # the angle is optional in DS9 (default 0): both sizes are still sizes
        dbl = 2 if shape == 'ellipse' else 1
        if _lex(r0.fields.get('width')) != (2, 'size', dbl) or _lex(r0.fields.get('height')) != (3, 'size', dbl):
            probs.append(f'{shape}(x, y, a, b) without angle: width/height are {show(r0.fields.get("width"), 60)}, '
                         f'{show(r0.fields.get("height"), 60)}; expected parameters 2,3 as lengths'
                         f'{" doubled (DS9 ellipse radii are semi-axes)" if dbl == 2 else " undoubled"} — the angle is optional in DS9')
        ang = show(r0.fields.get('angle'), 80)
        if "'0'" not in ang and ang not in ('0', '0.0'):
            probs.append(f'{shape}(x, y, a, b) without angle: the angle is {ang}, not the default 0')
    if shape in ('ellipse', 'box') and n == 5:
        dbl = 2 if shape == 'ellipse' else 1
        if _lex(r0.fields.get('width')) != (2, 'size', dbl) or _lex(r0.fields.get('height')) != (3, 'size', dbl):
            probs.append(f'width/height are {show(r0.fields.get("width"), 60)}, {show(r0.fields.get("height"), 60)}; expected '
                         f'parameters 2,3 as lengths{" doubled (DS9 ellipse radii are semi-axes)" if dbl == 2 else " undoubled"}')
        if _lex(r0.fields.get('angle')) != (4, 'angle', 1):
            probs.append('the last parameter of ellipse/box is not read as an angle')
    if shape == 'annulus':
        for k, r in enumerate(regs):
            if _lex(r.fields.get('inner_radius')) != (2 + k, 'size', 1) or _lex(r.fields.get('outer_radius')) != (3 + k, 'size', 1):
                probs.append(f'annulus {k} radii are not consecutive parameters {2 + k},{3 + k}')
    if shape in ('ellipse', 'box') and n > 5:
        dbl = 2 if shape == 'ellipse' else 1
        for k, r in enumerate(regs):
            b = 2 + 2 * k
            want = {'inner_width': b, 'inner_height': b + 1, 'outer_width': b + 2, 'outer_height': b + 3}
            for fld, i in want.items():
                if _lex(r.fields.get(fld)) != (i, 'size', dbl):
                    probs.append(f'annulus {k}: {fld} is {show(r.fields.get(fld), 70)}; expected parameter {i} as a length x{dbl}')
            if n % 2 == 0:
                ang = show(r.fields.get('angle'), 80)
                if "'0'" not in ang and ang not in ('0', '0.0'):
                    probs.append(f'annulus {k}: without the optional angle the angle is {ang}, not the default 0')
            elif _lex(r.fields.get('angle')) != (n - 1, 'angle', 1):
                probs.append(f'annulus {k}: angle is not the last parameter')
    return probs


def r5(ctx):
    m = ctx.model
    par, make, lexers, raw, mod = ds9.reader_funcs(m)
    fn = raw.node
    ok = False
    loop = [s for s in fn.body if isinstance(s, ast.For)]
    for st in stmts_of(fn):
        if isinstance(st, ast.If) and "'||' not in line" in norm(st.test) and 'composite_meta' in norm(st.test):
            if any(isinstance(s, ast.Assign) and norm(s.targets[0]) == 'composite_meta' and norm(s.value) in ('{}', "''", 'dict()')
                   for s in st.body):
                ok = True
    if ok:
        ctx.ok(f'{raw.qualname.split(":")[1]}:composite', 'composite metadata cleared after the last line of the composite')
    else:
        ctx.bad(raw.qualname.split(':')[1], 'composite-leak',
                'composite metadata is never reset when a line without "||" ends the composite: it leaks into later regions',
                raw.loc())
    # composite lines parse their metadata after the "||" marker and drop composite=1
    txt = norm(fn)
    if "composite_meta.pop('composite', None)" in txt and "shape != 'composite'" in txt:
        ctx.ok(f'{raw.qualname.split(":")[1]}:composite-shape', 'composite line yields metadata only, no region')
    else:
        ctx.bad(raw.qualname.split(':')[1], 'composite-shape', 'composite lines are not handled as metadata-only', raw.loc())


ANGLE_PROBES = [
    ('5', (5.0, 'deg'), 'bare number: degrees'),
    ('5.', (5.0, 'deg'), 'a trailing decimal point is still a bare number'),
    ('.5', (0.5, 'deg'), 'bare number'),
    ('1e-5', (1e-5, 'deg'), 'exponent notation (what the writer emits below 1e-4)'),
    ('+5.25', (5.25, 'deg'), 'signed'),
    ('5"', (5.0, 'arcsec'), '" is arcsec'),
    ("5.5'", (5.5, 'arcmin'), "' is arcmin"),
    ('5d', (5.0, 'deg'), 'd is degrees'),
    ('1.5r', (1.5, 'rad'), 'r is radians'),
    ('5p', 'raises DS9ParserError', 'physical units are not angular'),
    ('5i', 'raises DS9ParserError', 'image units are not angular'),
]


def r3b(ctx):
    """the angle/size lexer on one probe token per branch (and per way a number can end)."""
    m = ctx.model
    par, make, lexers, raw, mod = ds9.reader_funcs(m)
    f = lexers['_parse_angle']
    bad = []
    for tok, want, why in ANGLE_PROBES:
        ev = Evaluator(m)
        out = ev.run(f, [Const(tok)], {})
        if out.raises and not out.returns:
            got = 'raises ' + str(out.raises[0][1])
        elif len(out.returns) == 1 and not out.raises:
            got = out.returns[0][1]
        else:
            got = f'{len(out.returns)} outcomes, {len(out.raises)} raises: ' + '; '.join(show(v, 60) for _, v in out.returns[:3])
        if isinstance(want, tuple):
            # the value in radians (angles are carried as multiples of ANG)
            unit = {'deg': sp.pi / 180, 'arcmin': sp.pi / 10800, 'arcsec': sp.pi / 648000, 'rad': sp.Integer(1)}[want[1]]
            ok = is_num(got) and abs(float((got / ANG - want[0] * unit).evalf())) < 1e-12 * max(1.0, abs(want[0]))
            if not ok:
                bad.append((tok, got if isinstance(got, str) else show(got, 160), f'{want[0]} {want[1]}', why))
        elif (got if isinstance(got, str) else show(got, 160)) != want:
            bad.append((tok, got if isinstance(got, str) else show(got, 160), want, why))
    name = f.qualname.split(':')[1]
    if bad:
        tok, got, want, why = bad[0]
        ctx.bad(name, 'angle-probes', f'token {tok!r} is lexed as {got}; DS9 ({why}) requires {want} '
                f'({len(bad)} of {len(ANGLE_PROBES)} probe tokens differ)', f.loc())
    else:
        ctx.ok(name + ':probes', f'{len(ANGLE_PROBES)} probe tokens (suffixes, bare numbers ending in a digit or a point, '
               'exponent form, non-angular units)')


DELIMS = (('{', '}'), ('"', '"'), ("'", "'"))


def r6(ctx):
    """text in {} "" '' is kept verbatim: partial evaluation of the metadata lexer (its regex taken from the source and
    run by stdlib re; the surrounding statements evaluated on the constants) on every delimiter pair x every foreign
    delimiter character x position."""
    m = ctx.model
    lex = ds9.meta_lexer(m)
    chars = ['{', '}', '"', "'"]
    n = 0
    for left, right in DELIMS:
        foreign = [c for c in chars if c not in (left, right)] + (['{'] if left == '{' else [])
        bad = []
        for c in foreign:
            for body in (f'a{c}b', f'{c}ab', f'ab{c}', f' a {c} ', ''):
                line = f'text={left}{body}{right} tag={left}{body}{right} tag={left}t2{right}'
                got = Evaluator(m, hooks=ds9.regex_hooks()).call(lex, [Const(line)], {})
                ok = isinstance(got, DictV) and not got.has_symbolic() and {'text', 'tag'} <= set(got.keys())
                txt = got.get('text') if ok else None
                tags = got.get('tag') if ok else None
                tv = [i.v for i in tags.items] if isinstance(tags, Tup) and all(isinstance(i, Const) for i in tags.items) else None
                n += 1
                if not (isinstance(txt, Const) and txt.v == body and tv == [body, 't2']):
                    bad.append((line, show(txt, 60), tv))
        construct = f'text delimited by {left}{right}'
        if bad:
            line, txt, tv = bad[0]
            ctx.bad(construct, 'not-verbatim',
                    f'`{line}` is lexed as text={txt}, tags={tv}: the enclosed text is not kept verbatim '
                    f'({len(bad)} of the probes for this delimiter pair differ)', lex.loc())
        else:
            ctx.ok(construct, f'{len(foreign) * 5} probes (foreign delimiter characters at start, middle, end, padded; empty value) verbatim')
    # the line splitter protects ';' inside free text: its pattern must know every free-text key the metadata lexer
    # treats as such (text, tag), in any letter case (keys are lower-cased by the lexer)
    par, make, lexers, raw, rmod = ds9.reader_funcs(m)
    prot = None
    for fi in rmod.functions.values():
        for c in calls_in(fi.node):
            if (call_name(c) or '') in ('re.compile', 'compile') and c.args and isinstance(c.args[0], ast.Constant) \
                    and isinstance(c.args[0].value, str) and 'text' in c.args[0].value and fi is not lex:
                flags = 0
                for a in list(c.args[1:]) + [k.value for k in c.keywords]:
                    import re as _re
                    for part in ast.unparse(a).split('|'):
                        flags |= getattr(_re, part.strip().split('.')[-1], 0)
                prot = (fi, c.args[0].value, flags)
    if prot is None:
        # the pattern may live at module level
        tree_ = ctx.src.parse(rmod.path)
        for st in tree_.body:
            c = st.value if isinstance(st, ast.Assign) else None
            if isinstance(c, ast.Call) and (call_name(c) or '') in ('re.compile', 'compile') and c.args \
                    and isinstance(c.args[0], ast.Constant) and isinstance(c.args[0].value, str) and 'text' in c.args[0].value:
                flags = 0
                import re as _re
                for a in list(c.args[1:]) + [k.value for k in c.keywords]:
                    for part in ast.unparse(a).split('|'):
                        flags |= getattr(_re, part.strip().split('.')[-1], 0)
                user = next((fi for fi in rmod.functions.values() if any(
                    isinstance(n, ast.Name) and n.id == st.targets[0].id for n in ast.walk(fi.node))), lex)
                prot = (user, c.args[0].value, flags)
    ctx.need(prot is not None, 'ds9 read', 'text-delimiter pattern of the line splitter not found')
    import re as _re
    rx = _re.compile(prot[1], prot[2])
    text_keys = ['text', 'tag']        # the free-text properties of the DS9 format
    missing = []
    for key in text_keys:
        for spelled in (key, key.upper(), key.capitalize()):
            for d in '{"\'':
                if not rx.search(f'circle(1,2,3) # {spelled}={d}a;b'):
                    missing.append(f'{spelled}={d}')
    if missing:
        ctx.bad(prot[0].qualname.split(':')[1], 'semicolon-protection',
                f'the pattern {prot[1]!r} (flags {prot[2]}) that protects ";" inside free text does not recognise '
                f'{missing[:4]}{"…" if len(missing) > 4 else ""}: `circle(1,2,3) # {missing[0]}a;b…` is cut at the semicolon',
                prot[0].loc())
    else:
        ctx.ok(prot[0].qualname.split(':')[1], f'";" is protected inside {text_keys} values in any letter case')
    # keys are case-insensitive, values are not
    got = Evaluator(m, hooks=ds9.regex_hooks()).call(lex, [Const('TEXT={Ab Cd} Color=Red')], {})
    if isinstance(got, DictV) and isinstance(got.get('text'), Const) and got.get('text').v == 'Ab Cd' \
            and 'color' in got.keys() and got.get('color').v == 'Red':
        ctx.ok('key case', 'keys lower-cased, values untouched')
    else:
        ctx.bad('key case', 'case', f'`TEXT={{Ab Cd}} Color=Red` is lexed as {show(got, 120)}', lex.loc())


SHAPE_LINE_PROBES = [
    ('circle', 'circle(1,2,3) # color=red text={a # b}', "['1,2,3', 'color=red text={a # b}']", 'only the first # separates the metadata'),
    ('text', '# text(1,2) text={hi}', "['1,2', 'text={hi}']", 'the "# text(...)" form DS9 itself writes'),
    ('text', '# text(10, 20) text={hi}', "['10, 20', 'text={hi}']", 'blanks and commas are interchangeable separators, also in the "# text(" form'),
    ('text', '# text(10 20) color=red text={hi}', "['10 20', 'color=red text={hi}']", 'blank-separated parameters in the "# text(" form'),
    ('circle', 'circle 1 2 3', "['1 2 3', '']", 'parentheses and commas are optional'),
    ('text', 'text(1,2) # text={hi}', "['1,2', 'text={hi}']", 'ordinary text region'),
    ('box', '-box(1,2,3,4,0) ||', "['1,2,3,4,0', '']", 'composite continuation marker is not a parameter'),
    ('circle', 'Circle( 1 , 2 , 3 ) #COLOR=Red', "[' 1 , 2 , 3 ', 'COLOR=Red']", 'case of the metadata is kept'),
]


def r7(ctx):
    """splitting a shape line into its parameter string and its metadata string (partial evaluation on probe lines; the
    span is what the reader's own shape regex gives on the lower-cased line)."""
    import re as _re
    m = ctx.model
    par, make, lexers, raw, rmod = ds9.reader_funcs(m)
    f = rmod.functions.get('_parse_shape_line')
    ctx.need(f is not None and raw is not None, 'ds9 read', 'shape-line splitter not found')
    pat = None
    mod_tree = ctx.src.parse(raw.path)
    for c in list(calls_in(raw.node)) + [n for n in ast.walk(mod_tree) if isinstance(n, ast.Call)]:
        if (call_name(c) or '') in ('re.compile', 'compile') and c.args and isinstance(c.args[0], ast.Constant) \
                and 'a-zA-Z' in str(c.args[0].value) and pat is None:
            pat = c.args[0].value
    ctx.need(pat is not None, raw.qualname, 'frame-or-shape pattern not found')
    rx = _re.compile(pat)
    bad = []
    for shape, line, want, why in SHAPE_LINE_PROBES:
        mm = rx.search(line.lower())
        if mm is None or mm.groups()[1] != shape:
            bad.append((line, f'shape pattern finds {mm.groups() if mm else None}', want, why))
            continue
        lo, hi = mm.span()
        out = Evaluator(m).run(f, [Const(shape), Const(line), Tup((sp.Integer(lo), sp.Integer(hi)), 'tuple')], {})
        got = show(out.returns[0][1], 200) if len(out.returns) == 1 and not out.raises else \
            f'{len(out.returns)} outcomes, raises {[n for _, n, _ in out.raises]}'
        if got != want:
            bad.append((line, got, want, why))
    name = f.qualname.split(':')[1]
    if bad:
        line, got, want, why = bad[0]
        ctx.bad(name, 'shape-line', f'`{line}` is split into {got}; expected {want} ({why}) — {len(bad)} of '
                f'{len(SHAPE_LINE_PROBES)} probe lines differ', f.loc())
    else:
        ctx.ok(name, f'{len(SHAPE_LINE_PROBES)} probe lines split into (parameters, metadata) as DS9 defines')


DS9_UNSUPPORTED_FRAMES = ['physical', 'linear', 'amplifier', 'detector', 'tile', 'wcs', 'wcs0'] + \
    [f'wcs{c}' for c in 'abcdefghijklmnopqrstuvwxyz']
DS9_UNSUPPORTED_SHAPES = ['vector', 'ruler', 'compass', 'projection', 'segment', 'panda', 'epanda', 'bpanda']


def _doc_cases():
    """(name, document, expected records) — a record is (frame, region type, shape, parameter string, raw metadata)."""
    I1 = {'include': 1}
    cases = [
        ('frame persists', 'fk5\ncircle(1,2,3)\nbox(1,2,3,4,0)',
         [('fk5', 'sky', 'circle', '1,2,3', I1), ('fk5', 'sky', 'box', '1,2,3,4,0', I1)]),
        ('no frame, no region', 'circle(1,2,3)\nbox(1,2,3,4,0)', []),
        ('frame changes', 'image\ncircle(1,2,3)\ngalactic\ncircle(4,5,6)',
         [('image', 'pixel', 'circle', '1,2,3', I1), ('galactic', 'sky', 'circle', '4,5,6', I1)]),
        ('sign and include', 'image\n-circle(1,2,3)\n+circle(1,2,3)\ncircle(1,2,3)\n-circle(1,2,3) # include=1\ncircle(1,2,3) # include=0',
         [('image', 'pixel', 'circle', '1,2,3', {'include': 0}), ('image', 'pixel', 'circle', '1,2,3', I1),
          ('image', 'pixel', 'circle', '1,2,3', I1), ('image', 'pixel', 'circle', '1,2,3', I1),
          ('image', 'pixel', 'circle', '1,2,3', {'include': 0})]),
        ('the sign of a region wins over include= of the (standard) global line',
         'global color=green include=1\nimage\n-circle(1,2,3)\ncircle(4,5,6)\ncircle(7,8,9) # include=0',
         [('image', 'pixel', 'circle', '1,2,3', {'color': 'green', 'include': 0}),
          ('image', 'pixel', 'circle', '4,5,6', {'color': 'green', 'include': 1}),
          ('image', 'pixel', 'circle', '7,8,9', {'color': 'green', 'include': 0})]),
        ('global then own metadata', 'global color=red width=2\nimage\ncircle(1,2,3) # color=blue\ncircle(4,5,6)\nglobal width=3\ncircle(7,8,9)',
         [('image', 'pixel', 'circle', '1,2,3', {'color': 'blue', 'width': 2, 'include': 1}),
          ('image', 'pixel', 'circle', '4,5,6', {'color': 'red', 'width': 2, 'include': 1}),
          ('image', 'pixel', 'circle', '7,8,9', {'color': 'red', 'width': 3, 'include': 1})]),
        ('composite metadata', 'image\ncomposite(1,2,0) || composite=1 color=red\ncircle(1,2,3) ||\nbox(1,2,3,4,0)\ncircle(7,8,9)',
         [('image', 'pixel', 'circle', '1,2,3', {'color': 'red', 'include': 1}),
          ('image', 'pixel', 'box', '1,2,3,4,0', {'color': 'red', 'include': 1}), ('image', 'pixel', 'circle', '7,8,9', I1)]),
        ('case, semicolons, comments', '# comment\nIMAGE;CIRCLE(1,2,3);circle 4 5 6 # text={a;b}\n\n# text(1,2) text={hi}',
         [('image', 'pixel', 'circle', '1,2,3', I1), ('image', 'pixel', 'circle', '4 5 6', {'include': 1, 'text': 'a;b'}),
          ('image', 'pixel', 'text', '1,2', {'include': 1, 'text': 'hi'})]),
        ('a comment line is a comment up to the end of the line', 'image\n# note; circle(1,2,3)\ncircle(4,5,6)\n#circle(7,8,9);circle(1,1,1)',
         [('image', 'pixel', 'circle', '4,5,6', I1)]),
        ('keywords are case-insensitive, also in the "# text(" / "# composite(" forms',
         'image\n# TEXT(1,2) text={Hi}\n# Composite(1,2,0) || composite=1 color=red\ncircle(1,2,3) ||\nbox(1,2,3,4,0)',
         [('image', 'pixel', 'text', '1,2', {'include': 1, 'text': 'Hi'}),
          ('image', 'pixel', 'circle', '1,2,3', {'color': 'red', 'include': 1}),
          ('image', 'pixel', 'box', '1,2,3,4,0', {'color': 'red', 'include': 1})]),
        ('text and tag on a composite line are kept verbatim',
         'image\n# composite(1,2,0) || composite=1 text={Hello World}\ncircle(1,2,3) ||\nbox(1,2,3,4,0)',
         [('image', 'pixel', 'circle', '1,2,3', {'text': 'Hello World', 'include': 1}),
          ('image', 'pixel', 'box', '1,2,3,4,0', {'text': 'Hello World', 'include': 1})]),
        ('a composite ends with its last member, whatever that member is',
         'image\n# composite(1,2,0) || composite=1 color=red\ncircle(1,2,3) ||\npanda(1,2,0,360,4,1,2,3)\ncircle(7,8,9)',
         [('image', 'pixel', 'circle', '1,2,3', {'color': 'red', 'include': 1}), ('image', 'pixel', 'circle', '7,8,9', I1)]),
        ('shapes DS9 writes with a leading "#" (vector, ruler, compass, projection, segment) are unsupported shapes, not comments',
         'image\n# vector(1,2,3,4) vector=1; circle(5,6,7)\n# composite(1,2,0) || composite=1 color=red\ncircle(1,2,3) ||\n'
         '# ruler(1,2,3,4) ruler=image\ncircle(7,8,9)\n# just a comment; circle(0,0,1)',
         [('image', 'pixel', 'circle', '5,6,7', I1), ('image', 'pixel', 'circle', '1,2,3', {'color': 'red', 'include': 1}),
          ('image', 'pixel', 'circle', '7,8,9', I1)]),
        ('"||" inside a text is text',
         'image\n# composite(1,2,0) || composite=1 color=red\ncircle(1,2,3) ||\ncircle(4,5,6) # text={a||b}\ncircle(7,8,9)',
         [('image', 'pixel', 'circle', '1,2,3', {'color': 'red', 'include': 1}),
          ('image', 'pixel', 'circle', '4,5,6', {'color': 'red', 'include': 1, 'text': 'a||b'}),
          ('image', 'pixel', 'circle', '7,8,9', I1)]),
        ('frame aliases', 'J2000; circle 10:00:00 +20:00:00 3"\nb1950\ncircle(1,2,3)',
         [('j2000', 'sky', 'circle', '10:00:00 +20:00:00 3"', I1), ('b1950', 'sky', 'circle', '1,2,3', I1)]),
    ]
    for kw in DS9_UNSUPPORTED_FRAMES:
        cases.append((f'unsupported frame {kw} clears the frame', f'fk5\ncircle(1,2,3)\n{kw}\ncircle(4,5,6)\nimage\ncircle(7,8,9)',
                      [('fk5', 'sky', 'circle', '1,2,3', I1), ('image', 'pixel', 'circle', '7,8,9', I1)]))
    for kw in DS9_UNSUPPORTED_SHAPES:
        cases.append((f'unsupported shape {kw} is skipped', f'fk5\ncircle(1,2,3)\n{kw}(1,2,3,4)\ncircle(4,5,6)',
                      [('fk5', 'sky', 'circle', '1,2,3', I1), ('fk5', 'sky', 'circle', '4,5,6', I1)]))
    return cases


def r8(ctx):
    """the raw DS9 parser, partially evaluated on probe documents: frame state, frame requirement, keyword partition,
    include sign, metadata precedence, composite state, tokenisation."""
    m = ctx.model
    par, make, lexers, raw, rmod = ds9.reader_funcs(m)
    ctx.need(raw is not None, 'ds9 read', 'raw parser not found')
    name = raw.qualname.split(':')[1]

    def plain(v):
        if isinstance(v, Const):
            return v.v
        if is_num(v) and v.is_number:
            return int(v) if float(v) == int(float(v)) else float(v)
        if isinstance(v, Tup):
            return [plain(i) for i in v.items]
        return show(v, 80)
    nbad = 0
    for cname, doc, want in _doc_cases():
        out = Evaluator(m).run(raw, [Const(doc)], {})
        got = None
        if len(out.returns) == 1 and isinstance(out.returns[0][1], Tup) and not out.raises:
            got = []
            for r in out.returns[0][1].items:
                if not isinstance(r, Obj):
                    got = None
                    break
                md = r.fields.get('raw_meta')
                mdd = {k: plain(md.get(k)) for k in md.keys()} if isinstance(md, DictV) and not md.has_symbolic() else show(md, 120)
                got.append((plain(r.fields.get('frame')), plain(r.fields.get('region_type')), plain(r.fields.get('shape')),
                            plain(r.fields.get('shape_params')), mdd))
        if got is None or any(isinstance(x, str) and ('Unknown(' in x or '(' in x and x.split('(')[0] in (
                'ite', 'apply', 'call', 'getitem', 'lookup')) for rec in got for x in list(rec[:4]) + (
                list(rec[4].values()) if isinstance(rec[4], dict) else [rec[4]]) if isinstance(x, str)):
            # the evaluator could not reduce the parser on this constant document: undecided, not a violation
            raise AnalysisError('C10.R8', f'{name}: {cname}',
                                'raw parser not reducible on a constant document: ' +
                                (show(out.returns[0][1], 200) if out.returns else f'raises {[n for _, n, _ in out.raises]}'))
        if got == want:
            ctx.ok(f'{name}: {cname}', f'{len(want)} record(s) as DS9 defines')
        else:
            nbad += 1
            shown = got if got is not None else f'{len(out.returns)} outcomes, raises {[n for _, n, _ in out.raises]}'
            ctx.bad(name, f'document:{cname}', f'`{doc}` is parsed into {shown}; DS9 defines {want}', raw.loc())


# ---------------------------------------------------------------- grammar enumeration (thorough tier)
# line kinds of a small DS9 grammar: (text, kind, payload) — the payload is what the line *means* (the oracle does not
# parse text): frames give (name or None), global lines a dict, shape lines (sign-include, shape, params, own meta, has ||)
G_LINES = [
    ('image', 'frame', 'image'), ('fk5', 'frame', 'fk5'), ('GALACTIC', 'frame', 'galactic'),
    ('physical', 'frame', None),
    ('global color=red', 'global', {'color': 'red'}),
    ('global width=2 color=blue include=1', 'global', {'width': 2, 'color': 'blue', 'include': 1}),
    ('circle(1,2,3)', 'shape', (1, 'circle', '1,2,3', {}, False)),
    ('-circle(1,2,3)', 'shape', (0, 'circle', '1,2,3', {}, False)),
    ('+box(1,2,3,4,0) # color=cyan', 'shape', (1, 'box', '1,2,3,4,0', {'color': 'cyan'}, False)),
    ('circle(4,5,6) # include=0 text={a;b}', 'shape', (1, 'circle', '4,5,6', {'include': 0, 'text': 'a;b'}, False)),
    ('-circle(7,8,9) # include=1', 'shape', (0, 'circle', '7,8,9', {'include': 1}, False)),
    ('panda(1,2,0,360,4,1,2,3)', 'unsupported', False),
    ('# composite(1,2,0) || composite=1 width=5', 'composite', {'width': 5}),
    ('circle(1,1,1) ||', 'shape', (1, 'circle', '1,1,1', {}, True)),
    ('panda(1,2,0,360,4,1,2,3) ||', 'unsupported', True),
    ('# text(1,2) text={Hi}', 'shape', (1, 'text', '1,2', {'text': 'Hi'}, False)),
    # DS9 writes vector / ruler / compass / projection / segment with a leading "#": an unsupported shape (warning), not a
    # comment — it ends a composite when it carries no "||", and ";" after it still separates regions
    ('# vector(1,2,3,4) vector=1', 'unsupported', False),
]


def _g_oracle(seq):
    """records DS9 defines for a sequence of grammar lines (frame state, global/composite/own precedence, sign)."""
    frame, gmeta, cmeta, out = None, {}, {}, []
    for text, kind, pay in seq:
        if kind == 'frame':
            frame = pay
        elif kind == 'global':
            gmeta.update(pay)
        elif kind == 'composite':
            if frame is not None:
                cmeta = dict(pay)
        elif kind == 'unsupported':
            if not pay:
                cmeta = {}
        elif kind == 'shape':
            inc, shape, params, own, cont = pay
            if frame is None:
                continue
            meta = dict(gmeta)
            meta.update(cmeta)
            meta['include'] = inc
            meta.update(own)
            out.append((frame, 'pixel' if frame == 'image' else 'sky', shape, params, meta))
            if not cont:
                cmeta = {}
    return out


def r9(ctx):
    """every document of up to three lines over a 16-line grammar (frames, unsupported frame, global lines, signed and
    unsigned shapes with own properties, unsupported shapes, a composite header and members, the "# text(" form), joined by
    newlines and by semicolons: the raw parser, partially evaluated on the document, must give the records an independent
    state machine (frame persists / is cleared, global < composite < sign < own properties, a composite ends with its
    last member) gives."""
    import itertools
    m = ctx.model
    par, make, lexers, raw, rmod = ds9.reader_funcs(m)
    ctx.need(raw is not None, 'ds9 read', 'raw parser not found')
    name = raw.qualname.split(':')[1]

    def plain(v):
        if isinstance(v, Const):
            return v.v
        if is_num(v) and v.is_number:
            return int(v) if float(v) == int(float(v)) else float(v)
        if isinstance(v, Tup):
            return [plain(i) for i in v.items]
        return show(v, 80)
    n = nbad = 0
    first = None
    for k in (1, 2, 3):
        for seq in itertools.product(G_LINES, repeat=k):
            # a global line after a semicolon-joined shape is fine; comments are not in the grammar (a comment runs to the
            # end of the line, so joining by ';' would change the meaning)
            for sep in ('\n', ';'):
                # every "#" line of the grammar is a region line ("# composite(", "# text(", "# vector("): ";" separates
                # them like any other region line
                doc = sep.join(t for t, _, _ in seq)
                want = _g_oracle(seq)
                out = Evaluator(m).run(raw, [Const(doc)], {})
                got = None
                if len(out.returns) == 1 and isinstance(out.returns[0][1], Tup) and not out.raises:
                    got = []
                    for r in out.returns[0][1].items:
                        if not isinstance(r, Obj):
                            got = None
                            break
                        md = r.fields.get('raw_meta')
                        mdd = {kk: plain(md.get(kk)) for kk in md.keys()} if isinstance(md, DictV) and not md.has_symbolic() else None
                        got.append((plain(r.fields.get('frame')), plain(r.fields.get('region_type')), plain(r.fields.get('shape')),
                                    plain(r.fields.get('shape_params')), mdd))
                n += 1
                if got is None or any(rec[4] is None for rec in got):
                    raise AnalysisError('C10.R9', f'{name}: {doc!r}', 'raw parser not reducible on a grammar document')
                if got != want:
                    nbad += 1
                    first = first or (doc, got, want)
    if nbad:
        doc, got, want = first
        ctx.bad(name, 'grammar-documents', f'{nbad} of {n} grammar documents are read differently from what DS9 defines, e.g. '
                f'{doc!r} gives {got}; DS9 defines {want}', raw.loc())
    else:
        ctx.ok(name, f'{n} grammar documents (<= 3 lines over {len(G_LINES)} line kinds, two separators) read as DS9 defines')


def r10(ctx):
    """the regions read from one text are independent of each other: the global / composite metadata that lives across
    the lines, and the metadata parsed once for a multi-radius line, reach each region only as deep copies (C13.R7)."""
    from .c13 import r7 as c13r7
    c13r7(ctx)


RULES = [
    RuleDef('R7', 'shape line -> (parameter string, metadata string) on probe lines', r7, 1),
    RuleDef('R8', 'raw parser on probe documents: frame state/requirement, keyword partition, include, metadata, composite', r8, 40),
    RuleDef('R9', 'grammar enumeration: all documents of <= 3 lines over a 17-line DS9 grammar against a state-machine oracle', r9, 1, tier='deep'),
    RuleDef('R3', 'coordinate / size / angle lexing constants', r3, 5),
    RuleDef('R3b', 'angle/size lexer probes (one per branch and per number ending)', r3b, 1),
    RuleDef('R4', 'parameter templates per shape (symbolic parse), annulus expansion, frame names', r4, 27),
    RuleDef('R6', 'text in {} "" \'\' is kept verbatim (lexer partially evaluated on delimiter probes); ";" protected in free text', r6, 5),
    RuleDef('R10', 'regions read from one text share no mutable metadata object (C13.R7)', r10, 2),
]
