"""C09 — DS9 serialise -> parse round-trips every region (vocabulary, constants, discipline)."""
import ast

import sympy as sp

from ..astutil import (call_name, calls_in, enclosing_tests, norm, parents,
                       stmts_of)
from ..cfg import stmt_ends_control
from ..report import RuleDef
from ..src import AnalysisError
from ..tb import tables
from ..vg import (App, BoolT, Cmp, Const, DictV, Evaluator, Ite, Obj, Tup,
                  contains_unknown, is_num, mk_not, num_equal, same, show, sym,
                  truthy, walk_terms)
from . import ds9
from .common import method_or_fail

EXPLANATION = (
    'Decides from source, by composing the symbolic value of the DS9 writer with the symbolic value of the DS9 reader at '
    'token level: (R1) for each of the 20 DS9-representable classes (+ regular polygon via to_polygon) the emitted shape name '
    'is accepted by the reader and, with the reader\'s annulus-expansion rule applied to the number of tokens the template '
    'writes, is rebuilt as exactly one region of the same class, every written field landing in the same constructor slot '
    '(including the ellipse/box-annulus slot permutation); (R1, continued) inverse constants: pixel coordinates are written as v+1 (scalar '
    'and vertex branch, x and y) and lexed as float−1; sizes are never shifted; the (class, field) pairs the writer halves are '
    'exactly those the reader doubles; angles are written in degrees and lexed by the angle lexer; (R2) the reader\'s lexers themselves (rule shared with C10.R3): '
    'numbers by float() of the whole token minus one suffix character, the suffix -> unit table, pixel shift −1 — so every token the '
    'writer can emit (including exponent notation for very small sizes) is lexed whole; (R3) the writer\'s inverted '
    'frame table maps every astropy frame to a DS9 name the reader maps back to it; (R4) skip discipline: every branch that '
    'announces "skipping" leaves the iteration/function or yields a tested sentinel, and no `K not in D` warning is followed by '
    'an unguarded D[K]; (R5) include sense: the region string starts with "-" exactly when the include flag is falsy, include is '
    'written in {0,1} and never left to the global line alone; (R6) determinism (no set iteration reaches the text); (R7) the '
    'serialisers do not mutate the regions; (R8) text and tags: the metadata string the writer builds for a region with a '
    'text and two tags (string-building term rendered with representative multi-word values) is lexed by the reader\'s own '
    'regex and delimiter-stripping chain (stdlib re on the source pattern) back to exactly that text and that tag list; the '
    'raw-metadata merge returns text and tag unchanged for every string (no numeric coercion: symbolic value must be the '
    'input itself); the region is built with that text parameter / meta text and those tags; one extra instance probes a text '
    'containing the closing delimiter; (R9) list-level assembly: the serialiser is partially evaluated on four lists of '
    'region records (frame, region string, metadata) standing for the per-region serialiser, and every record\'s frame, region '
    'string and effective metadata (global line overridden by the region\'s own, lexed by the reader\'s metadata lexer) must be '
    'recovered from the text; (R4 also checks that every warnings.warn in the io packages is called as (message, category)). Not decided: decimal formatting within half a unit of the precision; texts containing '
    'quote characters or leading braces; fixed-point of parse∘serialise∘parse as a whole.')
EXPLANATION_ADDED = (" (R1 also) sky coordinates are transformed, on the frame object, to an instance of the frame written on the frame line (decided for a frame name that is given); regular polygons reach the per-region serialiser as polygons (decided on the object handed over). (R10) visual metadata: the reader's metadata pipeline (lexer, raw validation, split, translation, RegionMeta/RegionVisual construction), the writer's translation back and the reader's pipeline again are partially evaluated on eleven probe metadata strings; the second parse must give the first parse's meta and visual.")
EXPLANATION += EXPLANATION_ADDED
EXPLANATION_ADDED2 = (" (R11) write -> parse of programmatic metadata: the writer's metadata translation, partially evaluated on probe dictionaries a program would build (tag given as a string or a list, label, solid/dashed line style, line width, font name/size/weight, marker size), is lexed by the reader's pipeline back to the same meta/visual entries. (R9b, deep tier) the list-level serialiser and the reader's list-level state are evaluated on every list of one to three records over three frames and six metadata dictionaries (6174 lists): each record must come back with its own frame and effective metadata.")
EXPLANATION += EXPLANATION_ADDED2
TRUSTED = ['str.format / f-string semantics', 'SkyCoord.to_string yields "lon lat"', 'Quantity.to_string(unit="deg")',
           're.split on whitespace/commas yields the written tokens in order']
ASSUMPTIONS = ['the lexers are functions of their token only (their constants are C10.R3)']


def _pixel_lexer_shift(ctx):
    """numeric shift applied by the pixel coordinate lexer (expected -1)."""
    par, make, lexers, raw, mod = ds9.reader_funcs(ctx.model)
    f = lexers.get('_parse_pixel_coord')
    ctx.need(f is not None, 'ds9 read', 'pixel coordinate lexer not found')
    ev = Evaluator(ctx.model)
    t = ev.call(f, [Obj('tok', {}, 's')], {})
    arms = [t.a, t.b] if isinstance(t, Ite) else [t]
    shifts = set()
    for a in arms:
        if isinstance(a, App) and a.name in ('binop:Sub', 'binop:Add') and is_num(a.args[1]) \
                and isinstance(a.args[0], App) and a.args[0].name.endswith('float'):
            shifts.add(-a.args[1] if a.name == 'binop:Sub' else a.args[1])
        else:
            shifts.add(None)
    return shifts, f


def _frame_given(t, _d=0):
    """the term with every `<frame> is None` test decided for a sky region (its frame name is a string, never None)."""
    if _d > 60:
        return t
    if isinstance(t, Ite):
        c = t.cond
        neg = False
        while isinstance(c, BoolT) and c.op in ('not', 'truthy') and len(c.args) == 1:
            neg ^= (c.op == 'not')
            c = c.args[0]
        if isinstance(c, Cmp) and c.op in ('is', 'isnot') and isinstance(c.rhs, Const) and c.rhs.v is None \
                and 'frame' in show(c.lhs, 8000):
            val = (c.op == 'isnot') ^ neg
            return _frame_given(t.a if val else t.b, _d + 1)
        return Ite(_frame_given(t.cond, _d + 1), _frame_given(t.a, _d + 1), _frame_given(t.b, _d + 1))
    if isinstance(t, BoolT):
        return BoolT(t.op, tuple(_frame_given(a, _d + 1) for a in t.args))
    if isinstance(t, Cmp):
        return Cmp(t.op, _frame_given(t.lhs, _d + 1), _frame_given(t.rhs, _d + 1))
    if isinstance(t, App):
        return App(t.name, tuple(_frame_given(a, _d + 1) for a in t.args))
    if isinstance(t, Tup):
        return Tup(tuple(_frame_given(a, _d + 1) for a in t.items), t.kind)
    return t


def _alternatives(t, limit=16, with_paths=False):
    """the values a term can take, one per combination of its conditionals (up to `limit`; beyond that the term itself)"""
    from ..vg import Ite, App, Tup

    def first_ite(x, seen):
        if id(x) in seen:
            return None
        seen.add(id(x))
        if isinstance(x, Ite):
            return x
        subs = x.args if isinstance(x, App) else (x.items if isinstance(x, Tup) else ())
        for c in subs:
            r = first_ite(c, seen)
            if r is not None:
                return r
        return None

    def subst(x, old, new):
        if x is old:
            return new
        if isinstance(x, App):
            return App(x.name, tuple(subst(c, old, new) for c in x.args))
        if isinstance(x, Tup):
            return Tup(tuple(subst(c, old, new) for c in x.items), x.kind)
        return x
    out, todo = [], [(t, ())]
    while todo:
        x, path = todo.pop()
        it = first_ite(x, set())
        if it is None or len(out) + len(todo) >= limit:
            out.append((x, path) if with_paths else x)
            continue
        c = show(it.cond, 400)
        todo.append((subst(x, it, it.a), path + ((c, True),)))
        todo.append((subst(x, it, it.b), path + ((c, False),)))
    return out


def r1(ctx):
    m = ctx.model
    classes = ds9.ds9_classes(m)
    ctx.need(len(classes) >= 20, 'ds9 classes', f'only {len(classes)} classes in the reader table')
    shifts, lexf = _pixel_lexer_shift(ctx)
    par, make, lexers, raw, mod = ds9.reader_funcs(m)
    accepted = {}

    def reader_accepts(name):
        """the raw parser, partially evaluated on a two-line document, yields one record of that shape."""
        if name not in accepted:
            out = Evaluator(m).run(raw, [Const(f'fk5\n{name}(1,2,3)')], {})
            ok = len(out.returns) == 1 and isinstance(out.returns[0][1], Tup) and len(out.returns[0][1].items) == 1 \
                and isinstance(out.returns[0][1].items[0], Obj) \
                and isinstance(out.returns[0][1].items[0].fields.get('shape'), Const) \
                and out.returns[0][1].items[0].fields['shape'].v == name
            if not ok and len(out.returns) == 1 and not isinstance(out.returns[0][1], Tup):
                raise AnalysisError('C09.R1', raw.qualname, f'raw parser not reducible on a constant document: '
                                    f'{show(out.returns[0][1], 160)}')
            accepted[name] = ok
        return accepted[name]
    for ci, rt, shape_key in sorted(classes, key=lambda x: x[0].name):
        construct = f'{ci.name}'
        ev, wfi, out = ds9.eval_writer(m, ci)
        rets = [v for _, v in out.returns if isinstance(v, DictV)]
        if not rets:
            ctx.bad(construct, 'not-serialised', 'the writer produces no region record for this class', wfi.loc())
            continue
        rv = rets[-1].get('region')
        try:
            cond, name, template, toks = ds9.writer_tokens(m, ci, rv)
        except AnalysisError as exc:
            raise
        probs = []
        if not reader_accepts(name):
            probs.append(f'emitted shape name "{name}" is not a shape the reader supports')
        fields = ds9.template_fields(template)
        want = [p for p in m.params_of(ci) if p != 'text']
        if sorted(fields) != sorted(want):
            probs.append(f'template writes fields {fields}, class fields are {want}')
        # token count (polygon: 3 vertices)
        ntok = 0
        pos = {}
        for t in toks:
            if t['kind'] in ('pixcoords', 'skycoords'):
                pos[(t['field'], '*')] = list(range(ntok, ntok + 6))
                ntok += 6
            else:
                pos[(t['field'], t['comp'])] = ntok
                ntok += 1
        # writer-side constants
        halved = set()
        for t in toks:
            if t['kind'] == 'pixcoord':
                want_e = sym(f'region.{t["field"]}.{t["comp"]}') + 1
                if not (is_num(t['expr']) and num_equal(t['expr'], want_e)):
                    probs.append(f'pixel coordinate {t["field"]}.{t["comp"]} is written as {show(t["expr"], 80)}, not value + 1 '
                                 '(DS9 is 1-based)')
                if not _spec_has_precision(t.get('spec')):
                    probs.append(f'pixel coordinate {t["field"]}.{t["comp"]} is formatted with {show(t.get("spec"), 60)}: the '
                                 'requested precision does not reach it')
            elif t['kind'] == 'pixcoords':
                body = _vertex_loop_terms(m, wfi) or _vertex_map_terms(m, wfi, t['expr'])
                if body is None:
                    continue       # no recognisable per-vertex formatting code: the vertex-string probes below decide
                ex, ey, specs = body
                if not (is_num(ex) and num_equal(ex, sym('val.x') + 1) and is_num(ey) and num_equal(ey, sym('val.y') + 1)):
                    probs.append(f'polygon vertices are written as ({show(ex, 60)}, {show(ey, 60)}), not (x + 1, y + 1)')
                if not all(_spec_has_precision(sp_) for sp_ in specs):
                    probs.append(f'polygon vertices are formatted with {[show(sp_, 40) for sp_ in specs]}: the requested '
                                 'precision does not reach them (they are always written with a fixed number of decimals)')
            elif t['kind'] in ('skycoord', 'skycoords') and t['comp'] in ('lon', '*'):
                # the numbers are read back in the frame named on the frame line (default attributes): the field's own
                # coordinate must be transformed to that frame before it is printed
                own = f'attr:transform_to(attr:frame(region.{t["field"]}))'
                # every way the coordinate can be printed (the alternatives of the conditionals left once "a frame is
                # given" is resolved) must go through the transform: `if frame is not None and value.frame.name != frame`
                # skips it for an FK5 J1975 coordinate under a j2000 line
                alts = _alternatives(_frame_given(t['expr']), with_paths=True)

                def already_there(path):
                    # the alternative is reached only when the coordinate's frame IS the target frame, attributes included
                    # (SkyCoord / frame .is_equivalent_frame): nothing to transform
                    return any('is_equivalent_frame' in c_ and (c_.lstrip('(').startswith('not') != pol) for c_, pol in path)
                txts = [show(a_, 6000) for a_, path_ in alts if not already_there(path_)]
                if not txts or any(own not in txt or 'frame_transform_graph.lookup_name(' not in txt for txt in txts):
                    probs.append(f'{t["field"]} is printed in its own frame (with its own frame attributes), not in the frame '
                                 'written on the frame line: a line whose end is galactic and whose start is icrs, or an FK5 '
                                 'coordinate with equinox J1975, comes back with the raw numbers under another frame')
            elif t['kind'] == 'size':
                e = t['expr']
                inner = e.args[0] if isinstance(e, App) and e.name == 'fstring' and len(e.args) == 1 else None
                if inner is not None:
                    inner, spec = ds9.unfmt(inner)
                    if not _spec_has_precision(spec):
                        probs.append(f'{t["field"]} is formatted with {show(spec, 60)}: the requested precision does not reach it')
                if inner is None and isinstance(e, Ite):
                    # sky sizes: Angle / Quantity to_string(unit='deg') of value or value/2
                    inner = _to_string_arg(e)
                    from ..vg import mentions_name
                    for a_ in walk_terms(e):
                        if isinstance(a_, App) and a_.name == 'apply' and a_.args and isinstance(a_.args[0], App) \
                                and a_.args[0].name == 'attr:to_string' and not mentions_name(a_, 'prec'):
                            probs.append(f'{t["field"]}: one of the ways the size is printed ({show(a_, 100)}) does not use the '
                                         'requested precision')
                            break
                if inner is None or not is_num(inner):
                    raise AnalysisError('C09.R1', construct, f'size string for {t["field"]} not understood: {show(e, 160)}')
                base = sym(f'region.{t["field"]}', positive=True)
                ratio = sp.simplify(inner / base)
                if ratio == sp.Rational(1, 2):
                    halved.add(t['field'])
                    # the reader doubles the number: to keep the full axis within half a unit of the requested precision
                    # the semi-axis needs (at least) one more decimal
                    # (every way the value can be printed: Angle, plain Quantity, plain number)
                    arms = [x for x in walk_terms(e) if isinstance(x, App) and x.name in ('apply', 'fstring', 'fmt')
                            and (x.name != 'apply' or (x.args and isinstance(x.args[0], App) and x.args[0].name == 'attr:to_string'))]
                    arms = arms or [e]
                    if any('prec + 1' not in show(a_, 3000) and 'prec + 2' not in show(a_, 3000) for a_ in arms):
                        probs.append(f'{t["field"]} is written as a semi-axis with the requested number of decimals; doubled on '
                                     'reading, the axis is only good to one full unit of the precision (1.01 at precision 2 comes '
                                     'back as 1.02)')
                elif ratio != 1:
                    probs.append(f'{t["field"]} is written as {show(inner, 80)} (neither the value nor the semi-axis)')
        # reader side
        evr, rfi, rout = ds9.eval_reader(m, name, rt, ntok)
        rl = [v for _, v in rout.returns if isinstance(v, Tup)]
        if not rl or len(rl[-1].items) != 1 or not isinstance(rl[-1].items[0], Obj):
            probs.append(f'reading back "{name}" with {ntok} parameters yields {show(rl[-1] if rl else None, 160)} '
                         '(expected exactly one region)')
        else:
            r = rl[-1].items[0]
            if r.cls != ci.name:
                probs.append(f'"{name}" with {ntok} parameters is read back as {r.cls}, not {ci.name}')
            else:
                probs += _slot_check(m, ci, rt, r, toks, pos, halved, shifts)
        if probs:
            ctx.bad(construct, 'roundtrip', '; '.join(probs), wfi.loc(), {'template': template, 'name': name})
        else:
            ctx.ok(construct, f'"{name}" ({ntok} tokens) -> same class, same slots, inverse constants')
    # the vertex string of a pixel polygon, on concrete vertices: x+1,y+1 per vertex, in order, comma separated
    ser, wfi, meta_fn = ds9.writer_funcs(m)
    gp = [f for f in m.modules[wfi.module].functions.values() if 'precision' in [a.arg for a in f.node.args.args]
          and any(isinstance(n, ast.Attribute) and n.attr == '_params' for n in ast.walk(f.node))]
    ctx.need(len(gp) == 1, 'ds9 write', 'parameter formatter not identified')
    pcc = m.cls('PixCoord')
    verts = Obj('PixCoord', {'x': Tup(tuple(sp.Integer(k) for k in (1, 2, 3)), 'array'),
                             'y': Tup(tuple(sp.Integer(k) for k in (4, 5, 6)), 'array')}, None, pcc)
    preg = Obj('PolygonPixelRegion', {'vertices': verts}, 'region', m.cls('PolygonPixelRegion'))
    bad_v = []
    for prec, want_v in ((2, '2.00,5.00,3.00,6.00,4.00,7.00'), (11, ','.join(f'{v:.11f}' for v in (2, 5, 3, 6, 4, 7))), (0, '2,5,3,6,4,7')):
        outp = Evaluator(m).run(gp[0], [preg, Tup((Const('polygon'), Const('{vertices}')))], {'precision': sp.Integer(prec)})
        got = render(outp.returns[0][1], {}) if len(outp.returns) == 1 else f'{len(outp.returns)} outcomes'
        if got != want_v:
            bad_v.append((prec, got, want_v))
    if not bad_v:
        ctx.ok('PolygonPixelRegion:vertex string', 'vertices (1,4),(2,5),(3,6) at precisions 0, 2, 11: x+1,y+1 per vertex, in order, '
               'with the requested number of decimals')
    else:
        prec, got, want_v = bad_v[0]
        ctx.bad('PolygonPixelRegion', 'vertex-string', f'vertices (1,4),(2,5),(3,6) at precision {prec} are written `{got}`, not '
                f'`{want_v}`', gp[0].loc())
    # regular polygons are converted first
    # (decided on the value handed to the per-region serialiser when the list holds a regular polygon)
    seen_regs = []
    rec_ = DictV([{'frame': Const('image'), 'region': Const('polygon(1,2,3,4,5,6)'), 'meta': DictV([{}])}])
    evp = Evaluator(m, hooks={wfi.qualname: lambda e, a, k: (seen_regs.append(a[0]), rec_)[1]})
    rpc = m.cls('RegularPolygonPixelRegion')
    evp.run(ser, [Tup((evp.symbolic_instance(rpc, 'rp'),), 'list')], {})
    converted = bool(seen_regs) and all((isinstance(x, Obj) and x.cls == 'PolygonPixelRegion') or 'to_polygon' in show(x, 400)
                                        for x in seen_regs)
    if converted:
        ctx.ok('RegularPolygonPixelRegion', 'serialised through to_polygon()')
    else:
        ctx.bad('RegularPolygonPixelRegion', 'not-converted', 'regular polygons are not converted to polygons before '
                'serialisation (no DS9 template for them)', ser.loc())


def _to_string_arg(e):
    """the Quantity whose to_string(unit='deg') is taken (both Angle/Quantity branches must agree)."""
    found = []
    for x in walk_terms(e):
        if isinstance(x, App) and x.name == 'attr:to_string' and x.args and is_num(x.args[0]):
            found.append(x.args[0])
    if found and all(sp.simplify(f - found[0]) == 0 for f in found):
        # unit must be degrees on every branch
        txt = show(e, 2000)
        if txt.count("['unit', 'deg']") >= len(found):
            return found[0]
    return None


def _spec_has_precision(spec):
    """does the format spec depend on the precision argument of the serialiser?"""
    from ..vg import mentions_name
    return spec is not None and mentions_name(spec, 'prec')


def _vertex_map_terms(m, wfi, expr):
    """vertex formatting through map(<repo function>, vertices)."""
    from ..vg import FuncRef, Frame
    for x in walk_terms(expr):
        if isinstance(x, App) and x.name == 'map' and x.args and isinstance(x.args[0], FuncRef):
            ev = Evaluator(m)
            val = Obj('PixCoord', {}, 'val', m.cls('PixCoord'))
            t = ev.call(x.args[0].fi, [val], {})
            if isinstance(t, App) and t.name == 'fstring' and len(t.args) >= 3:
                (vx, sx), (vy, sy) = ds9.unfmt(t.args[0]), ds9.unfmt(t.args[2])
                return vx, vy, [sx, sy]
    return None


def _vertex_loop_terms(m, wfi):
    """(x expr, y expr) written per vertex by the loop over a non-scalar PixCoord."""
    for fi in m.modules[wfi.module].functions.values():
        for n in ast.walk(fi.node):
            if isinstance(n, ast.For) and isinstance(n.target, ast.Name):
                fvs = [x for x in ast.walk(n) if isinstance(x, ast.FormattedValue)]
                if len(fvs) >= 2 and all(n.target.id in norm(x.value) for x in fvs[:2]):
                    ev = Evaluator(m)
                    from ..vg import Frame
                    fr = Frame(fi, None, 0)
                    env = {n.target.id: Obj('PixCoord', {}, 'val', m.cls('PixCoord')), 'precision': sym('prec')}
                    specs = [ev.expr(x.format_spec, env, fr) if x.format_spec is not None else None for x in fvs[:2]]
                    return ev.expr(fvs[0].value, env, fr), ev.expr(fvs[1].value, env, fr), specs
    return None


def _slot_check(m, ci, rt, r, toks, pos, halved, shifts):
    probs = []
    doubled = set()
    for t in toks:
        f = t['field']
        got = r.fields.get(f)
        if got is None:
            probs.append(f'field {f} is not set by the reader')
            continue
        if t['kind'] == 'pixcoord':
            if t['comp'] != 'x':
                continue
            ix, iy = pos[(f, 'x')], pos[(f, 'y')]
            gx = got.fields.get('x') if isinstance(got, Obj) else None
            gy = got.fields.get('y') if isinstance(got, Obj) else None
            if ds9.tok_index(gx) != (ix, 'coord') or ds9.tok_index(gy) != (iy, 'coord'):
                probs.append(f'{f} is read from tokens {ds9.tok_index(gx)[0]},{ds9.tok_index(gy)[0]}; the writer put it at {ix},{iy}')
        elif t['kind'] == 'pixcoords':
            idx = pos[(f, '*')]
            gx = got.fields.get('x') if isinstance(got, Obj) else None
            gy = got.fields.get('y') if isinstance(got, Obj) else None
            xs = [ds9.tok_index(i)[0] for i in gx.items] if isinstance(gx, Tup) else None
            ys = [ds9.tok_index(i)[0] for i in gy.items] if isinstance(gy, Tup) else None
            if xs != idx[0::2] or ys != idx[1::2]:
                probs.append(f'vertices are read as x<-tokens {xs}, y<-tokens {ys}; written alternately x,y')
        elif t['kind'] == 'skycoord':
            if t['comp'] != 'lon':
                continue
            i0, i1 = pos[(f, 'lon')], pos[(f, 'lat')]
            ok = isinstance(got, App) and got.name.endswith('SkyCoord') and len(got.args) >= 2 and \
                ds9.tok_index(got.args[0]) == (i0, 'coord') and ds9.tok_index(got.args[1]) == (i1, 'coord')
            if not ok:
                probs.append(f'sky coordinate {f} is not rebuilt from tokens {i0},{i1}: {show(got, 120)}')
        elif t['kind'] == 'skycoords':
            idx = pos[(f, '*')]
            ok = isinstance(got, App) and got.name.endswith('SkyCoord') and isinstance(got.args[0], Tup) and \
                [ds9.tok_index(i)[0] for i in got.args[0].items] == idx[0::2] and \
                [ds9.tok_index(i)[0] for i in got.args[1].items] == idx[1::2]
            if not ok:
                probs.append('sky vertices are not rebuilt from alternating lon/lat tokens')
        elif t['kind'] == 'angle':
            i = pos[(f, '')]
            if ds9.tok_index(got) != (i, 'angle'):
                probs.append(f'angle is read from token {ds9.tok_index(got)} ; the writer put it at {i} (angle lexer expected)')
        else:
            i = pos[(f, '')]
            inner, k = ds9.strip_factor(got)
            if ds9.tok_index(inner) != (i, 'size'):
                probs.append(f'{f} is read from token {ds9.tok_index(inner)[0]} via {ds9.tok_index(inner)[1]}; the writer put it '
                             f'at {i} as a size')
            if k == 2:
                doubled.add(f)
            elif k != 1:
                probs.append(f'{f} is scaled by {k} on reading')
    if halved != doubled:
        probs.append(f'the writer halves {sorted(halved)} (semi-axes) but the reader doubles {sorted(doubled)}')
    if rt == 'pixel' and any(t['kind'].startswith('pixcoord') for t in toks):
        if shifts != {sp.Integer(-1)}:
            probs.append(f'the pixel coordinate lexer shifts by {shifts} (must be exactly -1 to undo the writer\'s +1)')
    return probs


def r3(ctx):
    m = ctx.model
    table = tables(m, 'regions.io.ds9.core').env.get('ds9_frame_map')
    ctx.need(isinstance(table, dict), 'ds9_frame_map', 'not evaluable')
    ev, wfi, out = ds9.eval_writer(m, m.cls('CircleSkyRegion'))
    rets = [v for _, v in out.returns if isinstance(v, DictV)]
    ctx.need(rets, 'ds9 writer', 'no record for CircleSkyRegion')
    fr = rets[-1].get('frame')
    inv = None
    for x in walk_terms(fr):
        if isinstance(x, DictV) and not x.has_symbolic() and x.keys():
            inv = x
    ctx.need(inv is not None, wfi.qualname, f'writer frame table not found in {show(fr, 160)}')
    par, make, lexers, raw, mod = ds9.reader_funcs(m)
    class _Sup:
        """frame keywords the raw parser accepts: decided by partial evaluation on `<keyword>\\ncircle(1,2,3)`."""
        cache = {}

        def __contains__(self, kw):
            if kw not in self.cache:
                out = Evaluator(m).run(raw, [Const(f'{kw}\ncircle(1,2,3)')], {})
                v = out.returns[0][1] if len(out.returns) == 1 else None
                if not isinstance(v, Tup):
                    raise AnalysisError('C09.R3', raw.qualname, 'raw parser not reducible on a constant document')
                self.cache[kw] = len(v.items) == 1 and isinstance(v.items[0], Obj) and \
                    isinstance(v.items[0].fields.get('frame'), Const) and v.items[0].fields['frame'].v == kw
            return self.cache[kw]
    sup = _Sup()
    for astro in sorted(set(table.values())):
        v = inv.get(astro)
        d = v.v if isinstance(v, Const) else None
        if d is None or d == '__absent__':
            ctx.bad(f'frame:{astro}', 'no-ds9-name', f'astropy frame {astro} has no DS9 name in the writer table', wfi.loc())
        elif table.get(d) != astro or d not in sup:
            ctx.bad(f'frame:{astro}', 'not-inverse',
                    f'writer maps {astro} -> "{d}" but the reader maps "{d}" -> {table.get(d)!r} '
                    f'(supported: {d in sup})', wfi.loc())
        else:
            ctx.ok(f'frame:{astro}', f'-> "{d}" -> {astro}')


SKIP_WORDS = ('skipping', 'skipped', 'will be ignored')


def skip_sites(model, packages=('regions/io/',)):
    out = []
    for fi in model.all_functions():
        if not fi.path.startswith(packages) or fi.path.endswith('.pyx'):
            continue
        pm = parents(fi.node)
        for c in calls_in(fi.node):
            nm = call_name(c) or ''
            if nm.split('.')[-1] != 'warn' or not c.args:
                continue
            msg = c.args[0]
            txt = ''.join(x.value for x in ast.walk(msg) if isinstance(x, ast.Constant) and isinstance(x.value, str))
            if 'skipping' not in txt.lower():
                continue
            out.append((fi, c, pm, txt))
    return out


def _enclosing_block(fn, node, pm):
    """(the statement list containing the warn statement, the If/For owning it)"""
    cur = node
    while cur in pm and not isinstance(cur, ast.stmt):
        cur = pm[cur]
    st = cur
    par = pm.get(st)
    for fld in ('body', 'orelse', 'finalbody'):
        blk = getattr(par, fld, None)
        if isinstance(blk, list) and st in blk:
            return blk, par, st
    return None, par, st


def _untested_sentinel_callers(m, fi):
    """[(caller, variable)] for call sites `x = fi(...)` whose result is used without an `is None` test."""
    out = []
    for caller in m.all_functions():
        if caller.path.endswith('.pyx') or caller is fi:
            continue
        for st in stmts_of(caller.node):
            if isinstance(st, ast.Assign) and isinstance(st.value, ast.Call) and isinstance(st.targets[0], ast.Name):
                cs = m.resolve_call(caller, st.value)
                if not cs or cs[0] is not fi:
                    continue
                var = st.targets[0].id
                tested = False
                for t2 in stmts_of(caller.node):
                    if isinstance(t2, ast.If):
                        tt = norm(t2.test).replace(' ', '')
                        if tt in (f'{var}isNone', f'{var}isnotNone', f'not{var}', var):
                            tested = True
                if not tested:
                    out.append((caller, var))
            elif isinstance(st, (ast.Expr, ast.Return)) and isinstance(getattr(st, 'value', None), ast.Call):
                pass
        # direct use inside another call: f(g(x)) / list.append(g(x))
        for c in calls_in(caller.node):
            for a in c.args:
                if isinstance(a, ast.Call):
                    cs = m.resolve_call(caller, a)
                    if cs and cs[0] is fi:
                        out.append((caller, norm(a)[:40]))
    return out


def r4(ctx):
    m = ctx.model
    sites = skip_sites(m)
    ctx.need(len(sites) >= 8, 'skip-announcing sites', f'only {len(sites)} found')
    for fi, c, pm, txt in sites:
        blk, owner, st = _enclosing_block(fi.node, c, pm)
        construct = f'{fi.qualname.split(":")[1]}:{txt[:40].strip()}'
        ok = False
        why = ''
        if blk is not None and stmt_ends_control(blk):
            ok = True
            why = 'branch leaves the iteration/function'
            last = blk[-1]
            if isinstance(last, ast.Return) and (last.value is None or norm(last.value) == 'None'):
                untested = _untested_sentinel_callers(m, fi)
                if untested:
                    ok = False
                    ctx.bad(fi.qualname.split(':')[1], f'sentinel-untested:{untested[0][0].qualname.split(":")[1]}',
                            f'the skip is signalled by `return None`, but the caller {untested[0][0].qualname.split(":")[1]} uses '
                            f'`{untested[0][1]}` without testing it for None: the skipped region is not dropped and breaks the '
                            'rest of the list', untested[0][0].loc())
                    continue
                why = 'returns a None sentinel that every caller tests'
        elif blk is not None and isinstance(owner, ast.If):
            # sentinel: the branch assigns None (or similar) to a name the function returns / the caller tests
            sent = [s for s in blk if isinstance(s, ast.Assign) and isinstance(s.value, ast.Constant) and s.value.value is None]
            if sent:
                ok = True
                why = 'branch yields a None sentinel'
            else:
                # tail position of the loop body: nothing follows the if (or its elif chain) inside the loop
                cur_if = owner
                while True:
                    outer, loop, ifst = _enclosing_block(fi.node, cur_if, pm)
                    if outer is None or outer[-1] is not cur_if:
                        break
                    if isinstance(loop, (ast.For, ast.While)):
                        ok = True
                        why = 'tail position of the loop body'
                        break
                    if isinstance(loop, ast.If):
                        cur_if = loop
                        continue
                    break
        elif blk is not None and isinstance(owner, ast.ExceptHandler):
            ok = stmt_ends_control(blk)
            why = 'handler returns'
        if ok:
            ctx.ok(construct, why)
        else:
            ctx.bad(fi.qualname.split(':')[1], f'warn-without-skip:{txt[:40].strip()}',
                    f'the code warns "{txt.strip()[:70]}" but the branch falls through: the region is not skipped and the '
                    'following code fails (or emits it), aborting/altering the rest of the list', fi.loc(c))
    # (b) a skip is announced by a *warning*: warnings.warn(message, category) — with the arguments the other way round the
    # call raises TypeError and aborts the whole list instead of skipping one region
    nwarn = 0
    for fi in m.all_functions():
        if not fi.path.startswith('regions/io/') or fi.path.endswith('.pyx'):
            continue
        for c in calls_in(fi.node):
            if (call_name(c) or '').split('.')[-1] not in ('warn',) or not c.args:
                continue
            nwarn += 1
            first = c.args[0]
            is_cat = lambda e: isinstance(e, (ast.Name, ast.Attribute)) and norm(e).split('.')[-1].endswith('Warning')  # noqa: E731
            second = c.args[1] if len(c.args) > 1 else next((k.value for k in c.keywords if k.arg == 'category'), None)
            if is_cat(first) or (second is not None and not is_cat(second)):
                ctx.bad(fi.qualname.split(':')[1], f'warn-arguments:{norm(first)[:30]}',
                        f'`{norm(c)[:90]}`: warnings.warn takes (message, category); as written it raises TypeError where a '
                        'region was to be skipped with a warning', fi.loc(c))
    ctx.need(nwarn >= 10, 'warning calls in regions/io', f'only {nwarn} found')
    # (a) check-then-use contradictions: `K not in D` branch that stays, followed by D[K]
    for fi in m.all_functions():
        if not fi.path.startswith('regions/io/') or fi.path.endswith('.pyx'):
            continue
        for st in stmts_of(fi.node):
            if isinstance(st, ast.If) and isinstance(st.test, ast.Compare) and len(st.test.ops) == 1 and \
                    isinstance(st.test.ops[0], ast.NotIn) and not stmt_ends_control(st.body) and not st.orelse:
                K, D = norm(st.test.left), norm(st.test.comparators[0])
                assigns_k = any(isinstance(s, ast.Assign) and (norm(s.targets[0]) in (K, D) or (
                    isinstance(s.targets[0], ast.Subscript) and norm(s.targets[0].value) == D
                    and norm(s.targets[0].slice) == K)) for s in st.body)
                if assigns_k:
                    continue
                pm = parents(fi.node)
                blk, owner, _ = _enclosing_block(fi.node, st, pm)
                later = blk[blk.index(st) + 1:] if blk and st in blk else []
                for s2 in later:
                    for n in ast.walk(s2):
                        if isinstance(n, ast.Subscript) and norm(n.value) == D and norm(n.slice) == K and \
                                isinstance(n.ctx, ast.Load):
                            ctx.bad(fi.qualname.split(':')[1], f'check-then-use:{D}[{K}]',
                                    f'`if {K} not in {D}` does not leave, yet `{D}[{K}]` follows unguarded (KeyError for '
                                    'exactly the case just tested)', fi.loc(n))
                            break


def r5(ctx):
    m = ctx.model
    ser, wfi, meta_fn = ds9.writer_funcs(m)
    ci = m.cls('CirclePixelRegion')
    ev, _, out = ds9.eval_writer(m, ci)
    rets = [v for _, v in out.returns if isinstance(v, DictV)]
    ctx.need(rets, wfi.qualname, 'no record')
    rv = rets[-1].get('region')
    cond, core = ds9.core_fstring(rv)
    meta_call = rets[-1].get('meta')
    ok_sign = False
    if cond not in (None, 'always', 'unknown'):
        # cond must be: not truthy(<translated or original meta>.get('include', True))
        c = cond
        neg = isinstance(c, BoolT) and c.op == 'not'
        inner = c.args[0] if neg else None
        txt = show(inner, 600) if inner is not None else ''
        ok_sign = neg and "'include', True)" in txt and ('region.meta' in txt or 'call:' + meta_fn.name in txt)
    if ok_sign:
        ctx.ok(f'{wfi.qualname.split(":")[1]}:sign', 'region string starts with "-" exactly when include is falsy')
    else:
        ctx.bad(wfi.qualname.split(':')[1], 'include-sign',
                'the writer never marks an excluded region with a leading "-" (sign condition: '
                f'{show(cond, 120) if cond not in (None, "always", "unknown") else cond}); the reader derives include from '
                'the sign on every region line and merges it after the global line, so an excluded region is read back as '
                'included', wfi.loc())
    # translated include value is 0/1 and truthiness-preserving
    ev2 = Evaluator(m)
    INC = Obj('flag', {}, 'INC')
    reg = Obj('CirclePixelRegion', {'meta': DictV([{'include': INC}]), 'visual': DictV([{}])}, None, ci)
    reg.fields['_params_probe'] = Const(None)
    t = ev2.call(meta_fn, [reg, Const('circle')], {})
    inc_v = t.get('include') if isinstance(t, DictV) else None
    txt = show(inc_v, 200)
    if isinstance(inc_v, App) and inc_v.name.endswith('int') and 'INC' in txt:
        ctx.ok(f'{meta_fn.qualname.split(":")[1]}:include', 'include written as int(bool(flag)) in {0, 1}')
    elif isinstance(inc_v, Obj) and inc_v.path == 'INC':
        ctx.bad(meta_fn.qualname.split(':')[1], 'include-domain',
                'include is written verbatim (True/False): the reader only accepts binary keys in {0, 1} and drops '
                '"include=False" as invalid', meta_fn.loc())
    else:
        ctx.bad(meta_fn.qualname.split(':')[1], 'include-lost', f'translated include is {txt}', meta_fn.loc())


def r2(ctx):
    """the reader's number / unit lexers (C10.R3) are part of the round trip: a token the writer emits must be lexed whole."""
    from .c10 import r3 as c10r3
    from .c10 import r3b as c10r3b
    c10r3(ctx)
    c10r3b(ctx)       # includes the exponent form the writer emits for sizes below 1e-4 deg


def r6(ctx):
    from .c13 import r5 as c13r5
    # determinism rule of C13 restricted to the DS9 writer
    sub = _SubCtx(ctx, lambda c: 'ds9' in c or 'registry' in c)
    c13r5(sub)
    sub.flush('no set iteration reaches the DS9 text')


def r7(ctx):
    from ..fx import FX, param_name
    m = ctx.model
    fx = FX(m)
    for kind in ('serialize', 'write'):
        fi = m.registered(kind, 'ds9')
        s = fx.summary(fi)
        muts = [e for e in s.muts if e.target[0] == 'param' and not e.via.startswith('iteration')]
        if muts:
            e = muts[0]
            ctx.bad(fi.qualname.split(':')[1], f'mutates:{" ".join(e.stmt.split())[:60]}',
                    f'`{e.stmt}` writes through `{param_name(fi, e.target[1])}.{".".join(e.target[2])}`', f'{e.path}:{e.line}')
        else:
            ctx.ok(fi.qualname.split(':')[1], 'no write reaches the regions being serialised')


# ---------------------------------------------------------------- text / tags
PLACEHOLDERS = {'T': 'Aa Bb', 'G1': 'g1 x', 'G2': 'g2', 'STALE': 'stale meta text'}


def render(t, ph):
    """concrete text of a string-building term once its opaque string leaves are given placeholder values."""
    if isinstance(t, Const):
        return str(t.v)
    if isinstance(t, Obj) and t.cls == 'str' and t.path in ph:
        return ph[t.path]
    if isinstance(t, App) and t.name == 'fstring':
        return ''.join(render(a, ph) for a in t.args)
    if isinstance(t, App) and t.name == 'fmt' and len(t.args) == 2 and is_num(t.args[0]) and t.args[0].is_number:
        return format(float(t.args[0]), render(t.args[1], ph))
    if isinstance(t, App) and t.name == 'fmt':
        return render(t.args[0], ph)
    if isinstance(t, App) and t.name == 'apply' and isinstance(t.args[0], App) and t.args[0].name == 'attr:join' \
            and isinstance(t.args[1], Tup):
        return render(t.args[0].args[0], ph).join(render(a, ph) for a in t.args[1].items)
    if isinstance(t, App) and t.name == 'fmt' and len(t.args) == 2 and is_num(t.args[0]) and t.args[0].is_number:
        return format(float(t.args[0]), render(t.args[1], ph))
    if is_num(t) and t.is_number:
        return str(int(t)) if t == int(t) else str(float(t))
    if isinstance(t, App) and t.name == 'slice_of' and len(t.args) == 4:
        def iv(x):
            return None if (isinstance(x, Const) and x.v is None) else int(x)
        return render(t.args[0], ph)[iv(t.args[1]):iv(t.args[2]):iv(t.args[3])]
    if isinstance(t, App) and t.name == 'str.format' and isinstance(t.args[0], Const):
        kw, pos = {}, []
        for a in t.args[1:]:
            if isinstance(a, Tup) and len(a.items) == 2 and isinstance(a.items[0], Const) and isinstance(a.items[0].v, str):
                kw[a.items[0].v] = render(a.items[1], ph)
            elif is_num(a) and a.is_number:
                pos.append(float(a))
            else:
                try:
                    pos.append(render(a, ph))
                except AnalysisError:
                    pos.append(float('nan'))        # a symbolic number: only its position matters to the caller
        try:
            return t.args[0].v.format(*pos, **kw)
        except (IndexError, KeyError, ValueError) as exc:
            raise AnalysisError('C09.R8', 'metadata string', f'format call not renderable: {exc}')
    if isinstance(t, App) and t.name in ('str', 'call:str') and len(t.args) == 1:
        return render(t.args[0], ph)
    if isinstance(t, App) and t.name == 'apply' and isinstance(t.args[0], App) and t.args[0].name == 'attr:replace' \
            and len(t.args) == 3:
        return render(t.args[0].args[0], ph).replace(render(t.args[1], ph), render(t.args[2], ph))
    if isinstance(t, App) and t.name == 'apply' and isinstance(t.args[0], App) and len(t.args) == 1 \
            and t.args[0].name in ('attr:strip', 'attr:lstrip', 'attr:rstrip', 'attr:lower', 'attr:upper'):
        return getattr(render(t.args[0].args[0], ph), t.args[0].name[5:])()
    if isinstance(t, App) and t.name == 'binop:Add' and len(t.args) == 2:
        return render(t.args[0], ph) + render(t.args[1], ph)
    if isinstance(t, Tup) and t.kind == 'list':
        # str() of a list of strings, as an f-string prints it
        return '[' + ', '.join(repr(render(i, ph)) for i in t.items) + ']'
    if isinstance(t, Ite):
        return render(t.a if _concrete_bool(t.cond, ph) else t.b, ph)
    raise AnalysisError('C09.R8', 'metadata string', f'string-building term not understood: {show(t, 160)}')


def _concrete_bool(c, ph):
    """truth of a condition over rendered strings (membership / equality tests only)."""
    if isinstance(c, Const):
        return bool(c.v)
    if isinstance(c, BoolT) and c.op == 'truthy':
        try:
            return bool(render(c.args[0], ph))        # truthiness of a string
        except AnalysisError:
            return _concrete_bool(c.args[0], ph)
    if isinstance(c, BoolT):
        xs = [_concrete_bool(a, ph) for a in c.args]
        return {'and': all(xs), 'or': any(xs), 'not': not xs[0]}.get(c.op) if c.op != 'xor' else xs[0] != xs[1]
    if isinstance(c, Cmp) and c.op in ('in', 'notin', 'not in', '==', '!='):
        a, b = render(c.lhs, ph), render(c.rhs, ph)
        return {'in': a in b, 'notin': a not in b, 'not in': a not in b, '==': a == b, '!=': a != b}[c.op]
    try:
        return bool(render(c, ph))
    except AnalysisError:
        pass
    raise AnalysisError('C09.R8', 'metadata string', f'condition on the text not understood: {show(c, 160)}')


def _meta_writer(ctx):
    m = ctx.model
    ser, wfi, meta_fn = ds9.writer_funcs(m)
    mod = m.modules[ser.module]
    callees = set()
    for c in calls_in(ser.node):
        for f in m.resolve_call(ser, c) or ():
            if f.module == ser.module and f.qualname not in (wfi.qualname, ser.qualname):
                callees.add(f.qualname)
    cands = [f for f in mod.functions.values() if f.qualname in callees]
    if len(cands) > 1:
        # several helpers: the builder is the one that turns {'text': T} into a string mentioning `text=`
        keep = []
        for c in cands:
            try:
                txt = render(Evaluator(m).call(c, [DictV([{'text': Obj('str', {}, 'T')}])], {}), PLACEHOLDERS)
            except AnalysisError:
                continue
            if isinstance(txt, str) and 'text=' in txt:
                keep.append(c)
        cands = keep
    ctx.need(len(cands) == 1, ser.qualname, f'metadata string builder not identified ({[c.qualname for c in cands]})')
    return meta_fn, cands[0]


def _n_updates(m, f):
    """number of dict.update calls a function makes, itself or in the functions of its module it calls (one level): the
    raw-metadata merge is the 4-parameter reader function that layers global < composite < sign < own"""
    n = sum(1 for c in calls_in(f.node) if (call_name(c) or '').endswith('.update'))
    for c in calls_in(f.node):
        for g in m.resolve_call(f, c) or ():
            if g.cls is None and g.module == f.module and g.qualname != f.qualname:
                n += sum(1 for c2 in calls_in(g.node) if (call_name(c2) or '').endswith('.update'))
    return n


def r8(ctx):
    m = ctx.model
    meta_fn, mkstr = _meta_writer(ctx)
    par, make, lexers, raw, rmod = ds9.reader_funcs(m)
    S = lambda n: Obj('str', {}, n)          # noqa: E731
    T, G1, G2 = S('T'), S('G1'), S('G2')
    # the reader function that lexes "key=value ..." (holds the metadata regex) and the one merging the raw dicts
    lex = ds9.meta_lexer(m)
    merge = [f for f in rmod.functions.values() if len(f.node.args.args) == 4 and _n_updates(m, f) >= 3]
    ctx.need(len(merge) == 1, 'ds9 read', 'raw-metadata merge function not identified')
    merge = merge[0]
    cases = [('CirclePixelRegion', 'circle', 'pixel'), ('CircleSkyRegion', 'circle', 'sky'),
             ('TextPixelRegion', 'text', 'pixel'), ('TextSkyRegion', 'text', 'sky')]
    for cname, shape, rt in cases:
        ci = m.cls(cname)
        construct = f'{cname}: text/tag'
        ev = Evaluator(m)
        flds = {'meta': DictV([{'tag': Tup((G1, G2), 'list')}]), 'visual': DictV([{}])}
        if shape == 'text':
            flds['text'] = T
            # a stale meta text must not win over the region's text parameter
            flds['meta'] = DictV([{'text': S('STALE'), 'tag': Tup((G1, G2), 'list')}])
        else:
            flds['meta'] = DictV([{'text': T, 'tag': Tup((G1, G2), 'list')}])
        reg = Obj(cname, flds, 'region', ci)
        d = ev.call(meta_fn, [reg, Const(shape)], {})
        ctx.need(isinstance(d, DictV) and not d.has_symbolic(), construct, f'writer metadata not a keyed dict: {show(d, 200)}')
        if not ({'text', 'tag'} <= set(d.keys())):
            ctx.bad(construct, 'writer-drops', f'the DS9 metadata of a {cname} with text and tags has keys {sorted(d.keys())}',
                    meta_fn.loc())
            continue
        line = render(ev.call(mkstr, [d], {}), PLACEHOLDERS)
        # (b) the reader's own regex and delimiter stripping, on the writer's text
        ev2 = Evaluator(m, hooks=ds9.regex_hooks())
        got = ev2.call(lex, [Const(line)], {})
        ok = isinstance(got, DictV) and not got.has_symbolic()
        txt = got.get('text') if ok and 'text' in got.keys() else None
        tags = got.get('tag') if ok and 'tag' in got.keys() else None
        tag_vals = [i.v for i in tags.items] if isinstance(tags, Tup) and all(isinstance(i, Const) for i in tags.items) else None
        if not (isinstance(txt, Const) and txt.v == PLACEHOLDERS['T'] and tag_vals == [PLACEHOLDERS['G1'], PLACEHOLDERS['G2']]):
            ctx.bad(construct, 'delimiters',
                    f'the writer emits `{line}`; the reader\'s metadata lexer reads text={show(txt, 60)} tags={tag_vals} '
                    f'(wanted text={PLACEHOLDERS["T"]!r}, tags {[PLACEHOLDERS["G1"], PLACEHOLDERS["G2"]]})', lex.loc())
            continue
        # (c) merging keeps free text as it is, for every string
        ev3 = Evaluator(m)
        E = lambda: DictV([{}])           # noqa: E731
        mg = ev3.call(merge, [E(), E(), E(), DictV([{'text': T, 'tag': Tup((G1, G2), 'list')}])], {})
        bad = None
        if not (isinstance(mg, DictV) and not mg.has_symbolic() and {'text', 'tag'} <= set(mg.keys())):
            bad = f'merged metadata is {show(mg, 200)}'
        elif not same(mg.get('text'), T):
            bad = f'text becomes {show(mg.get("text"), 200)}'
        elif not same(mg.get('tag'), Tup((G1, G2), 'list')):
            bad = f'tag becomes {show(mg.get("tag"), 200)}'
        if bad:
            ctx.bad(construct, 'text-coerced',
                    f'{merge.qualname.split(":")[1]}: {bad} — a text or tag that looks like a number (text={{123}}, '
                    'text={1e3}, text={nan}) does not come back as the string that was written', merge.loc())
            continue
        # (d) the region is built with that text / those tags
        hooks = {'re.split': lambda ev_, a, k: Tup((), 'list')}
        for f in rmod.functions.values():
            if f.name == '_parse_shape_params':
                hooks[f.qualname] = lambda ev_, a, k, shape=shape: Tup((Const(shape), Tup((Obj('sp', {}, 'sp'),), 'list')))
            if f.name == '_define_region_params':
                hooks[f.qualname] = lambda ev_, a, k: Tup((Obj('POS', {}, 'POS'),), 'list')
        ctx.need(len(hooks) == 3, 'ds9 read', 'shape-parameter helpers not found')
        opaque = {f.qualname for f in m.modules['regions.io.ds9.meta'].functions.values() if 'visual' in f.name}
        ev4 = Evaluator(m, opaque_funcs=opaque, hooks=hooks)
        raw_meta = DictV([{'text': T, 'tag': Tup((G1, G2), 'list')}])
        rd = Obj('_RegionData', {'frame': Const('image' if rt == 'pixel' else 'fk5'), 'region_type': Const(rt),
                                 'shape': Const(shape), 'shape_params': Obj('str', {}, 'shape_params'), 'raw_meta': raw_meta,
                                 'region_str': Obj('str', {}, 'region_str')}, None, None)
        out = ev4.run(make, [rd], {})
        regs = [v for pc, v in out.returns if isinstance(v, Tup) and v.items]
        ctx.need(len(regs) == 1 and isinstance(regs[0].items[0], Obj), construct, 'reader did not build one region')
        r = regs[0].items[0]
        meta = r.fields.get('meta')
        md = meta.args[0] if isinstance(meta, App) and meta.args and isinstance(meta.args[0], DictV) else meta
        bad = None
        if r.cls != cname:
            bad = f'class {r.cls}'
        elif not isinstance(md, DictV):
            bad = f'meta is {show(meta, 120)}'
        elif 'tag' not in md.keys() or not same(md.get('tag'), Tup((G1, G2), 'list')):
            bad = 'tags are not the parsed tags'
        elif shape == 'text' and not same(r.fields.get('text'), T):
            bad = f'text parameter is {show(r.fields.get("text"), 120)}'
        elif shape != 'text' and not ('text' in md.keys() and same(md.get('text'), T)):
            bad = 'meta text is not the parsed text'
        if bad:
            ctx.bad(construct, 'reader-binding', f'region built from the parsed metadata: {bad}', make.loc())
        else:
            ctx.ok(construct, f'`{line}` -> lexed back, not coerced, bound to the region')
    # texts that contain delimiter characters: DS9 offers {} "" '' — any text avoiding one pair is expressible
    probes = ['a}b', '{q}', 'say "hi"', "it's", 'a}b"c', "a}b'c", 'ab}', '"ab']
    reg_ci = m.cls('CirclePixelRegion')
    failed = []
    for txt in probes:
        ev = Evaluator(m)
        reg = Obj('CirclePixelRegion', {'meta': DictV([{'text': T, 'tag': Tup((G1,), 'list')}]), 'visual': DictV([{}])},
                  'region', reg_ci)
        d = ev.call(meta_fn, [reg, Const('circle')], {})
        ph = {'T': txt, 'G1': txt}
        line = render(ev.call(mkstr, [d], {}), ph)
        got = Evaluator(m, hooks=ds9.regex_hooks()).call(lex, [Const(line)], {})
        ok = isinstance(got, DictV) and {'text', 'tag'} <= set(got.keys())
        t_ = got.get('text') if ok else None
        g_ = got.get('tag') if ok else None
        if not (isinstance(t_, Const) and t_.v == txt and isinstance(g_, Tup) and len(g_.items) == 1
                and isinstance(g_.items[0], Const) and g_.items[0].v == txt):
            failed.append((txt, line, show(t_, 40), show(g_, 60)))
    if not failed:
        ctx.ok('text delimiters', f'{len(probes)} texts/tags containing delimiter characters are written with a pair the lexer '
               'closes correctly')
    else:
        txt, line, t_, g_ = failed[0]
        ctx.bad('text delimiters', 'closing-brace-in-text',
                f'text/tag {txt!r} is written as `{line}` and lexed back as text={t_}, tag={g_} ({len(failed)} of '
                f'{len(probes)} probes differ): the written delimiter pair must not occur in the value (DS9 offers {{}}, "" '
                "and '')", meta_fn.loc())


ASSEMBLY_CASES = {
    'one frame, shared and differing metadata': [
        ('image', 'circle(1,2,3)', {'color': 'red', 'width': '2', 'tag': ['t1', 't2'], 'text': '{a b}'}),
        ('image', 'circle(4,5,6)', {'color': 'blue', 'width': '2'}),
        ('image', '-circle(7,8,9)', {'color': 'red', 'width': '2', 'include': '0'}),
    ],
    'differing frames': [
        ('image', 'circle(1,2,3)', {'color': 'red'}),
        ('fk5', 'circle(4,5,6)', {'color': 'red'}),
        ('image', 'circle(7,8,9)', {'color': 'red', 'dash': '1'}),
    ],
    'identical metadata': [
        ('galactic', 'point(1,2)', {'color': 'red', 'tag': ['x']}),
        ('galactic', 'point(3,4)', {'color': 'red', 'tag': ['y']}),
    ],
    'first region has the fewest keys': [
        ('fk5', 'circle(1,2,3)', {'color': 'red'}),
        ('fk5', 'circle(4,5,6)', {'color': 'red', 'width': '2'}),
        ('fk5', 'circle(7,8,9)', {'color': 'green', 'width': '2'}),
    ],
}


def r9(ctx):
    """list-level assembly: the serialiser, partially evaluated on region records (frame, region string, metadata) in place
    of the per-region serialiser, must emit text from which every record's frame, region string and metadata are recovered
    by the reader's rule (active frame line or "frame;" prefix; global metadata overridden by the region's own)."""
    m = ctx.model
    ser, wfi, meta_fn = ds9.writer_funcs(m)
    lex = ds9.meta_lexer(m)

    def conv(v):
        if isinstance(v, dict):
            return DictV([{k: conv(x) for k, x in v.items()}])
        if isinstance(v, list):
            return Tup(tuple(conv(x) for x in v), 'list')
        return Const(v)

    def lexmeta(txt):
        got = Evaluator(m).call(lex, [Const(txt)], {})
        ctx.need(isinstance(got, DictV) and not got.has_symbolic(), lex.qualname, f'metadata `{txt}` not lexed to a keyed dict')
        out = {}
        for k in got.keys():
            v = got.get(k)
            out[k] = [i.v for i in v.items] if isinstance(v, Tup) else (v.v if isinstance(v, Const) else show(v, 60))
        return out

    cases = dict(ASSEMBLY_CASES)
    if getattr(ctx, '_assembly_enum', False):
        # thorough tier: every list of 1..3 records over 3 frames x 6 metadata dictionaries
        import itertools
        metas = [{}, {'color': 'red'}, {'color': 'blue', 'width': '2'}, {'color': 'red', 'text': '{t}'},
                 {'color': 'red', 'tag': ['a', 'b']}, {'width': '2', 'include': '0'}]
        kinds = [(f, md) for f in ('image', 'fk5', 'galactic') for md in metas]
        cases = {}
        for k in (1, 2, 3):
            for seq in itertools.product(range(len(kinds)), repeat=k):
                cases[f'enum {seq}'] = [(kinds[i][0], ('-' if kinds[i][1].get('include') == '0' else '') + f'circle({j},{j},{j})',
                                         dict(kinds[i][1])) for j, i in enumerate(seq, 1)]
    nfail, firstfail = 0, None
    for cname, recs in cases.items():
        it = iter([conv({'frame': f, 'region': r, 'meta': md}) for f, r, md in recs])
        regs = Tup(tuple(Obj('CirclePixelRegion', {}, f'r{i}', m.cls('CirclePixelRegion')) for i in range(len(recs))), 'list')
        ev = Evaluator(m, hooks={wfi.qualname: lambda e, a, k: next(it)})
        out = ev.run(ser, [regs], {})
        vals = [v for pc, v in out.returns]
        ctx.need(len(vals) == 1, ser.qualname, f'{len(vals)} outcomes on concrete records')
        text = render(vals[0], {})
        lines = [ln for ln in text.split('\n') if ln.strip()]
        probs = []
        if not lines or not lines[0].startswith('# Region file format: DS9'):
            probs.append(f'first line is `{lines[0] if lines else ""}`')
        body = lines[1:]
        gmeta = {}
        frame = None
        recovered = []
        for ln in body:
            low = ln.strip()
            if low.startswith('global '):
                gmeta = lexmeta(low[7:])
                continue
            if '(' not in low:
                frame = low
                continue
            fr = frame
            if ';' in low.split('(')[0]:
                fr, low = [x.strip() for x in low.split(';', 1)]
            reg, _, mt = low.partition(' # ')
            eff = dict(gmeta)
            eff.update(lexmeta(mt) if mt else {})
            recovered.append((fr, reg.strip(), eff))
        want = []
        for f, r, md in recs:
            w = {k: ([x for x in v] if isinstance(v, list) else (v[1:-1] if k == 'text' else v)) for k, v in md.items()}
            want.append((f, r, w))
        if len(recovered) != len(want):
            probs.append(f'{len(recovered)} region lines for {len(want)} regions')
        else:
            for i, (g, w) in enumerate(zip(recovered, want)):
                if g[0] != w[0]:
                    probs.append(f'region {i + 1} is under frame {g[0]!r}, its own frame is {w[0]!r}')
                if g[1] != w[1]:
                    probs.append(f'region {i + 1} is written as `{g[1]}`, not `{w[1]}`')
                if g[2] != w[2]:
                    probs.append(f'region {i + 1} reads back with metadata {g[2]}, it was given {w[2]}')
        if getattr(ctx, '_assembly_enum', False):
            if probs:
                nfail += 1
                firstfail = firstfail or (recs, probs, text)
            continue
        if probs:
            ctx.bad(f'{ser.qualname.split(":")[1]}: {cname}', 'assembly', '; '.join(probs[:2]) + f' — output: {text!r}'[:400],
                    ser.loc())
        else:
            ctx.ok(f'{ser.qualname.split(":")[1]}: {cname}', f'{len(recs)} records recovered (frame, region text, effective metadata)')
    if getattr(ctx, '_assembly_enum', False):
        if nfail:
            recs, probs, text = firstfail
            ctx.bad(f'{ser.qualname.split(":")[1]}: enumeration', 'assembly',
                    f'{nfail} of {len(cases)} enumerated region lists are not recovered from the written text, e.g. {recs}: '
                    + '; '.join(probs[:2]) + f' — output: {text!r}'[:400], ser.loc())
        else:
            ctx.ok(f'{ser.qualname.split(":")[1]}: enumeration', f'{len(cases)} enumerated region lists (1..3 records over 3 frames x 6 '
                   'metadata dictionaries) recovered')


def r9b(ctx):
    """the list-level assembly rule R9 on every list of up to three records (thorough tier)."""
    ctx._assembly_enum = True
    try:
        r9(ctx)
    finally:
        ctx._assembly_enum = False


class _SubCtx:
    """Run a rule of another property, keeping only constructs that satisfy a filter."""

    def __init__(self, ctx, keep):
        self.ctx, self.keep = ctx, keep
        self.model, self.src, self.tier, self.prop = ctx.model, ctx.src, ctx.tier, ctx.prop
        self.instances = {}
        self._rule = ctx._rule
        self.n = 0
        self.nbad = 0

    def ok(self, construct, note=''):
        self.n += 1

    def bad(self, construct, what, msg, loc='', detail=None):
        if self.keep(loc + construct):
            self.nbad += 1
            self.ctx.bad(construct, what, msg, loc, detail)

    def note(self, t):
        pass

    def need(self, cond, construct, reason):
        self.ctx.need(cond, construct, reason)

    def flush(self, note, construct='ds9 writer'):
        if not self.nbad:
            self.ctx.ok(construct, note)


VISUAL_PROBES = [
    ('circle', 'CirclePixelRegion', 'color=red width=2 dash=1 dashlist=8 3 fill=1 font="helvetica 12 bold italic"'),
    ('circle', 'CirclePixelRegion', 'dash=1'),
    ('circle', 'CirclePixelRegion', 'font="courier 10 normal roman" color=#00ff00'),
    ('box', 'RectanglePixelRegion', 'fill=0 dash=0 width=1 color=blue'),
    ('ellipse', 'EllipsePixelRegion', 'fill=1 width=3'),
    ('polygon', 'PolygonPixelRegion', 'color=cyan dash=1 dashlist=4 2'),
    ('point', 'PointPixelRegion', 'point=cross 14 color=blue width=3'),
    ('point', 'PointPixelRegion', 'point=diamond'),
    ('line', 'LinePixelRegion', 'color=green width=2 dash=1'),
    ('text', 'TextPixelRegion', 'color=red font="times 14 bold roman" textangle=30'),
    ('annulus', 'CircleAnnulusPixelRegion', 'color=magenta width=2'),
]


def _dict_items(d):
    return sorted((k, show(d.get(k), 200)) for k in d.keys())


def _pv(t):
    """Python value of a constant term (None when it is not one)."""
    if isinstance(t, Const):
        return t.v
    if is_num(t) and t.is_number:
        f = float(t)
        return int(f) if f == int(f) else f
    if isinstance(t, Tup):
        vs = [_pv(i) for i in t.items]
        return None if any(v is None for v in vs) else (vs if t.kind == 'list' else tuple(vs))
    return None


# (shape, class, meta, visual, [(what must hold after write -> parse, predicate over (meta, visual) python dicts)])
WRITER_FIRST_PROBES = [
    ('circle', 'CirclePixelRegion', {'tag': 'group1'}, {},
     [('the tag "group1" comes back as the one tag', lambda M, V: M.get('tag') == ['group1'])]),
    ('circle', 'CirclePixelRegion', {'tag': ['a', 'b c']}, {},
     [('both tags come back', lambda M, V: M.get('tag') == ['a', 'b c'])]),
    ('circle', 'CirclePixelRegion', {'label': 'L'}, {},
     [('the label comes back (as text or label)', lambda M, V: 'L' in (M.get('text'), M.get('label')))]),
    ('circle', 'CirclePixelRegion', {}, {'linestyle': '-'},
     [('a solid line stays solid', lambda M, V: 'dashes' not in V and V.get('linestyle') in (None, '-', 'solid'))]),
    ('circle', 'CirclePixelRegion', {}, {'linestyle': 'solid'},
     [('a solid line stays solid', lambda M, V: 'dashes' not in V and V.get('linestyle') in (None, '-', 'solid'))]),
    ('circle', 'CirclePixelRegion', {}, {'linestyle': '--'},
     [('a dashed line stays dashed', lambda M, V: 'dashes' in V or V.get('linestyle') not in (None, '-', 'solid'))]),
    ('circle', 'CirclePixelRegion', {}, {'linewidth': 3, 'color': 'red'},
     [('line width 3 comes back', lambda M, V: V.get('linewidth') == 3)]),
    ('text', 'TextPixelRegion', {}, {'fontsize': 14, 'fontweight': 'bold'},
     [('font size and weight survive without a font name', lambda M, V: str(V.get('fontsize')) == '14' and V.get('fontweight') == 'bold')]),
    ('text', 'TextPixelRegion', {}, {'fontname': 'times', 'fontsize': 12.0, 'fontweight': 'bold', 'fontstyle': 'italic'},
     [('the font comes back', lambda M, V: V.get('fontname') == 'times' and float(V.get('fontsize')) == 12.0
       and V.get('fontweight') == 'bold' and V.get('fontstyle') == 'italic')]),
    ('point', 'PointPixelRegion', {}, {'marker': 'o', 'markersize': 7},
     [('the marker size comes back as the number 7', lambda M, V: V.get('markersize') == 7)]),
    # DS9 flags are 0/1: a flag a program sets with True/False must not be written as the word
    ('circle', 'CirclePixelRegion', {'select': True, 'fixed': False, 'source': True}, {},
     [('the flags select / fixed / source come back as 1 / 0 / 1',
       lambda M, V: (M.get('select'), M.get('fixed'), M.get('source')) == (1, 0, 1))]),
]


def r11(ctx):
    """serialise -> parse of metadata given by a program (not by a first parse): the writer's translation and string
    builder and the reader's whole metadata pipeline are partially evaluated on probe (meta, visual) dictionaries; what
    the dictionaries say (tags, label, solid/dashed, width, font, marker size) must come back, and nothing may raise."""
    m = ctx.model
    pipe = _meta_pipeline(ctx)
    meta_fn, mkstr = _meta_writer(ctx)
    for shape, cname, meta, visual, wants in WRITER_FIRST_PROBES:
        name = f'{shape}: meta={meta} visual={visual}'

        def term(v):
            if isinstance(v, (list, tuple)):
                return Tup(tuple(term(x) for x in v), 'list' if isinstance(v, list) else 'tuple')
            if isinstance(v, bool) or isinstance(v, str):
                return Const(v)
            if isinstance(v, int):
                return sp.Integer(v)
            if isinstance(v, float):
                return sp.Float(v)
            return Const(v)
        M0, err = pipe['construct']('RegionMeta', DictV([{k: term(v) for k, v in meta.items()}]), 'for the probe')
        V0, err2 = pipe['construct']('RegionVisual', DictV([{k: term(v) for k, v in visual.items()}]), 'for the probe')
        ctx.need(not err and not err2, name, f'probe dictionaries rejected: {err or err2}')
        ev = Evaluator(m)
        flds = {'meta': M0, 'visual': V0}
        if shape == 'text':
            flds['text'] = Const('t')
        try:
            d = ev.call(meta_fn, [Obj(cname, flds, 'region', m.cls(cname)), Const(shape)], {})
            if not (isinstance(d, DictV) and not d.has_symbolic()):
                raise AnalysisError('C09.R11', name, f'writer metadata not reducible: {show(d, 200)}')
            line = render(ev.call(mkstr, [d], {}), {})
        except AnalysisError as exc:
            ctx.need(False, name, f'writer not reducible on the probe: {exc}')
        M1, V1, err = pipe['parse'](shape, line)
        if err:
            ctx.bad(name, 'write-parse-raises', f'the region is written with `{line}`, and {err}: the text cannot be read back',
                    meta_fn.loc())
            continue
        Mp = {k: _pv(M1.get(k)) for k in M1.keys()}
        Vp = {k: _pv(V1.get(k)) for k in V1.keys()}
        failed = []
        for what, pred in wants:
            try:
                ok = bool(pred(Mp, Vp))
            except (TypeError, ValueError):
                ok = False
            if not ok:
                failed.append(what)
        if failed:
            ctx.bad(name, 'write-parse-differs',
                    f'written as `{line}` and read back as meta {Mp}, visual {Vp}: not true any more: {"; ".join(failed)}',
                    meta_fn.loc())
        else:
            ctx.ok(name, f'written as `{line}`; ' + '; '.join(w for w, _ in wants))


def _meta_pipeline(ctx):
    """the reader's metadata pipeline as two closures: construct(cname, dict, where) and parse(shape, text)."""
    return _r10_impl(ctx, build_only=True)


def r10(ctx):
    return _r10_impl(ctx)


def _r10_impl(ctx, build_only=False):
    """visual metadata is a fixed point of parse -> serialise -> parse: the reader's metadata pipeline (lexer, raw
    validation, meta/visual split, translation to matplotlib keys, RegionMeta/RegionVisual construction), the writer's
    translation back to DS9 keys and the reader's pipeline again are partially evaluated on probe metadata strings; the
    second parse must give the same meta and visual dictionaries as the first (region equality compares both)."""
    m = ctx.model
    par, make, lexers, raw, rmod = ds9.reader_funcs(m)
    lex = ds9.meta_lexer(m)
    meta_fn, mkstr = _meta_writer(ctx)

    def fn_calling(mod, callee_test, what):
        c = [f for f in mod.functions.values() if callee_test(f)]
        ctx.need(len(c) == 1, 'ds9', f'{what} not identified ({[x.qualname for x in c]})')
        return c[0]
    merge = fn_calling(rmod, lambda f: len(f.node.args.args) == 4 and _n_updates(m, f) >= 3, 'raw-metadata merge function')
    # split and translation are the two functions the region builder applies to raw_meta, in that order
    callees = []
    for st in stmts_of(make.node):
        if isinstance(st, ast.Assign) and isinstance(st.value, ast.Call):
            for f in m.resolve_call(make, st.value) or ():
                if f.module != make.module and f not in callees:
                    callees.append(f)
    ctx.need(len(callees) >= 2, make.qualname, 'metadata split/translation calls not found')
    split, trans = callees[0], callees[1]
    metacls = m.cls('Meta')
    init = metacls.methods.get('__init__')

    def construct(cname, d, where):
        """RegionMeta(d) / RegionVisual(d): the entries stored through the validating __setitem__."""
        stores = {}
        ev = Evaluator(m, hooks={'super:__setitem__': lambda e, a, k: (stores.__setitem__(a[1].v if isinstance(a[1], Const) else show(a[1]), a[2]), Const(None))[1]})
        o = Obj(cname, {}, 'self', m.cls(cname))
        out = ev.run(init, [o, d], {})
        definite = [n for pc, n, _ in out.raises if not [c for c in pc if not (isinstance(c, Const) and c.v is True)]]
        if definite:
            return None, f'{cname}({show(d, 160)}) raises {definite[0]} {where}'
        if out.raises:
            raise AnalysisError('C09.R10', where, f'{cname} construction not reducible: {show(d, 120)}')
        return DictV([stores]), None

    def parse(shape, text):
        ev = Evaluator(m)
        E = lambda: DictV([{}])           # noqa: E731
        d = ev.call(lex, [Const(text)], {})
        rawm = ev.call(merge, [E(), E(), E(), d], {})
        ctx.need(isinstance(rawm, DictV) and not rawm.has_symbolic(), f'parse `{text}`', f'raw metadata not reducible: {show(rawm, 160)}')
        mv = ev.call(split, [rawm], {})
        ctx.need(isinstance(mv, Tup) and len(mv.items) == 2, split.qualname, 'does not return (meta, visual)')
        tout = ev.run(trans, [Const(shape), mv.items[1]], {})
        tdef = [n_ for pc_, n_, _ in tout.raises if not [c for c in pc_ if not (isinstance(c, Const) and c.v is True)]]
        if tdef and not tout.returns:
            return None, None, f'reading `{text}` raises {tdef[0]} in {trans.name}'
        vis = ev.gated_return(tout)
        ctx.need(isinstance(vis, DictV) and not vis.has_symbolic(), f'parse `{text}`', f'visual metadata not reducible: {show(vis, 200)}')
        meta = mv.items[0]
        if shape == 'text' and 'text' in meta.keys():
            meta.pop('text')
        M, err = construct('RegionMeta', meta, f'when parsing `{text}`')
        if err:
            return None, None, err
        V, err = construct('RegionVisual', vis, f'when parsing `{text}`')
        return M, V, err

    if build_only:
        return {'construct': construct, 'parse': parse}
    for shape, cname, text in VISUAL_PROBES:
        construct_name = f'{shape}: {text}'
        M1, V1, err = parse(shape, text)
        if err:
            ctx.bad(construct_name, 'parse-raises', err, trans.loc())
            continue
        ev = Evaluator(m)
        flds = {'meta': M1.copy(), 'visual': V1.copy()}
        if shape == 'text':
            flds['text'] = Const('t')
        d = ev.call(meta_fn, [Obj(cname, flds, 'region', m.cls(cname)), Const(shape)], {})
        ctx.need(isinstance(d, DictV) and not d.has_symbolic(), construct_name, f'writer metadata not reducible: {show(d, 200)}')
        line = render(ev.call(mkstr, [d], {}), {})
        M2, V2, err = parse(shape, line)
        if err:
            ctx.bad(construct_name, 'reparse-raises', f'`{text}` is parsed, written as `{line}`, and {err}', meta_fn.loc())
            continue
        if _dict_items(M1) != _dict_items(M2) or _dict_items(V1) != _dict_items(V2):
            a, b = dict(_dict_items(V1) + _dict_items(M1)), dict(_dict_items(V2) + _dict_items(M2))
            diff = {k: (a.get(k), b.get(k)) for k in sorted(set(a) | set(b)) if a.get(k) != b.get(k)}
            ctx.bad(construct_name, 'visual-fixed-point',
                    f'`{text}` is parsed to visual {dict(_dict_items(V1))}, written as `{line}`, and parsed again with '
                    f'{diff} (first parse, second parse): parse -> serialise -> parse is not a fixed point', meta_fn.loc())
        else:
            ctx.ok(construct_name, f'written as `{line}`; second parse gives the same {len(V1.keys())} visual keys')


RULES = [
    RuleDef('R1', 'token-level writer∘reader round trip per class (names, slots, inverse constants)', r1, 22),
    RuleDef('R2', 'reader lexers: whole-token float(), suffix table, pixel shift (shared with C10.R3/R3b)', r2, 6),
    RuleDef('R3', 'frame tables are mutually inverse', r3, 6),
    RuleDef('R4', 'skip discipline (stated belief / check-then-use)', r4, 8),
    RuleDef('R5', 'include sense survives (sign, {0,1})', r5, 2),
    RuleDef('R6', 'deterministic output', r6, 1),
    RuleDef('R7', 'serialisers do not mutate the regions', r7, 2),
    RuleDef('R9', 'list-level assembly: global/own metadata and frame lines recover every record', r9, 4),
    RuleDef('R9b', 'list-level assembly on every list of 1..3 records over 3 frames x 6 metadata dictionaries', r9b, 1, tier='deep'),
    RuleDef('R11', 'write -> parse of programmatic metadata (tags, label, solid/dashed, width, font, marker size, Boolean flags) on probe dictionaries', r11, 8),
    RuleDef('R10', 'visual metadata: parse -> serialise -> parse fixed point on probe metadata', r10, 11),
    RuleDef('R8', 'text and tags: written delimiters are the ones lexed; free text is never coerced; bound to the region', r8, 5),
]
