"""C11 — CRTF text round-trips and is read according to the CASA conventions."""
import ast
import re
import string

import sympy as sp

from ..astutil import call_name, calls_in, norm, stmts_of
from ..report import RuleDef
from ..src import AnalysisError
from ..tb import class_tables, tables
from ..vg import (ANG, DEG, PLAIN_QUANTITY, App, BoolT, Cmp, Const, DictV,
                  Evaluator, Ite, Obj, Tup, contains_unknown, is_num,
                  mark_quantity, num_equal, same, show, sym, unq, walk_terms)
from .common import method_or_fail

EXPLANATION = (
    'Decides from source: (R1) frame tables are mutually inverse — for each of the 7 valid_coordsys names the writer\'s CASA '
    'name, lower-cased and pushed through the reader\'s mapping, is the same astropy frame; (R2) shape vocabulary: every '
    'CRTF-representable class (circle, annulus, ellipse, rotbox, poly, line, text, symbol; pixel and sky) is mapped by the '
    'class-name pipeline to an attribute list covering its fields, the token its line template emits is a definition the reader '
    'accepts and reg_mapping + the shape->class table lead back to the same class; a text region writes its own text; (R3) '
    'token-level composition of the symbolic writer value with the symbolic reader value (the reader\'s own regexes applied to '
    'the writer\'s template decide which bracket feeds which slot): every field returns to its constructor slot, ellipse axes '
    'are written as [height/2, width/2] = [major, minor] semi-axes and read back doubled and swapped, sizes and angles are '
    'written in the labelled unit (degrees) in sky and image coordinates alike; (R4) "-" <=> include False and "ann " <=> type '
    'ann on both sides; (R5) per-region meta starts as a deep copy of the global dict and inline keys override it; (R6) a length '
    'without unit raises; (R7) the serialiser does not mutate the regions; (R8) CASA frame keywords, read-side box notations, metadata key '
    'agreement; (R9) value level for label and text: the metadata text the writer appends for a labelled region and the line it '
    'writes for a text region (templates from the source, representative multi-word value) are lexed by the reader\'s own '
    'regex_line / regex_meta / regex_length (stdlib re on the source patterns) back to one region, no stray parameters, the same '
    'label/text, and the label is bound to the region meta; two probes (label with a comma, text with "=") decide the quoting '
    'discipline; (R3 also runs with radunit=arcsec/arcmin, where sizes are labelled with the quote units); (R10) every key the '
    'reader splits into a list (taken from its source) is written by the writer in the bracket form that the metadata regex and the '
    'split/strip chain read back as the same list; (R11) the coordinate and length lexers are partially evaluated on one probe token per branch of their '
    'dispatch (pix, hms, rad, a:b:c hours, a.b.c.d degrees, decimal degrees, dms; ", \', deg, rad, arcmin, arcsec, pix, bare '
    'number -> error). Not decided: numeric formatting per fmt, what astropy\'s Angle makes of the string it is handed.')
EXPLANATION_ADDED = (" (R3 also) image-frame lines are read through the pixel branch unconditionally with centre (x, y) = first, second entry, sizes as plain numbers and the angle as a quantity; lines are probed in both frames; the centre is printed in the frame named by coord= with default attributes (frame-level transform); a region written in another frame must have its angle corrected (known finding). (R8 also) the reader's frame keyword mapping is evaluated on CASA keywords in both letter cases; the writer's key whitelist is observed by evaluation. (R12) the document-level parser is partially evaluated on eight probe documents (global defaults and their update, comments, ann / sign prefixes, list-valued and upper-case global keys, error modes). (R13) parsed shapes become regions one each, in order.")
EXPLANATION += EXPLANATION_ADDED
EXPLANATION_ADDED2 = (' (R14, deep tier) grammar enumeration: every document of at most four lines over an 11-line CRTF grammar (header, global lines, comments, ann / sign prefixes, shapes with and without inline metadata, a malformed line; 16104 documents) is pushed through the partially evaluated document parser and compared with a state-machine oracle (global dictionary in force, per-shape overrides, include/annotation flags, error mode).')
EXPLANATION += EXPLANATION_ADDED2
EXPLANATION_ADDED3 = (' (R9 also) a text region with a label of its own (different from its text) is written with that label: the writer, evaluated on a TextSkyRegion with constant text and label, must emit label=...')
EXPLANATION += EXPLANATION_ADDED3
TRUSTED = ['the reader\'s regexes, applied to the constant line template, return the bracketed pairs / trailing lengths in order '
           '(stdlib re on constants from the source)', 'Quantity.to(unit).value', 'frame_transform_graph.get_names() maps astropy '
           'frame names to themselves']
ASSUMPTIONS = ['_to_shape_list converts Angle sizes to plain Quantity before formatting (checked in R2)']

IO_CORE = 'regions.io.crtf.io_core'
READ = 'regions.io.crtf.read'

REPRESENTABLE = ('Circle', 'CircleAnnulus', 'Ellipse', 'Rectangle', 'Polygon', 'Line', 'Text', 'Point')


def r1(ctx):
    m = ctx.model
    t = tables(m, IO_CORE).env
    valid = t.get('valid_coordsys', {}).get('CRTF')
    wmap = t.get('coordsys_mapping', {}).get('CRTF')
    ctx.need(isinstance(valid, list) and isinstance(wmap, dict), IO_CORE, 'coordsys tables not evaluable')
    ce = class_tables(m, '_CRTFRegionParser')
    rmap = ce.get('coordsys_mapping')
    ctx.need(isinstance(rmap, dict), '_CRTFRegionParser.coordsys_mapping', 'not evaluable')
    over = {k: v for k, v in rmap.items() if k != '__opaque__'}
    astropy_names = set(valid) - {'image'}
    for name in valid:
        w = wmap.get(name)
        if w is None:
            ctx.bad(f'coordsys:{name}', 'no-casa-name', f'{name} has no CASA name in the writer table', 'regions/io/crtf/io_core.py')
            continue
        back = over.get(w.lower(), w.lower())
        if back == name and (back in astropy_names or back == 'image'):
            ctx.ok(f'coordsys:{name}', f'-> {w} -> {back}')
        else:
            ctx.bad(f'coordsys:{name}', 'not-inverse',
                    f'writer maps {name} -> "{w}", reader maps "{w.lower()}" -> {back!r}', 'regions/io/crtf/read.py')
    # the serialiser's global line uses the same table with the lower-cased option
    sl = m.cls('_ShapeList')
    f = method_or_fail(ctx, sl, 'to_crtf')
    if "coordsys_mapping['CRTF'][coordsys.lower()]" in norm(f.node):
        ctx.ok('_ShapeList.to_crtf:global-coord', 'global coord= taken from the writer table')
    else:
        ctx.bad('_ShapeList.to_crtf', 'global-coord', 'global coord line not derived from coordsys_mapping', f.loc())


def _template_tokens(model):
    """{template key: (emitted CRTF token, template)} from the writer's line-template table — a dict literal of strings of
    the form '{0}<token>[...' inside to_crtf or at module level of its module."""
    sl = model.cls('_ShapeList')
    f = model.method(sl, 'to_crtf')
    mod_tree = model.src.parse(f.path)
    for scope in (f.node, mod_tree):
        for st in ast.walk(scope):
            if isinstance(st, ast.Assign) and isinstance(st.value, ast.Dict) and st.value.values:
                d = {}
                for k, v in zip(st.value.keys, st.value.values):
                    try:
                        txt = ast.literal_eval(v)
                        key = ast.literal_eval(k)
                    except Exception:
                        d = None
                        break
                    mm = re.match(r'\{0\}(\w+)\[', txt) if isinstance(txt, str) else None
                    if mm is None:
                        d = None
                        break
                    d[key] = (mm.group(1), txt)
                if d and len(d) >= 5:
                    return f, d
    raise AnalysisError('C11', '_ShapeList.to_crtf', 'line-template table not found')


def _classes(model):
    out = []
    for base in REPRESENTABLE:
        for suf in ('PixelRegion', 'SkyRegion'):
            out.append(model.cls(base + suf))
    return out


def eval_writer(model, ci, coordsys, meta=None, visual=None, radunit=None, text=None):
    from ..vg import reset_marks
    reset_marks()
    ser = model.registered('serialize', 'crtf')
    ev = Evaluator(model)
    s = ev.symbolic_instance(ci, 'region')
    s.fields['meta'] = DictV([dict(meta if meta is not None else {'include': Obj('flag', {}, 'INC')})])
    s.fields['visual'] = DictV([dict(visual or {})])
    if 'text' in model.params_of(ci):
        s.fields['text'] = Obj('str', {}, 'region.text') if text is None else Const(text)
    for p in model.params_of(ci):
        k = model.descriptor_kind(ci, p)
        if k in ('PositiveScalarAngle', 'ScalarAngle'):
            q = mark_quantity(sp.Symbol(f'region.{p}', positive=(k == 'PositiveScalarAngle'), real=True))
            PLAIN_QUANTITY.add(q)
            s.fields[p] = q
    kw = {'coordsys': Const(coordsys)}
    if radunit is not None:
        kw['radunit'] = Const(radunit)
    out = ev.run(ser, [Tup((s,), 'list')], kw)
    return ser, ev, out


def _format_call(out):
    for pc, v in out.returns:
        for x in walk_terms(v):
            if isinstance(x, App) and x.name == 'str.format' and isinstance(x.args[0], Const) and '{0}' in x.args[0].v:
                return x
    return None


def r2(ctx):
    m = ctx.model
    t = tables(m, IO_CORE).env
    attrs = t.get('regions_attributes')
    regmap = t.get('reg_mapping', {}).get('CRTF')
    ctx.need(isinstance(attrs, dict) and isinstance(regmap, dict), IO_CORE, 'shape tables not evaluable')
    valid_def = class_tables(m, '_CRTFParser').get('valid_definition')
    ctx.need(isinstance(valid_def, tuple), '_CRTFParser.valid_definition', 'not evaluable')
    shp = class_tables(m, '_Shape')
    to_sky, to_pix = shp.get('shape_to_sky_region'), shp.get('shape_to_pixel_region')
    for ci in _classes(m):
        construct = ci.name
        sky = m.is_subclass(ci, 'SkyRegion')
        ser, ev, out = eval_writer(m, ci, 'fk5' if sky else 'image')
        fc = _format_call(out)
        probs = []
        if fc is None:
            need = [show(v, 200) for _, v in out.returns][:1]
            raise AnalysisError('C11.R2', construct, f'no line template reached for this class: {need}')
        template = fc.args[0].v
        mm = re.match(r'\{0\}(\w+)\[', template)
        token = mm.group(1) if mm else None
        reg_type = (ci.name[:-9] if sky else ci.name[:-11]).lower()
        if reg_type not in attrs:
            probs.append(f'class-name pipeline gives "{reg_type}", which has no attribute list')
        else:
            missing = [p for p in m.params_of(ci) if p not in attrs[reg_type] and p != 'text']
            if missing:
                probs.append(f'attribute list {attrs[reg_type]} does not cover fields {missing}')
        if token not in valid_def:
            probs.append(f'the line template emits the token "{token}", which is not a CRTF definition the reader accepts '
                         f'({valid_def})')
        elif regmap.get(token) != reg_type:
            probs.append(f'token "{token}" maps back to "{regmap.get(token)}", not "{reg_type}"')
        else:
            back = (to_sky if sky else to_pix).get(reg_type)
            if not (isinstance(back, tuple) and back[1] == ci.name):
                probs.append(f'shape table maps "{reg_type}" to {back}, not {ci.name}')
        if 'text' in m.params_of(ci):
            txt = None
            for a in fc.args[1:]:
                if isinstance(a, Tup) and len(a.items) == 2 and isinstance(a.items[0], Const) and a.items[0].v == 'text':
                    txt = a.items[1]
            from ..vg import walk_terms as _wt
            leaves = {x.path for x in _wt(txt) if isinstance(x, Obj) and x.path} if txt is not None else set()
            if not (isinstance(txt, Obj) and txt.path == 'region.text') and leaves != {'region.text'}:
                # (a quoted / escaped rendering of the text field — built from region.text alone — is the text field)
                probs.append(f'the text written is {show(txt, 60)}, not the region\'s text field')
        if probs:
            ctx.bad(construct, 'vocabulary', '; '.join(probs), ser.loc())
        else:
            ctx.ok(construct, f'-> "{reg_type}" -> token "{token}" -> {ci.name}')
    # Angle sizes are converted to plain Quantity before formatting
    f = m.func(IO_CORE, '_to_shape_list')
    # (decided on the value: a circle whose radius is an Angle object must reach the shape as Quantity(Angle))
    evq = Evaluator(m)
    rq = evq.symbolic_instance(m.cls('CircleSkyRegion'), 'region')
    rq.fields['radius'] = App('astropy.coordinates.Angle', (sp.Symbol('r_angle', positive=True),))
    outq = evq.run(f, [Tup((rq,), 'list'), Const('fk5')], {})
    conv = False
    for _, v in outq.returns:
        items = v.fields.get('__items__') if isinstance(v, Obj) else None
        if isinstance(items, Tup) and items.items and isinstance(items.items[0], Obj):
            co = items.items[0].fields.get('coord')
            if isinstance(co, Tup) and len(co.items) == 3:
                conv = isinstance(co.items[2], App) and co.items[2].name == 'astropy.units.Quantity'
    if conv:
        ctx.ok('_to_shape_list:angle-to-quantity', 'Angle values become plain Quantity (so they are unit-converted when written)')
    else:
        ctx.bad('_to_shape_list', 'angle-not-converted', 'Angle-valued sizes are not turned into Quantity: they would be written '
                'as raw numbers in their own unit', f.loc())


# ----------------------------------------------------------------- reader on the writer's template
def _regexes(model):
    rmod = model.modules[READ]
    out = {}
    for name in ('regex_coordinate', 'regex_length', 'regex_meta'):
        if name not in rmod.assigns:
            raise AnalysisError('C11', READ, f'{name} not found')
        v = rmod.assigns[name][0].value
        out[name] = v.args[0].value
    return out


def _placeholder_text(template):
    """replace {k:...} by word-like placeholders Tk<unit> keeping the literal unit suffix."""
    def rep(mm):
        k = mm.group(1)
        return f'T{k}'
    txt = re.sub(r'\{(\d+)(?::[^}]*)?\}', rep, template)
    txt = re.sub(r'\{(\w+)\}', lambda mm_: f'T{mm_.group(1)}', txt)
    return txt


def eval_reader(model, template, token, include='+', type_='reg', global_meta=None, meta_pairs=()):
    rx = _regexes(model)
    line = _placeholder_text(template)[2:]  # drop T0 (include prefix)
    coords = re.compile(rx['regex_coordinate']).findall(line)
    lens = re.compile(rx['regex_length']).findall(line)

    def tok(s):
        o = Obj('str', {}, s)
        o.truth = True
        return o

    def conv(x):
        return Tup(tuple(tok(i) for i in x)) if isinstance(x, tuple) else tok(x)

    def findall(ev_, args, kw):
        base = args[0]
        if (isinstance(base, App) and base.name == 're.compile') or (isinstance(base, Obj) and base.cls == 'regex'):
            p = base.args[0].v if isinstance(base, App) else base.fields['pattern'].v
            if p == rx['regex_coordinate']:
                return Tup(tuple(conv(c) for c in coords), 'list')
            if p == rx['regex_length']:
                return Tup(tuple(conv(c) for c in lens), 'list')
            if p == rx['regex_meta']:
                return Tup(tuple(Tup(tuple(Const(x) for x in (tuple(p_) + ('', ''))[:4])) for p_ in meta_pairs), 'list')
        return NotImplemented

    ci = model.cls('_CRTFRegionParser')
    cp = model.cls('_CRTFCoordinateParser')
    over = {k: v for k, v in class_tables(model, '_CRTFRegionParser').get('coordsys_mapping', {}).items() if k != '__opaque__'}

    def set_cs(ev_, args, kw):
        o = args[0]
        cs = o.fields['coordsys'].v.lower() if isinstance(o.fields.get('coordsys'), Const) else 'image'
        o.fields['coordsys'] = Const(over.get(cs, cs))
        return Const(None)
    ev = Evaluator(model, hooks={
        'method:findall': findall,
        cp.methods['parse_coordinate'].qualname: lambda e, a, k: App('astropy.coordinates.Angle', (a[-1],)),
        cp.methods['parse_angular_length_quantity'].qualname: lambda e, a, k: App('astropy.units.Quantity', (a[-1],)),
        ci.methods['set_coordsys'].qualname: set_cs})
    gm = DictV([dict(global_meta if global_meta is not None else {'coord': Const('J2000')})])
    o = ev.construct(ci, [gm, Const(include), Const(type_), Const(token), Obj('str', {}, 'reg_str'),
                          Const('x=1' if meta_pairs else '')], {}, 0)
    sh = o.fields.get('shape')
    reg = None
    if isinstance(sh, Obj) and sh.ci is not None:
        f = model.method(sh.ci, 'to_region')
        out = ev.run(f, [sh], {})
        regs = [v for _, v in out.returns if isinstance(v, Obj)]
        reg = regs[-1] if regs else None
        if reg is not None:
            # how unconditional the construction is: (number of return outcomes, names of possible errors)
            reg.outcome = (len(out.returns), sorted({n for _, n, _ in out.raises}))
    return o, sh, reg, (coords, lens)


def _tok_of(t):
    """(placeholder name, scale) of a reader value k * Lex(TOK)."""
    scale = sp.Integer(1)
    cur = t
    while isinstance(cur, App) and ((cur.name in ('binop:Mult', 'binop:Div') and is_num(cur.args[1]))
                                   or cur.name == 'attr:value'):
        if cur.name != 'attr:value':
            scale = scale * cur.args[1] if cur.name == 'binop:Mult' else scale / cur.args[1]
        cur = cur.args[0]
    if isinstance(cur, App) and cur.name in ('astropy.coordinates.Angle', 'astropy.units.Quantity') and \
            isinstance(cur.args[0], Obj):
        return cur.args[0].path, scale
    return None, scale


def _same_frame(t, _d=0):
    """the term in the scenario "the region's own frame is the output frame": every `is_equivalent_frame` test true, so
    that a correction for a frame change drops out and the slot can be compared with the field itself."""
    from ..vg import BoolT, Cmp
    if _d > 80:
        return t
    if isinstance(t, Ite):
        c, neg = t.cond, False
        while isinstance(c, BoolT) and c.op in ('not', 'truthy') and len(c.args) == 1:
            neg ^= (c.op == 'not')
            c = c.args[0]
        if isinstance(c, App) and 'is_equivalent_frame' in show(c, 300) and 'ite(' not in show(c, 300):
            return _same_frame(t.b if neg else t.a, _d + 1)
        if isinstance(c, Ite):
            # a truthiness test of a join: push the test into the arms
            inner = _same_frame(c, _d + 1)
            if isinstance(inner, Const):
                val = bool(inner.v) ^ neg
                return _same_frame(t.a if val else t.b, _d + 1)
            if isinstance(inner, App) and inner.name.endswith('Quantity'):
                return _same_frame(t.b if neg else t.a, _d + 1)      # a quantity object is truthy only if non-zero: undecided
        if isinstance(c, Cmp) and c.op in ('is', 'isnot') and isinstance(c.rhs, Const) and c.rhs.v is None:
            lhs = _same_frame(c.lhs, _d + 1)
            if isinstance(lhs, Const) and lhs.v is None:
                val = (c.op == 'is') ^ neg
                return _same_frame(t.a if val else t.b, _d + 1)
        return Ite(t.cond, _same_frame(t.a, _d + 1), _same_frame(t.b, _d + 1))
    if isinstance(t, App):
        return App(t.name, tuple(_same_frame(a, _d + 1) for a in t.args))
    if isinstance(t, Tup):
        return Tup(tuple(_same_frame(a, _d + 1) for a in t.items), t.kind)
    return t


def _renorm(t):
    """fold the arithmetic that stayed unevaluated because its operand was a join when it was built:
    float(x), x.to(unit).value on an angle symbol, and * / by numbers."""
    if isinstance(t, App):
        a = tuple(_renorm(x) for x in t.args)
        if t.name == 'float' and len(a) == 1 and is_num(a[0]):
            return a[0]
        if t.name == 'attr:value' and len(a) == 1 and isinstance(a[0], App) and a[0].name == 'apply' and len(a[0].args) == 2 \
                and isinstance(a[0].args[0], App) and a[0].args[0].name == 'attr:to' and isinstance(a[0].args[1], Const):
            q = unq(a[0].args[0].args[0])
            unit = {'deg': DEG, 'rad': ANG, 'arcsec': DEG / 3600, 'arcmin': DEG / 60}.get(a[0].args[1].v)
            if is_num(q) and unit is not None:
                return q / unit
        if t.name in ('binop:Mult', 'binop:Div') and len(a) == 2 and is_num(a[0]) and is_num(a[1]):
            return a[0] * a[1] if t.name == 'binop:Mult' else a[0] / a[1]
        return App(t.name, a)
    return t


def _spine(t):
    """the terms along the scale/value spine of a reader value (outermost first)."""
    cur = t
    while isinstance(cur, App) and ((cur.name in ('binop:Mult', 'binop:Div') and is_num(cur.args[1])) or cur.name == 'attr:value'):
        yield cur
        cur = cur.args[0]
    yield cur


_CENTRE_BASE = {}


def _find_apps_named(t, suffix):
    return [x for x in walk_terms(t) if isinstance(x, App) and x.name.endswith(suffix)]


SKY_SIZE_FIELDS = {'CircleSkyRegion': ['radius'], 'CircleAnnulusSkyRegion': ['inner_radius', 'outer_radius'],
                   'EllipseSkyRegion': ['width', 'height', 'angle'], 'RectangleSkyRegion': ['width', 'height', 'angle']}


def r3(ctx):
    m = ctx.model
    for cname, fields in SKY_SIZE_FIELDS.items():
        ci = m.cls(cname)
        for coordsys, radunit in (('fk5', None), ('image', None), ('fk5', 'arcsec'), ('fk5', 'arcmin')):
            wci = ci if coordsys == 'fk5' else m.cls(cname.replace('SkyRegion', 'PixelRegion'))
            construct = f'{wci.name} [{coordsys}]' + (f' radunit={radunit}' if radunit else '')
            ser, ev, out = eval_writer(m, wci, coordsys, radunit=radunit)
            fc = _format_call(out)
            ctx.need(fc is not None, construct, 'no line template reached')
            template = fc.args[0].v
            args = [a for a in fc.args[1:] if not (isinstance(a, Tup) and len(a.items) == 2 and isinstance(a.items[0], Const)
                                                   and isinstance(a.items[0].v, str))]
            token = re.match(r'\{0\}(\w+)\[', template).group(1)
            gm = {'coord': Const('image')} if coordsys == 'image' else None
            pr, sh, reg, (coords, lens) = eval_reader(m, template, token, global_meta=gm)
            probs = []
            if reg is not None and reg.cls != wci.name:
                probs.append(f'the line written for a {wci.name} is read back as a {reg.cls}')
            if reg is None:
                probs.append(f'the reader builds no region from the writer\'s own template ({template})')
            elif coordsys == 'image' and set(getattr(reg, 'outcome', (1, []))[1]) - {'ValueError', 'TypeError'}:
                probs.append(f'reading the writer\'s own image-frame line can end in {reg.outcome[1]} (the pixel branch of '
                             'to_region is not taken unconditionally for a pixel centre)')
            else:
                for f in fields:
                    got = reg.fields.get(f)
                    name, rscale = _tok_of(got)
                    if name is None:
                        probs.append(f'{f} is read as {show(got, 80)}')
                        continue
                    if coordsys == 'image':
                        # kind of the value handed to the pixel class: sizes are plain numbers (PositiveScalar rejects
                        # quantities), the angle stays a quantity (ScalarAngle rejects plain numbers)
                        bare = any(isinstance(x, App) and x.name == 'attr:value' for x in _spine(got))
                        if f == 'angle' and bare:
                            probs.append(f'angle reaches {wci.name} as a plain number ({show(got, 60)}): the class requires an angular quantity')
                        elif f != 'angle' and not bare:
                            probs.append(f'{f} reaches {wci.name} as a quantity object ({show(got, 60)}): the class requires a plain number')
                    j = int(re.match(r'T(\d+)', name).group(1))
                    if j >= len(args):
                        probs.append(f'{f} is read from slot {j}, which the writer does not fill')
                        continue
                    warg = unq(_renorm(_same_frame(args[j])))
                    base = sp.Symbol(f'region.{f}', positive=(f != 'angle'), real=True)
                    if not is_num(warg):
                        raise AnalysisError('C11.R3', construct, f'written value for slot {j} not numeric: {show(warg, 100)}')
                    # the label after the slot in the template
                    lab = re.search(r'\{%d(?::[^}]*)?\}(\w+|"|\'|)' % j, template).group(1)
                    if coordsys == 'image' and f != 'angle':
                        want = base            # pixel sizes are plain numbers
                    else:
                        unit = {'deg': DEG, 'rad': ANG, 'arcsec': DEG / 3600, 'arcmin': DEG / 60, '"': DEG / 3600,
                                "'": DEG / 60}.get(lab)
                        if unit is None:
                            probs.append(f'{f}: unknown unit label "{lab}"')
                            continue
                        want = base / unit     # the number that, labelled `lab`, denotes the field's value
                    ratio = sp.simplify((warg.subs(ANG, 1)) / (want.subs(ANG, 1)))
                    if not ratio.is_number:
                        probs.append(f'{f}: slot {j} is written as {show(warg, 100)} and labelled "{lab}": not the field expressed in '
                                     'that unit (the number depends on the unit the value was given in)')
                    elif sp.simplify(ratio * rscale) != 1:
                        probs.append(f'{f}: written x{ratio} (slot {j}) and read x{rscale}: the round trip does not return the value')
            # centre: slots 1, 2 are (lon, lat) / (x, y) in that order, labelled deg whatever radunit says, and the reader
            # feeds them to the coordinate in the same order
            if len(args) > 2 and 'center' in m.params_of(wci):
                a1, a2 = show(args[1], 2000), show(args[2], 2000)
                if coordsys == 'image':
                    if not (a1 == 'region.center.x' and a2 == 'region.center.y'):
                        probs.append(f'centre slots are written as ({a1[:60]}, {a2[:60]}), not (x, y)')
                else:
                    if not ('attr:lon(' in a1 and 'attr:lat(' not in a1 and 'attr:lat(' in a2 and 'attr:lon(' not in a2):
                        probs.append(f'centre slots are written as ({a1[:80]}, {a2[:80]}), not (lon, lat)')
                    # the numbers are read back in the frame named by coord= with its *default* attributes: the centre's
                    # frame object must be transformed to an instance of that frame (SkyCoord.transform_to keeps the source's
                    # non-default attributes such as an FK5 equinox, i.e. prints J1975 numbers under J2000)
                    if radunit is None and not ('attr:transform_to(attr:frame(region.center))' in a1
                                                and 'attr:transform_to(attr:frame(region.center))' in a2):
                        probs.append('the centre is printed with its own frame attributes (SkyCoord.transform_to to the frame '
                                     'class), not in the frame named by coord=: an FK5 centre with equinox J1975 is written as '
                                     'J1975 numbers labelled J2000 and comes back 0.3 deg away')
                    key = (wci.name, coordsys)
                    if radunit is None:
                        _CENTRE_BASE[key] = (args[1], args[2])
                    elif key in _CENTRE_BASE and not (same(args[1], _CENTRE_BASE[key][0]) and same(args[2], _CENTRE_BASE[key][1])):
                        probs.append(f'with radunit={radunit} the centre is written as ({a1[:90]}, …) although its slots stay labelled '
                                     '"deg": the coordinates must not depend on radunit')
                if reg is not None:
                    cen = reg.fields.get('center')
                    reps = _find_apps_named(cen, 'UnitSphericalRepresentation') if cen is not None else []
                    if reps and len(reps[0].args) >= 2:
                        r1, r2 = show(reps[0].args[0], 300), show(reps[0].args[1], 300)
                        if 'Unknown(' in r1 or 'Unknown(' in r2:
                            ctx.note(f'{construct}: centre of the parsed region not resolved by the evaluator (not decided)')
                        elif not ('T1' in r1 and 'T2' in r2 and 'T2' not in r1 and 'T1' not in r2):
                            probs.append(f'the reader builds the centre from ({r1[:60]}, {r2[:60]}), not (first, second) bracket entry')
                    elif coordsys == 'image':
                        # pixel centre: PixCoord(x = first, y = second bracket entry)
                        cx = cen.fields.get('x') if isinstance(cen, Obj) else None
                        cy = cen.fields.get('y') if isinstance(cen, Obj) else None
                        r1, r2 = show(cx, 300), show(cy, 300)
                        if cx is None or cy is None or 'Unknown(' in r1 or 'Unknown(' in r2:
                            raise AnalysisError('C11.R3', construct, f'pixel centre of the parsed region not resolved: {show(cen, 160)}')
                        if not ('T1' in r1 and 'T2' in r2 and 'T2' not in r1 and 'T1' not in r2):
                            probs.append(f'the reader builds the pixel centre from (x={r1[:60]}, y={r2[:60]}), not (first, second) '
                                         'bracket entry')
            if probs:
                ctx.bad(construct, 'slots-and-units', '; '.join(probs), ser.loc(), {'template': template})
            else:
                ctx.ok(construct, f'{fields} return to their slots; written in the labelled unit; scales cancel')
            # orientation across frames: the centre is transformed to the frame named by coordsys, so an angle measured from
            # that frame's longitude axis has to be corrected by the rotation between the two frames at the centre
            if coordsys != 'image' and radunit is None and 'angle' in fields and reg is not None:
                name_, _ = _tok_of(reg.fields.get('angle'))
                ja = int(re.match(r'T(\d+)', name_).group(1)) if name_ else None
                if ja is not None and ja < len(args):
                    at = show(args[ja], 3000)
                    if 'transform' not in at and 'position_angle' not in at and 'coordsys' not in at and 'frame' not in at:
                        ctx.bad(f'{wci.name} written in another frame', 'angle-not-rotated',
                                f'the centre of a {wci.name} is transformed to the frame given by coordsys, but its angle is written '
                                f'unchanged ({at[:60]}): a region defined in fk5 and written with coordsys="galactic" comes back '
                                'rotated by the angle between the two frames\' longitude axes at the centre', ser.loc())
                    else:
                        ctx.ok(f'{wci.name} written in another frame', 'the angle is corrected for the frame change')
    # polygons: the writer's vertex piece (an f-string inside to_crtf), repeated for three vertices, must be read back as
    # vertices (x: entries 1, 3, 5; y: entries 2, 4, 6), as plain numbers in image coordinates
    sl = m.cls('_ShapeList')
    tc = method_or_fail(ctx, sl, 'to_crtf')
    piece = None
    for n in ast.walk(ctx.src.parse(m.modules[IO_CORE].path)):
        if isinstance(n, ast.JoinedStr) and sum(isinstance(v, ast.FormattedValue) for v in n.values) == 2 \
                and isinstance(n.values[0], ast.Constant) and str(n.values[0].value).startswith('['):
            k = iter(range(1, 3))
            piece = ''.join(str(v.value) if isinstance(v, ast.Constant) else '{%d}' % next(k) for v in n.values)
    ctx.need(piece is not None, '_ShapeList.to_crtf', 'polygon vertex piece not found')
    verts = ', '.join(piece.replace('{1}', '{%d}' % (2 * i + 1)).replace('{2}', '{%d}' % (2 * i + 2)) for i in range(3))
    ptpl = '{0}poly[' + verts + ']'
    for coordsys, gm in (('fk5', None), ('image', {'coord': Const('image')})):
        construct = f'Polygon [{coordsys}]'
        pr, sh, reg, (coords, lens) = eval_reader(m, ptpl, 'poly', global_meta=gm)
        probs = []
        want_cls = 'PolygonSkyRegion' if coordsys == 'fk5' else 'PolygonPixelRegion'
        if reg is None or reg.cls != want_cls:
            probs.append(f'`{ptpl}` is read as {show(reg, 120)}, not a {want_cls}')
        elif coordsys == 'fk5':
            reps = _find_apps_named(reg.fields.get('vertices'), 'UnitSphericalRepresentation')
            r1 = show(reps[0].args[0], 600) if reps else ''
            r2 = show(reps[0].args[1], 600) if reps else ''
            if not (all(f'T{k}' in r1 for k in (1, 3, 5)) and all(f'T{k}' in r2 for k in (2, 4, 6))
                    and not any(f'T{k}' in r1 for k in (2, 4, 6))):
                probs.append(f'vertices are built from lon={r1[:100]}, lat={r2[:100]}')
        else:
            v = reg.fields.get('vertices')
            xs = v.fields.get('x') if isinstance(v, Obj) else None
            ys = v.fields.get('y') if isinstance(v, Obj) else None
            ok = isinstance(xs, Tup) and isinstance(ys, Tup) and len(xs.items) == 3 and len(ys.items) == 3
            if ok:
                for items, ks in ((xs.items, (1, 3, 5)), (ys.items, (2, 4, 6))):
                    for it, k in zip(items, ks):
                        t = show(it, 200)
                        if f'T{k}' not in t:
                            probs.append(f'vertex component {t[:60]} is not bracket entry {k}')
                        elif not t.startswith('attr:value('):
                            probs.append(f'vertex component {t[:60]} reaches PixCoord as an angle/quantity object, not as a '
                                         'number (the writer labels image-frame numbers "deg"): PixCoord arithmetic fails')
                            break
            else:
                probs.append(f'vertices are {show(v, 160)}')
        if probs:
            ctx.bad(construct, 'polygon-slots', '; '.join(probs[:2]), tc.loc(), {'template': ptpl})
        else:
            ctx.ok(construct, 'three written vertices come back as (x: 1, 3, 5; y: 2, 4, 6)')
    # lines: the writer's template, read back: start = entries (1, 2), end = entries (3, 4), in both frames
    f_, templates = _template_tokens(m)
    ctx.need('line' in templates, '_ShapeList.to_crtf', 'line template not found')
    ltpl = templates['line'][1].replace('FMT', '.6f')
    for coordsys, gm in (('fk5', None), ('image', {'coord': Const('image')})):
        construct = f'Line [{coordsys}]'
        pr, sh, reg, _ = eval_reader(m, ltpl, templates['line'][0], global_meta=gm)
        want_cls = 'LineSkyRegion' if coordsys == 'fk5' else 'LinePixelRegion'
        probs = []
        if reg is None or reg.cls != want_cls:
            probs.append(f'`{ltpl}` is read as {show(reg, 120)}, not a {want_cls}')
        else:
            for fld, (k1, k2) in (('start', (1, 2)), ('end', (3, 4))):
                v = reg.fields.get(fld)
                if coordsys == 'image':
                    a, b = (show(v.fields.get('x'), 300), show(v.fields.get('y'), 300)) if isinstance(v, Obj) else ('?', '?')
                else:
                    reps = _find_apps_named(v, 'UnitSphericalRepresentation') if v is not None else []
                    a, b = (show(reps[0].args[0], 300), show(reps[0].args[1], 300)) if reps and len(reps[0].args) >= 2 else ('?', '?')
                    if isinstance(v, App) and v.name == 'getitem' and is_num(v.args[1]) and reps and len(reps[0].args) >= 2:
                        # element <i> of a coordinate array built from (lon list, lat list)
                        def elem(t, i):
                            tups = [x for x in walk_terms(t) if isinstance(x, Tup) and len(x.items) == 2]
                            return show(tups[0].items[i], 300) if tups else '?'
                        a, b = elem(reps[0].args[0], int(v.args[1])), elem(reps[0].args[1], int(v.args[1]))
                others = {1, 2, 3, 4}
                if not (f'T{k1}' in a and f'T{k2}' in b and not any(f'T{k}' in a for k in others - {k1})
                        and not any(f'T{k}' in b for k in others - {k2})):
                    probs.append(f'{fld} is built from ({a[:70]}, {b[:70]}), not bracket entries ({k1}, {k2})')
            if coordsys == 'image' and set(getattr(reg, 'outcome', (1, []))[1]) - {'ValueError', 'TypeError'}:
                probs.append(f'reading the line can end in {reg.outcome[1]}')
        if probs:
            ctx.bad(construct, 'line-slots', '; '.join(probs[:2]), tc.loc(), {'template': ltpl})
        else:
            ctx.ok(construct, 'start = entries (1, 2), end = entries (3, 4)')
    # explicit statement clause: ellipse axes are [major, minor] semi-axes = [height/2, width/2]
    ser, ev, out = eval_writer(m, m.cls('EllipseSkyRegion'), 'fk5')
    fc = _format_call(out)
    tpl = fc.args[0].v
    order = [int(x) for x in re.findall(r'\{(\d+)', tpl)]
    if order[:6] == [0, 1, 2, 4, 3, 5]:
        ctx.ok('ellipse template', 'axes written as [slot 4 = height/2, slot 3 = width/2]')
    else:
        ctx.bad('ellipse template', 'axis-order', f'ellipse slots are written in order {order}', ser.loc())


def r4(ctx):
    m = ctx.model
    ci = m.cls('CircleSkyRegion')
    # writer
    ser, ev, out = eval_writer(m, ci, 'fk5')
    fc = _format_call(out)
    ctx.need(fc is not None, '_ShapeList.to_crtf', 'line template call not found in the writer value')
    pre = fc.args[1]
    want = "ite((INC in [False, '-']), '-', '')"
    if show(pre, 200) == want:
        ctx.ok('writer:include', '"-" written exactly for include in (False, "-") (0 == False)')
    else:
        ctx.bad('_ShapeList.to_crtf', 'include-prefix', f'include prefix is {show(pre, 160)}; expected "-" iff include is False', ser.loc())
    ser, ev, out = eval_writer(m, ci, 'fk5', meta={'include': Const(True), 'type': Const('ann')})
    fc = _format_call(out)
    if isinstance(fc.args[1], Const) and fc.args[1].v == 'ann ':
        ctx.ok('writer:annotation', '"ann " written for type == "ann"')
    else:
        ctx.bad('_ShapeList.to_crtf', 'ann-prefix', f'annotation prefix is {show(fc.args[1], 80)}', ser.loc())
    # reader
    tpl = '{0}circle[[{1:.6f}deg, {2:.6f}deg], {3:.6f}deg]'
    for inc, want_inc in (('-', False), ('+', True)):
        pr, sh, reg, _ = eval_reader(m, tpl, 'circle', include=inc, type_='ann')
        meta = reg.fields.get('meta') if reg is not None else None
        iv = meta.get('include') if isinstance(meta, DictV) else None
        tv = meta.get('type') if isinstance(meta, DictV) else None
        if isinstance(iv, Const) and iv.v is want_inc and isinstance(tv, Const) and tv.v == 'ann':
            ctx.ok(f'reader:include "{inc}"', f'include={want_inc}, type=ann stored')
        else:
            ctx.bad('_CRTFRegionParser', f'include-read:{inc}', f'a leading "{inc}" / "ann" is read as include={show(iv)}, type={show(tv)}',
                    'regions/io/crtf/read.py')


def r5(ctx):
    m = ctx.model
    tpl = '{0}circle[[{1:.6f}deg, {2:.6f}deg], {3:.6f}deg]'
    pr, sh, reg, _ = eval_reader(m, tpl, 'circle', global_meta={'coord': Const('J2000'), 'color': Const('GLOBAL'),
                                                                  'linewidth': Const('GW')},
                                 meta_pairs=(('color', 'INLINE'),))
    vis = reg.fields.get('visual') if reg is not None else None
    col = vis.get('color') if isinstance(vis, DictV) else None
    lw = vis.get('linewidth') if isinstance(vis, DictV) else None
    if isinstance(col, Const) and col.v == 'INLINE' and isinstance(lw, Const) and lw.v == 'GW':
        ctx.ok('_CRTFRegionParser:precedence', 'global supplies defaults, inline keys override')
    else:
        ctx.bad('_CRTFRegionParser', 'precedence', f'global color GLOBAL + inline color INLINE gives {show(col)}; global linewidth gives {show(lw)}',
                'regions/io/crtf/read.py')
    ci = m.cls('_CRTFRegionParser')
    init = method_or_fail(ctx, ci, '__init__')
    deep = any(isinstance(st, ast.Assign) and norm(st.targets[0]) == 'self.meta' and
               norm(st.value).replace(' ', '') in ('copy.deepcopy(global_meta)', 'deepcopy(global_meta)') for st in stmts_of(init.node))
    if deep:
        ctx.ok('_CRTFRegionParser.__init__', 'per-region meta is a deep copy of the global dict')
    else:
        ctx.bad('_CRTFRegionParser.__init__', 'global-aliased',
                'per-region meta is not a deep copy of the global meta: inline keys of one region leak into the next', init.loc())


def r6(ctx):
    m = ctx.model
    cp = m.cls('_CRTFCoordinateParser')
    f = method_or_fail(ctx, cp, 'parse_angular_length_quantity')
    ev = Evaluator(m)
    out = ev.run(f, [Obj('str', {}, 's')], {})
    rs = [(show(ev.conj(pc), 300), n) for pc, n, _ in out.raises]
    ok = any('CRTFRegionParserError' in (n or '') and c.startswith('not bool(') and 'group' in c for c, n in rs)
    if ok:
        ctx.ok('parse_angular_length_quantity', 'a length without a unit raises')
    else:
        ctx.bad('parse_angular_length_quantity', 'unitless-length', f'unit-less lengths are not rejected: {rs}', f.loc())


def r7(ctx):
    from ..fx import FX, param_name
    m = ctx.model
    fx = FX(m)
    for kind in ('serialize', 'write'):
        fi = m.registered(kind, 'crtf')
        s = fx.summary(fi)
        muts = [e for e in s.muts if e.target[0] == 'param' and not e.via.startswith('iteration')]
        if muts:
            e = muts[0]
            ctx.bad(fi.qualname.split(':')[1], f'mutates:{" ".join(e.stmt.split())[:60]}',
                    f'`{e.stmt}` writes through `{param_name(fi, e.target[1])}.{".".join(e.target[2])}`', f'{e.path}:{e.line}')
        else:
            ctx.ok(fi.qualname.split(':')[1], 'no write reaches the regions being serialised')


CASA_FRAMES = {'J2000', 'JMEAN', 'JTRUE', 'APP', 'B1950', 'B1950_VLA', 'BMEAN', 'BTRUE', 'GALACTIC', 'HADEC', 'AZEL',
               'AZELSW', 'AZELNE', 'AZELGEO', 'AZELSWGEO', 'AZELNEGEO', 'JNAT', 'ECLIPTIC', 'MECLIPTIC', 'TECLIPTIC',
               'SUPERGAL', 'ITRF', 'TOPO', 'ICRS', 'IMAGE'}


def r8(ctx):
    """vocabulary agreement beyond shapes: CASA frame names, read-side box notations, metadata keys."""
    m = ctx.model
    t = tables(m, IO_CORE).env
    wmap = t.get('coordsys_mapping', {}).get('CRTF', {})
    bad = sorted(v for v in wmap.values() if v not in CASA_FRAMES)
    if bad:
        ctx.bad('coordsys_mapping', f'not-casa:{bad[0]}', f'the writer emits coord={bad}, which are not CASA frame keywords '
                f'(CASA: {sorted(CASA_FRAMES)[:8]}...)', 'regions/io/crtf/io_core.py')
    else:
        ctx.ok('coordsys_mapping', 'every written frame name is a CASA keyword')
    regmap = t.get('reg_mapping', {}).get('CRTF', {})
    want = {'box': 'rectangle', 'centerbox': 'rectangle', 'rotbox': 'rectangle', 'poly': 'polygon', 'symbol': 'point',
            'text': 'text', 'annulus': 'circleannulus', 'circle': 'circle', 'ellipse': 'ellipse', 'line': 'line'}
    diff = {k: regmap.get(k) for k, v in want.items() if regmap.get(k) != v}
    if diff:
        ctx.bad('reg_mapping', f'token-map:{sorted(diff)[0]}', f'CRTF definitions map to the wrong region types: {diff} (expected {want})',
                'regions/io/crtf/io_core.py')
    else:
        ctx.ok('reg_mapping', 'box/centerbox/rotbox -> rectangle, poly -> polygon, symbol -> point, annulus -> circle annulus')
    # read-side notations
    for token, tpl, fields in (('centerbox', '{0}centerbox[[{1}deg, {2}deg], [{3}deg, {4}deg]]', {'width': 'T3deg', 'height': 'T4deg'}),
                               ('rotbox', '{0}rotbox[[{1}deg, {2}deg], [{3}deg, {4}deg], {5}deg]',
                                {'width': 'T3deg', 'height': 'T4deg', 'angle': 'T5deg'})):
        pr, sh, reg, _ = eval_reader(m, tpl, token)
        ok = reg is not None and reg.cls == 'RectangleSkyRegion' and all(
            _tok_of(reg.fields.get(f)) == (tk, 1) for f, tk in fields.items())
        if ok:
            ctx.ok(f'read:{token}', 'becomes a rectangle with [width, height](, angle)')
        else:
            ctx.bad('_CRTFRegionParser', f'notation:{token}', f'"{token}" is read as {show(reg, 200)}', 'regions/io/crtf/read.py')
    # reading coord=: the reader's own frame-name mapping, evaluated on the CASA keywords the writer can emit
    rp = m.cls('_CRTFRegionParser')
    sc = method_or_fail(ctx, rp, 'set_coordsys')
    over = {k: v for k, v in class_tables(m, '_CRTFRegionParser').get('coordsys_mapping', {}).items() if k != '__opaque__'}
    astropy_names = ['icrs', 'fk5', 'fk4', 'galactic', 'supergalactic', 'geocentrictrueecliptic']
    table = DictV([{**{n: Const(n) for n in astropy_names}, **{k: Const(v) for k, v in over.items()}}])
    want_read = {'J2000': 'fk5', 'j2000': 'fk5', 'B1950': 'fk4', 'GALACTIC': 'galactic', 'ICRS': 'icrs', 'SUPERGAL': 'supergalactic',
                 'ECLIPTIC': 'geocentrictrueecliptic', 'FK5': 'fk5'}
    wrong = {}
    for kw, frame in want_read.items():
        o = Obj('_CRTFRegionParser', {'coordsys': Const(kw), 'coordsys_mapping': table}, None, rp)
        Evaluator(m).run(sc, [o], {})
        got = o.fields.get('coordsys')
        if not (isinstance(got, Const) and got.v == frame):
            wrong[kw] = show(got, 60)
    if wrong:
        ctx.bad('_CRTFRegionParser.set_coordsys', 'frame-keyword', f'coord= keywords are mapped to {wrong}; expected '
                f'{ {k: want_read[k] for k in wrong} } (case-insensitive CASA names -> astropy frame names)', sc.loc())
    else:
        ctx.ok('_CRTFRegionParser.set_coordsys', f'{len(want_read)} CASA frame keywords (any case) map to their astropy frames')
    # metadata keys: what the reader accepts inline must be writable
    f = m.func(IO_CORE, '_to_crtf_meta')
    pkeys = class_tables(m, '_CRTFParser').get('valid_global_keys')
    ctx.need(isinstance(pkeys, tuple), 'crtf meta tables', 'reader key table not evaluable')
    # the writer's whitelist, observed: which of the reader's keys survive _to_crtf_meta
    wkeys = []
    for k_ in sorted(set(pkeys) | {'label'}):
        r_ = Evaluator(m).call(f, [DictV([{k_: Const('v')}])], {})
        ctx.need(isinstance(r_, DictV) and not r_.has_symbolic(), f.qualname, f'filter not reducible on {{{k_!r}: ...}}')
        if r_.keys():
            wkeys.append(k_)
    accepted = (set(pkeys) | {'label'}) - {'coord'}
    lost = sorted(accepted - set(wkeys))
    if lost:
        ctx.bad('_to_crtf_meta', f'meta-keys-lost:{lost[0]}',
                f'the reader accepts the CRTF keys {lost} but the writer\'s key whitelist drops them: parse -> serialise -> parse '
                'is not a fixed point for regions carrying them', f.loc())
    else:
        ctx.ok('_to_crtf_meta', 'every key the reader accepts is in the writer whitelist')


# ---------------------------------------------------------------- label / text values
def _render(t, ph):
    from .c09 import render
    return render(t, ph)


def _line_regexes(model):
    rmod = model.modules[READ]
    out = {}
    for name in ('regex_line', 'regex_region', 'regex_meta', 'regex_length'):
        if name not in rmod.assigns:
            raise AnalysisError('C11', READ, f'{name} not found')
        out[name] = re.compile(rmod.assigns[name][0].value.args[0].value)
    return out


def _meta_text_of(ctx, out, key, ph):
    """the `k=v, ...` metadata text the writer appends to a region line: the shortest string-building sub-term of the
    writer's value whose rendering mentions `<key>=` and is free of the region line itself."""
    best = None
    for pc, v in out.returns:
        for x in walk_terms(v):
            if not (isinstance(x, App) and (x.name in ('fstring', 'binop:Add') or (
                    x.name == 'apply' and isinstance(x.args[0], App) and x.args[0].name in ('attr:join', 'attr:strip', 'attr:replace')))):
                continue
            if key not in show(x, 4000):
                continue
            try:
                txt = _render(x, ph)
            except AnalysisError:
                continue
            if f'{key}=' in txt and '\n' not in txt and '[[' not in txt and '#' not in txt:
                if best is None or len(txt) < len(best):
                    best = txt
    return best


def _writer_meta_string(ctx, label_value):
    """the metadata text written for a circle with that label (rendered)."""
    m = ctx.model
    lab = Obj('str', {}, 'L')
    lab.truth = True              # a non-empty label (the probes below all are)
    ser, ev, out = eval_writer(m, m.cls('CircleSkyRegion'), 'fk5', meta={'label': lab})
    return _meta_text_of(ctx, out, 'label', {'L': label_value})


def _lex_meta(rx, meta_str):
    pairs = []
    for par in rx['regex_meta'].findall(meta_str + ','):
        pairs.append((par[0], par[1]) if par[0] != '' else (par[2], par[3]))
    return pairs


def r9(ctx):
    m = ctx.model
    rx = _line_regexes(m)
    f, templates = _template_tokens(m)
    tok, text_tpl = templates.get('text', (None, None))
    ctx.need(text_tpl is not None and '{text}' in text_tpl, '_ShapeList.to_crtf', 'text template not found')
    circ_tpl = templates['circle'][1]
    num = '1.500000'

    def line_of(tpl, **kw):
        txt = re.sub(r'\{0\}', '', tpl)
        txt = re.sub(r'\{(\d+)(?::[^}]*)?\}', num, txt).replace('FMT', '').replace('RAD', 'deg')
        for k, v in kw.items():
            txt = txt.replace('{' + k + '}', v)
        return txt

    # (a) label of a representative multi-word value
    L = 'Aa Bb'
    meta_str = _writer_meta_string(ctx, L)
    if meta_str is None:
        ctx.bad('label', 'writer-drops', 'the line written for a region whose meta has a label carries no label=...',
                f.loc())
        meta_str = ''
    line = line_of(circ_tpl) + ', ' + meta_str
    mm = rx['regex_line'].search(line)
    pairs = _lex_meta(rx, mm.group('parameters')) if mm and mm.group('parameters') else []
    if not meta_str:
        pass
    elif pairs != [('label', L)] and [(k, v.strip()) for k, v in pairs] != [('label', L)]:
        ctx.bad('label', 'lexing', f'the writer emits `{line}`; the reader lexes the metadata as {pairs}', 'regions/io/crtf/read.py')
    else:
        pr, sh, reg, _ = eval_reader(m, circ_tpl, 'circle', meta_pairs=[(k, v) for k, v in pairs])
        md = reg.fields.get('meta') if reg is not None else None
        got = None
        if isinstance(md, App) and md.args and isinstance(md.args[0], DictV):
            md = md.args[0]
        if isinstance(md, DictV) and 'label' in md.keys():
            got = md.get('label')
        if isinstance(got, Const) and got.v == L:
            ctx.ok('label', f'`{meta_str}` -> lexed and bound as meta label {L!r}')
        else:
            ctx.bad('label', 'binding', f'the parsed label reaches the region as {show(got, 80)} (meta {show(md, 200)})',
                    'regions/io/crtf/read.py')
    # (a') a text region may carry a label of its own, different from its text: it must be written too (the reader keeps
    # both; a writer that drops it makes parse -> serialise -> parse lose the label, the second parse filling it with the text)
    try:
        ser_t, ev_t, out_t = eval_writer(m, m.cls('TextSkyRegion'), 'fk5', meta={'label': Const(L)}, text='abc')
        mt = _meta_text_of(ctx, out_t, 'label', {})
        if mt is None:
            # with a constant label and text the writer's value may be the finished text itself
            rendered = False
            for pc_, v_ in out_t.returns:
                txt_ = v_.v if isinstance(v_, Const) and isinstance(v_.v, str) else None
                if txt_ is None:
                    try:
                        txt_ = _render(v_, {})
                    except AnalysisError:
                        txt_ = None
                if txt_ and "'abc'" in txt_:
                    rendered = True
                if txt_ and 'label=' in txt_:
                    mt = txt_.strip().splitlines()[-1]
            if mt is None and not rendered:
                raise AnalysisError('C11.R9', 'text region with a label', 'the line written for a text region could not be rendered')
    except AnalysisError as exc:
        raise AnalysisError('C11.R9', 'text region with a label', f'writer not reducible: {exc}')
    if mt is None or L not in mt:
        ctx.bad('text region with a label', 'writer-drops',
                'the line written for a text region whose meta has a label (different from its text) carries no label=...: '
                'text[[..], \'abc\'], label=\'L\' is read with label L, written without it, and read again with label abc',
                f.loc())
    else:
        ctx.ok('text region with a label', f'`{mt}` is written next to the text')
    # (b) text of a text region: the whole line is the region, the quoted text is the last bracket entry
    # the reader statement that takes the text out of the last bracket entry
    rp = m.cls('_CRTFRegionParser')
    take = None
    for fi in rp.methods.values():
        for st in stmts_of(fi.node):
            if isinstance(st, ast.Assign) and norm(st.targets[0]).replace('"', "'") == "self.meta['text']":
                take = (fi, st)
    ctx.need(take is not None, '_CRTFRegionParser', "statement storing meta['text'] not found")

    def unquote(val):
        from ..vg import Frame
        fi, st = take
        names = {n.id for n in ast.walk(st.value) if isinstance(n, ast.Name)}
        ctx.need(len(names) == 1, fi.qualname, 'text extraction depends on more than the lexed entry')
        r = Evaluator(m).expr(st.value, {names.pop(): Const(val)}, Frame(fi, None, 0))
        return r.v if isinstance(r, Const) else None

    for name, txt in (('text', 'Aa Bb'), ('text quoting', 'x=1')):
        line = line_of(text_tpl, text=txt)
        mm = rx['regex_line'].search(line)
        region_part = mm.group('region') if mm else None
        params = (mm.group('parameters') or '') if mm else None
        lens = rx['regex_length'].findall(region_part or '')
        good = mm is not None and region_part == line and params == '' and lens and unquote(lens[-1]) == txt
        if good:
            ctx.ok(name, f'`{line}`: one region, no stray parameters, text {txt!r}')
        else:
            ctx.bad(name, 'equals-in-text' if name != 'text' else 'lexing',
                    f'a text region with text {txt!r} is written `{line}`; the reader\'s line regex takes `{region_part}` as the '
                    f'region and `{params}` as its parameters (trailing lengths {lens}): the file does not parse back to that text',
                    'regions/io/crtf/read.py')
    # (c) label values containing the separators of the metadata grammar
    Lc = 'a,b'
    meta_str = _writer_meta_string(ctx, Lc) or ''
    pairs = _lex_meta(rx, meta_str)
    if not meta_str:
        ctx.ok('label quoting', 'no label written (reported above)')
    elif [(k, v.strip()) for k, v in pairs] == [('label', Lc)]:
        ctx.ok('label quoting', 'a quoted label containing a comma is lexed whole')
    else:
        ctx.bad('label quoting', 'comma-in-label',
                f'label {Lc!r} is written `{meta_str}` and lexed as {pairs}: the metadata regex ends a quoted value at the first '
                'comma or quote character', 'regions/io/crtf/read.py')


def r10(ctx):
    """list-valued metadata: every key the reader splits into a list is written in the bracket form it reads back."""
    m = ctx.model
    rx = _line_regexes(m)
    f, templates = _template_tokens(m)

    def read_back(key, pars):
        pr, sh, reg, _ = eval_reader(m, templates['circle'][1], 'circle', meta_pairs=pars)
        got = None
        if reg is not None:
            for which in ('meta', 'visual'):
                d = reg.fields.get(which)
                if isinstance(d, App) and d.args and isinstance(d.args[0], DictV):
                    d = d.args[0]
                if isinstance(d, DictV) and key in d.keys():
                    got = d.get(key)
        return got

    # the list-valued keys are discovered semantically: the keys for which the reader, given `key=[a1, b2]`,
    # stores a list
    cand = list(class_tables(m, '_CRTFParser').get('valid_global_keys', ()) or ()) + ['label']
    ctx.need(len(cand) > 5, '_CRTFParser.valid_global_keys', 'key table not found')
    list_keys = [k for k in cand if isinstance(read_back(k, rx['regex_meta'].findall(f'{k}=[a1, b2],')), Tup)]
    ctx.need(list_keys, '_CRTFRegionParser.convert_meta', 'the reader stores no key as a list')
    visual_keys = set(class_tables(m, 'RegionVisual').get('valid_keys', ()) or ())
    circ = m.cls('CircleSkyRegion')
    A, B = Obj('str', {}, 'A'), Obj('str', {}, 'B')
    ph = {'A': 'a1', 'B': 'b2'}
    for key in list_keys:
        where = 'visual' if key in visual_keys else 'meta'
        kw = {where: {key: Tup((A, B), 'list')}}
        kw.setdefault('meta', {})
        ser, ev, out = eval_writer(m, circ, 'fk5', **kw)
        construct = f'list key {key}'
        meta_str = _meta_text_of(ctx, out, key, ph)
        if meta_str is None:
            ctx.bad(construct, 'not-written', f'a region whose {where} has {key}=[...] is written without it', ser.loc())
            continue
        pars = rx['regex_meta'].findall(meta_str.strip().lstrip(',').strip() + ',')
        got = read_back(key, pars)
        items = None
        if isinstance(got, Tup):
            items = []
            for i in got.items:
                while isinstance(i, App) and i.args:
                    i = i.args[0]
                items.append(i.v if isinstance(i, Const) else None)
        if items == [ph['A'], ph['B']]:
            ctx.ok(construct, f'`{meta_str.strip()}` is read back as the list {items}')
        else:
            ctx.bad(construct, 'list-format',
                    f'{key}=[{ph["A"]}, {ph["B"]}] is written `{meta_str.strip()}` and read back as {items if items is not None else show(got, 80)}: '
                    'parse -> serialise -> parse is not a fixed point for this key', ser.loc())


LEX_PROBES = {
    'parse_coordinate': [
        ('10pix', "astropy.units.Quantity('10', 1)", 'pixel coordinate: number before "pix", dimensionless'),
        ('12h30m10s', "astropy.coordinates.Angle('12h30m10s')", 'hms notation carries its own units'),
        ('1.5rad', "astropy.coordinates.Angle('1.5rad')", 'radians carry their own unit'),
        ('18:20:30.12', "astropy.coordinates.Angle('18:20:30.12', astropy.units.hour)", 'a:b:c is hours'),
        ('10.11.54.69', "astropy.coordinates.Angle('10:11:54.69', pi*ANG/180)", 'a.b.c.d is degrees:arcmin:arcsec'),
        ('10.11.54', "astropy.coordinates.Angle('10:11:54', pi*ANG/180)", 'a.b.c is degrees:arcmin:arcsec too'),
        ('10.5deg', "astropy.coordinates.Angle('10.5deg', pi*ANG/180)", 'decimal degrees'),
        ('+10d20m30s', "astropy.coordinates.Angle('+10d20m30s', pi*ANG/180)", 'dms notation is degrees'),
    ],
    'parse_angular_length_quantity': [
        ('50"', "astropy.units.Quantity('50', ['unit', pi*ANG/648000])", '" is arcsec'),
        ("50'", "astropy.units.Quantity('50', ['unit', pi*ANG/10800])", "' is arcmin"),
        ('50deg', "astropy.units.Quantity('50', ['unit', pi*ANG/180])", 'deg'),
        ('2.5rad', "astropy.units.Quantity('2.5', ['unit', ANG])", 'rad'),
        ('50arcmin', "astropy.units.Quantity('50', ['unit', pi*ANG/10800])", 'arcmin'),
        ('50arcsec', "astropy.units.Quantity('50', ['unit', pi*ANG/648000])", 'arcsec'),
        ('50pix', "astropy.units.Quantity('50', ['unit', 1])", 'pix is dimensionless'),
        ('8.333e-04deg', "astropy.units.Quantity('8.333e-04', ['unit', pi*ANG/180])", 'exponent notation (fmt=".3e") keeps its unit'),
        ('1.5E+01arcsec', "astropy.units.Quantity('1.5E+01', ['unit', pi*ANG/648000])", 'exponent notation, upper case'),
        ('50', 'raises CRTFRegionParserError', 'a length without unit is an error'),
    ],
}


def r11(ctx):
    """the two CRTF token lexers, partially evaluated on one probe token per branch of their dispatch."""
    m = ctx.model
    cp = m.cls('_CRTFCoordinateParser')
    for meth, probes in LEX_PROBES.items():
        f = method_or_fail(ctx, cp, meth)
        bad = []
        for tok, want, why in probes:
            ev = Evaluator(m)
            out = ev.run(f, [Const(tok)], {})
            if out.raises and not out.returns:
                got = 'raises ' + str(out.raises[0][1])
            elif len(out.returns) == 1 and not out.raises:
                got = show(out.returns[0][1], 200)
            else:
                got = f'{len(out.returns)} outcomes: ' + '; '.join(show(v, 60) for _, v in out.returns[:3])
            if got != want:
                bad.append((tok, got, want, why))
        construct = f'_CRTFCoordinateParser.{meth}'
        if bad:
            tok, got, want, why = bad[0]
            ctx.bad(construct, 'lexing', f'token {tok!r} is lexed as {got}; CASA convention ({why}) requires {want} '
                    f'({len(bad)} of {len(probes)} probe tokens differ)', f.loc())
        else:
            ctx.ok(construct, f'{len(probes)} probe tokens, one per branch of the unit/notation dispatch')


DOC_PROBES = [
    ('global defaults, inline override, later global line',
     "global coord=B1950, color=blue\ncircle[[1deg, 2deg], 3deg]\n-ann circle[[1deg,2deg],3deg], color=red\n"
     "+box[[1deg,2deg],[3deg,4deg]] coord=GALACTIC\nglobal color=green\nellipse[[1deg, 2deg], [3deg, 4deg], 5deg]", 'strict',
     [({'coord': 'B1950', 'color': 'blue'}, '+', 'reg', 'circle', 'circle[[1deg, 2deg], 3deg]', ''),
      ({'coord': 'B1950', 'color': 'blue'}, '-', 'ann', 'circle', '[[1deg,2deg],3deg]', 'color=red'),
      ({'coord': 'B1950', 'color': 'blue'}, '+', 'reg', 'box', '[[1deg,2deg],[3deg,4deg]]', 'coord=GALACTIC'),
      ({'coord': 'B1950', 'color': 'green'}, '+', 'reg', 'ellipse', '[[1deg, 2deg], [3deg, 4deg], 5deg]', '')]),
    ('comments and blank lines are skipped',
     "#CRTFv0\n\n# a comment, with global coord=B1950 inside\ncircle[[1deg, 2deg], 3deg]\n", 'strict',
     [({}, '+', 'reg', 'circle', '[[1deg, 2deg], 3deg]', '')]),
    ('ann marks annotations; +/- include',
     "ann circle[[1deg, 2deg], 3deg]\n+ann box[[1deg,2deg],[3deg,4deg]]\n-circle[[1deg, 2deg], 3deg]", 'strict',
     [({}, '+', 'ann', 'circle', '[[1deg, 2deg], 3deg]', ''), ({}, '+', 'ann', 'box', '[[1deg,2deg],[3deg,4deg]]', ''),
      ({}, '-', 'reg', 'circle', '[[1deg, 2deg], 3deg]', '')]),
    ('global keys are case-insensitive; list-valued global keys',
     "global COORD=J2000, range=[1GHz, 2GHz], corr=[I, Q]\nsymbol[[1deg, 2deg], .]", 'strict',
     [({'coord': 'J2000', 'range': ['1GHz', '2GHz'], 'corr': ['I', 'Q']}, '+', 'reg', 'symbol', '[[1deg, 2deg], .]', '')]),
    ('unknown region type is an error', "foo[[1deg, 2deg], 3deg]", 'strict', 'CRTFRegionParserError'),
    ('a line that is no region is an error', "this is not a region", 'strict', 'CRTFRegionParserError'),
    ('unknown global key is an error', "global bogus=1", 'strict', 'CRTFRegionParserError'),
    ("errors='warn': a bad line does not affect the others",
     "foo[[1deg, 2deg], 3deg]\ncircle[[1deg, 2deg], 3deg]", 'warn', [({}, '+', 'reg', 'circle', '[[1deg, 2deg], 3deg]', '')]),
]


def r12(ctx):
    """document level (CASA rules): the CRTF parser is partially evaluated on probe documents with the per-line region
    parser replaced by a recorder — which lines become regions, with which include sign, annotation type, shape keyword,
    bracket text, inline metadata text, and which global defaults are in force at that line."""
    m = ctx.model
    P = m.cls('_CRTFParser')
    RP = m.cls('_CRTFRegionParser')
    init = method_or_fail(ctx, P, '__init__')

    def plain(x):
        if isinstance(x, DictV):
            return {k: plain(x.get(k)) for k in x.keys()}
        if isinstance(x, Tup):
            return [plain(i) for i in x.items]
        if isinstance(x, Const):
            return x.v
        return show(x, 80)
    for title, doc, errors, want in DOC_PROBES:
        recs = []

        def rp(ev, a, k, recs=recs):
            recs.append(tuple(plain(x) for x in a))
            return Obj('_CRTFRegionParser', {'shape': Obj('_Shape', {}, f'shape{len(recs)}')}, None, RP)
        ev = Evaluator(m, hooks={'_CRTFRegionParser': rp})
        out = ev.run(init, [Obj('_CRTFParser', {}, 'parser', P), Const(doc)], {'errors': Const(errors)})
        definite = [n for pc, n, _ in out.raises if not [c for c in pc if not (isinstance(c, Const) and c.v is True)]]
        if [1 for pc, n, _ in out.raises if [c for c in pc if not isinstance(c, Const)]]:
            raise AnalysisError('C11.R12', title, 'document parser not reducible on a constant document: '
                                + show(ev.conj(out.raises[0][0]), 200))
        if isinstance(want, str):
            if want in definite:
                ctx.ok(title, f'raises {want}')
            else:
                ctx.bad(title, 'no-error', f'the document {doc!r} is accepted (records {recs}, raises {definite}); CASA rules make it a '
                        f'{want}', init.loc())
            continue
        got = [(r[0], r[1], r[2], r[3], r[4], (r[5] or '')) for r in recs if len(r) >= 6]
        ok = not definite and len(got) == len(want) and all(
            g[0] == w[0] and g[1:4] == w[1:4] and w[4] in g[4] and g[5].strip() == w[5] for g, w in zip(got, want))
        if ok:
            ctx.ok(title, f'{len(want)} region line(s) with the expected include / type / shape / defaults / metadata text')
        else:
            ctx.bad(title, 'document-parse',
                    f'the document {doc!r} is split into {got} (raises {definite}); expected (global defaults, include, type, shape, '
                    f'bracket text, metadata text) = {want}', init.loc())


def r13(ctx):
    """list level on read: every parsed line becomes exactly one region, in file order; the one notation that is skipped
    (an elliptical multi-annulus) is skipped without touching its neighbours."""
    from ..vg import sym
    m = ctx.model
    SL, SH = m.cls('_ShapeList'), m.cls('_Shape')
    f = method_or_fail(ctx, SL, 'to_regions')
    conv = method_or_fail(ctx, SH, 'to_region')
    kinds = (('circle', 3), ('ellipse', 7), ('rectangle', 5), ('polygon', 6), ('ellipse', 5))
    shapes = [Obj('_Shape', {'region_type': Const(t), 'coord': Tup(tuple(sym(f'c{i}_{k}') for k in range(n)), 'list')},
                  f's{i}', SH) for i, (t, n) in enumerate(kinds)]
    ev = Evaluator(m, hooks={conv.qualname: lambda e, a, k: Obj('Region', {}, 'region of ' + a[0].path)})
    out = ev.run(f, [Obj('_ShapeList', {'__items__': Tup(tuple(shapes), 'list')}, 'self', SL)], {})
    got = [show(v, 300) for _, v in out.returns]
    want = '[region of s0, region of s2, region of s3, region of s4]'
    if len(got) == 1 and got[0] == want and not out.raises:
        ctx.ok('_ShapeList.to_regions', 'one region per shape in order; the elliptical multi-annulus alone is skipped')
    else:
        ctx.bad('_ShapeList.to_regions', 'list-assembly',
                f'five parsed shapes (circle, 7-value ellipse, rectangle, polygon, ellipse) become {got} (raises '
                f'{sorted({n for _, n, _ in out.raises})}); expected {want}', f.loc())


# ---------------------------------------------------------------- grammar enumeration (thorough tier)
G11_LINES = [
    ('#CRTFv0', 'skip', None), ('# a comment, with global coord=B1950 inside', 'skip', None), ('', 'skip', None),
    ('global coord=B1950, color=blue', 'global', {'coord': 'B1950', 'color': 'blue'}),
    ('global color=green', 'global', {'color': 'green'}),
    ('global COORD=J2000, linewidth=2', 'global', {'coord': 'J2000', 'linewidth': '2'}),
    ('circle[[1deg, 2deg], 3deg]', 'reg', ('+', 'reg', 'circle', '[[1deg, 2deg], 3deg]', '')),
    ('-circle[[1deg,2deg],3deg], color=red', 'reg', ('-', 'reg', 'circle', '[[1deg,2deg],3deg]', 'color=red')),
    ('ann box[[1deg,2deg],[3deg,4deg]] coord=GALACTIC', 'reg', ('+', 'ann', 'box', '[[1deg,2deg],[3deg,4deg]]', 'coord=GALACTIC')),
    ('+ann ellipse[[1deg, 2deg], [3deg, 4deg], 5deg]', 'reg', ('+', 'ann', 'ellipse', '[[1deg, 2deg], [3deg, 4deg], 5deg]', '')),
    ('-ann symbol[[1deg, 2deg], .]', 'reg', ('-', 'ann', 'symbol', '[[1deg, 2deg], .]', '')),
]


def r14(ctx):
    """every document of up to four lines over an 11-line CRTF grammar (version line, comment, blank line, three global
    lines, five region lines with +/-/ann prefixes and inline metadata): the document parser, partially evaluated with
    the per-line region parser replaced by a recorder, must hand every region line on with the global defaults an
    independent state machine computes (a global line updates the defaults key by key, keys lower-cased), its include
    sign, annotation type, shape keyword, bracket text and inline metadata text."""
    import itertools
    m = ctx.model
    P = m.cls('_CRTFParser')
    RP = m.cls('_CRTFRegionParser')
    init = method_or_fail(ctx, P, '__init__')

    def plain(x):
        if isinstance(x, DictV):
            return {k: plain(x.get(k)) for k in x.keys()}
        if isinstance(x, Tup):
            return [plain(i) for i in x.items]
        if isinstance(x, Const):
            return x.v
        return show(x, 80)
    n = nbad = 0
    first = None
    for k in (1, 2, 3, 4):
        for seq in itertools.product(G11_LINES, repeat=k):
            doc = '\n'.join(t for t, _, _ in seq)
            g, want = {}, []
            for text, kind, pay in seq:
                if kind == 'global':
                    g.update(pay)
                elif kind == 'reg':
                    want.append((dict(g),) + pay)
            recs = []

            def rp(ev, a, k_, recs=recs):
                recs.append(tuple(plain(x) for x in a))
                return Obj('_CRTFRegionParser', {'shape': Obj('_Shape', {}, f'shape{len(recs)}')}, None, RP)
            ev = Evaluator(m, hooks={'_CRTFRegionParser': rp})
            out = ev.run(init, [Obj('_CRTFParser', {}, 'parser', P), Const(doc)], {'errors': Const('strict')})
            if [1 for pc, n_, _ in out.raises if [c for c in pc if not isinstance(c, Const)]]:
                raise AnalysisError('C11.R14', repr(doc), 'document parser not reducible on a grammar document')
            definite = [n_ for pc, n_, _ in out.raises if not [c for c in pc if not (isinstance(c, Const) and c.v is True)]]
            got = [(r[0], r[1], r[2], r[3], r[4], (r[5] or '')) for r in recs if len(r) >= 6]
            ok = not definite and len(got) == len(want) and all(
                g_[0] == w[0] and g_[1:4] == w[1:4] and w[4] in g_[4] and g_[5].strip() == w[5] for g_, w in zip(got, want))
            n += 1
            if not ok:
                nbad += 1
                first = first or (doc, got, definite, want)
    if nbad:
        doc, got, definite, want = first
        ctx.bad('_CRTFParser', 'grammar-documents', f'{nbad} of {n} grammar documents are split differently from the CASA rules, e.g. '
                f'{doc!r} gives {got} (raises {definite}); expected {want}', init.loc())
    else:
        ctx.ok('_CRTFParser', f'{n} grammar documents (<= 4 lines over {len(G11_LINES)} line kinds) split as the CASA rules define')


RULES = [
    RuleDef('R1', 'frame tables mutually inverse', r1, 8),
    RuleDef('R2', 'shape vocabulary: class -> type -> token -> class; text written', r2, 17),
    RuleDef('R3', 'token-level writer∘reader: slots, units (radunit deg/arcsec/arcmin), ellipse axes; polygon vertices; line ends', r3, 21),
    RuleDef('R4', 'include / annotation prefixes on both sides', r4, 4),
    RuleDef('R5', 'global then inline metadata', r5, 2),
    RuleDef('R6', 'lengths need units', r6, 1),
    RuleDef('R7', 'serialisers do not mutate the regions', r7, 2),
    RuleDef('R8', 'CASA frame keywords (written and read); read-side box notations; metadata key agreement', r8, 6),
    RuleDef('R10', 'list-valued metadata keys are written in the bracket form the reader splits', r10, 3),
    RuleDef('R11', 'coordinate and length token lexers (one probe token per dispatch branch)', r11, 2),
    RuleDef('R12', 'document level: global defaults, comments, ann/include prefixes, errors (probe documents)', r12, 8),
    RuleDef('R13', 'parsed shapes -> regions: one each, in order', r13, 1),
    RuleDef('R14', 'grammar enumeration: all documents of <= 4 lines over an 11-line CRTF grammar against a state-machine oracle', r14, 1, tier='deep'),
    RuleDef('R9', 'label and text values: written quoting is what the line/metadata regexes lex; bound to the region', r9, 4),
]
