"""C03 — exact masks give the true pixel/shape overlap area.

PARTIAL claim.  Decided here: the hand-off of mode='exact' to the kernels and the decomposition skeleton that reduces
the overlap of a shape with a pixel grid to the closed-form primitives.  NOT decided: the closed-form primitives
themselves (circle/first-quadrant rectangle, triangle/unit circle), floating point, the 1e-8 bound, convergence rates."""
import ast
import itertools

import sympy as sp

from ..report import RuleDef
from ..src import AnalysisError
from ..vg import (App, BoolT, Cmp, Const, Evaluator, Frame, Ite, Obj, Tup, is_num, num_equal, same, show, sym,
                  walk_terms)
from .c01 import _find_apps
from .c02 import KERNEL, _expected_args, _grid_args, sizes_equivalent, subpixel_skeleton
from .common import evaluator, method_or_fail

EXPLANATION = (
    'PARTIAL: decides the structural clauses of C03 that are necessary for it, not the numerical behaviour. '
    '(R1) to_mask(mode="exact") of the circle and the ellipse hands the kernel the pixel-edge extents of the bounding box '
    'relative to the centre, (nx, ny) = box shape, the radius / the semi-axes and the angle in radians, with use_exact=1, and '
    'wraps the kernel\'s array unchanged with that box; (R2) in the two grid kernels (.pyx source) with use_exact=1, pixel '
    '(i, j) gets single_exact(xmin+i*dx, ymin+j*dy, xmin+(i+1)*dx, ymin+(j+1)*dy, sizes) divided by the pixel area dx*dy, '
    'stored at frac[j, i] of a zero-initialised (ny, nx) array; (R3) every pixel that gets 1 or keeps 0 without the overlap '
    'being computed is provably inside / outside: the full-pixel shortcut needs d + half-diagonal < r, the skipped rows, '
    'columns and pixels need an edge beyond +-r (+-max(rx, ry)) or d >= r + half-diagonal; (R4) the quadrant decomposition '
    'of circular_overlap_single_exact, evaluated on the 25 order types of (xmin, xmax, 0) x (ymin, ymax, 0) with the '
    'first-quadrant core kept opaque, cuts the rectangle at the axes into interior-disjoint pieces that cover it and '
    'hands each to the core as its image under a symmetry of the circle that puts it in the first quadrant; (R5) the '
    'elliptical exact overlap maps the four pixel corners with the linear map that takes the ellipse to the unit circle '
    '(the same map as the sub-sampling membership test, hence as contains()), splits the quadrilateral along a diagonal '
    'into two triangles and multiplies by rx*ry = 1/det; (R6) distance, area_triangle, area_arc, area_arc_unit and '
    'floor_sqrt are the textbook formulas (identities over the reals). Not decided: circular_overlap_core and '
    'overlap_area_triangle_unit_circle (the closed-form case analyses), floating-point error and the 1e-8 bound, finiteness, '
    'convergence of sub-sampling (its structural part is C02), the compiled kernels versus the .pyx analysed.')
EXPLANATION_ADDED2 = (' (R7) the exact-mode hand-off reads the current parameters: nothing on the to_mask path of circle and ellipse is remembered across calls (shared memo analysis, see C01.R8).')
EXPLANATION += EXPLANATION_ADDED2
TRUSTED = ['the .so kernels were built from the .pyx analysed (C02.R0 compares the generated C)',
           'numpy/libc sqrt, asin, sin, cos', 'Quantity.to(u.rad).value is the angle in radians']
ASSUMPTIONS = ['real arithmetic', 'the closed-form primitives circular_overlap_core and overlap_area_triangle_unit_circle are correct']

EXACT = ('CirclePixelRegion', 'EllipsePixelRegion')
POS = ('nx', 'ny', 'subpixels', 'r', 'rx', 'ry', 'width', 'height')


# ------------------------------------------------------------------ R1
def r1(ctx):
    for cname in EXACT:
        construct = f'{cname}.to_mask(mode="exact")'
        ci, f, s, t, ev, a = _grid_args(ctx, cname, 'exact')
        box = t.fields.get('bbox')
        ctx.need(isinstance(box, Obj), construct, 'mask bbox not a box value')
        ext, grid, size, n = _expected_args(cname, box)
        names = ['xmin', 'xmax', 'ymin', 'ymax', 'nx', 'ny'] + [f'size{k}' for k in range(len(size))]
        want = ext + grid + size
        if len(a) != len(want) + 2:
            ctx.bad(construct, 'kernel-arity', f'kernel called with {len(a)} arguments, expected {len(want) + 2}', f.loc())
            continue
        bad = None
        size_ok = sizes_equivalent(cname, list(a[6:6 + len(size)]), size)
        for nm, g, w in zip(names, a, want):
            if size_ok and nm.startswith('size'):
                continue
            if not (is_num(g) and num_equal(g, w)):
                bad = (nm, g, w)
                break
        if bad is None and not (a[-2] == 1):
            bad = ('use_exact', a[-2], sp.Integer(1))
        if bad:
            ctx.bad(construct, f'kernel-arg-{bad[0]}',
                    f'in exact mode the kernel argument {bad[0]} is {show(bad[1], 160)}; expected {show(bad[2], 160)}', f.loc())
            continue
        calls = _find_apps(t.fields['data'], f'call:{KERNEL[cname]}_overlap_grid')
        if not same(t.fields['data'], calls[0]):
            ctx.bad(construct, 'post-processed', f'the mask data is not the array returned by {KERNEL[cname]}_overlap_grid for these '
                    'arguments (changed afterwards, or taken from another call on some path): ' + show(t.fields['data'], 240), f.loc())
            continue
        bb = ev.call(method_or_fail(ctx, ci, 'bounding_box'), [s], {})
        if not same(box, bb):
            ctx.bad(construct, 'mask-bbox', 'the box carried by the exact mask is not self.bounding_box', f.loc())
            continue
        ctx.ok(construct, 'box-relative extents, grid shape, sizes, use_exact=1; kernel array wrapped unchanged with the box')


# ------------------------------------------------------------------ R2 / R3
class _Grid:
    pass


def _exact_grid(ctx, kind):
    """Walk the grid kernel with use_exact=1: stores into the fraction array with their guards, and the tests under which
    a pixel gets no store."""
    m = ctx.model
    mod = m.modules.get(f'regions._geometry.{kind}_overlap')
    ctx.need(mod is not None, f'{kind}_overlap.pyx', 'kernel module missing')
    gi = mod.functions.get(f'{kind}_overlap_grid')
    xi = mod.functions.get(f'{kind}_overlap_single_exact')
    ctx.need(gi is not None and xi is not None, f'{kind}_overlap.pyx', 'grid / single_exact functions missing')
    fn = gi.node
    ev = Evaluator(m, opaque_funcs={f.qualname for f in mod.functions.values() if f is not gi})
    params = [a.arg for a in fn.args.args]
    env = {p: sym(p, positive=p in POS) for p in params}
    DX, DY = sym('DX', positive=True), sym('DY', positive=True)
    env['xmax'] = env['xmin'] + env['nx'] * DX
    env['ymax'] = env['ymin'] + env['ny'] * DY
    env['use_exact'] = sp.Integer(1)
    fr = Frame(gi, None, 0)
    outer = [s for s in fn.body if isinstance(s, ast.For)]
    ctx.need(len(outer) == 1, gi.qualname, 'expected one outer pixel loop')
    pre = [s for s in fn.body[:fn.body.index(outer[0])] if not isinstance(s, ast.Expr)]
    ev.block(pre, env, [], fr)
    g = _Grid()
    g.gi, g.xi, g.env, g.DX, g.DY, g.ev = gi, xi, env, DX, DY, ev
    g.probs = []
    if not (is_num(env.get('dx')) and num_equal(env['dx'], DX) and is_num(env.get('dy')) and num_equal(env['dy'], DY)):
        g.probs.append(f'pixel size is ({show(env.get("dx"))}, {show(env.get("dy"))}), not ((xmax-xmin)/nx, (ymax-ymin)/ny)')
    # the output array: zeros of shape (ny, nx)
    fz = env.get('frac')
    txt = show(fz, 300)
    if not ('zeros' in txt and txt.index('ny') < txt.index('nx') if ('ny' in txt and 'nx' in txt) else False):
        g.probs.append(f'the fraction array is {txt[:120]}, not zeros of shape (ny, nx)')
    o = outer[0]
    ctx.need(isinstance(o.target, ast.Name) and ast.unparse(o.iter).replace(' ', '') == 'range(nx)', gi.qualname,
             'outer loop is not `for i in range(nx)`')
    I, J = sp.Symbol('I', integer=True, nonnegative=True), sp.Symbol('J', integer=True, nonnegative=True)
    env[o.target.id] = I
    g.I, g.J = I, J
    g.stores, g.escapes = [], []

    def has_store(stmts):
        return any(isinstance(x, ast.Assign) and isinstance(x.targets[0], ast.Subscript)
                   and isinstance(x.targets[0].value, ast.Name) and x.targets[0].value.id == 'frac'
                   for s_ in stmts for x in ast.walk(s_))

    def walk(stmts, guards):
        for st in stmts:
            if isinstance(st, ast.Expr):
                continue
            if isinstance(st, ast.Assign) and len(st.targets) == 1 and isinstance(st.targets[0], ast.Name):
                env[st.targets[0].id] = ev.expr(st.value, env, fr)
            elif isinstance(st, ast.Assign) and len(st.targets) == 1 and isinstance(st.targets[0], ast.Subscript):
                t = st.targets[0]
                ctx.need(isinstance(t.value, ast.Name) and t.value.id == 'frac', gi.qualname,
                         f'store into {ast.unparse(t.value)} in the pixel loop')
                g.stores.append((list(guards), ev.expr(t.slice, env, fr), ev.expr(st.value, env, fr), st))
            elif isinstance(st, ast.If):
                tv = ev.expr(st.test, env, fr)
                if isinstance(tv, (sp.Integer, sp.Float)) or (isinstance(tv, Const) and isinstance(tv.v, (bool, int))):
                    truth = bool(tv.v) if isinstance(tv, Const) else bool(tv != 0)
                    walk(st.body if truth else st.orelse, guards)
                    continue
                if has_store(st.body) and not has_store(st.orelse):
                    g.escapes.append((list(guards), tv, False, st))
                elif has_store(st.orelse) and not has_store(st.body):
                    g.escapes.append((list(guards), tv, True, st))
                walk(st.body, guards + [(tv, True)])
                walk(st.orelse, guards + [(tv, False)])
            elif isinstance(st, ast.For):
                ctx.need(isinstance(st.target, ast.Name) and ast.unparse(st.iter).replace(' ', '') == 'range(ny)',
                         gi.qualname, 'inner loop is not `for j in range(ny)`')
                env[st.target.id] = J
                walk(st.body, guards)
            else:
                raise AnalysisError('C03', gi.qualname, f'statement kind {type(st).__name__} in the pixel loop')
    walk(o.body, [])
    xmin, ymin = env['xmin'], env['ymin']
    g.want4 = [xmin + I * DX, ymin + J * DY, xmin + (I + 1) * DX, ymin + (J + 1) * DY]
    g.centre = (xmin + (I + sp.Rational(1, 2)) * DX, ymin + (J + sp.Rational(1, 2)) * DY)
    g.sizes = [env[p] for p in params[6:-2]]
    return g


def r2(ctx):
    for kind in ('circular', 'elliptical'):
        g = _exact_grid(ctx, kind)
        construct = f'{kind}_overlap.pyx:{g.gi.name}[use_exact=1]'
        probs = list(g.probs)
        exact = []
        for guards, idx, val, st in g.stores:
            if not (isinstance(idx, Tup) and len(idx.items) == 2 and idx.items[0] == g.J and idx.items[1] == g.I):
                probs.append(f'fraction stored at [{show(idx)}], not [j, i] (row = y)')
            calls = _find_apps(val, 'call:' + g.xi.name)
            if calls:
                exact.append((val, calls[0]))
        if len(exact) != 1:
            probs.append(f'{len(exact)} stores of {g.xi.name}(...) into the fraction array in exact mode, expected one')
        else:
            val, call = exact[0]
            for got, w, nm in zip(call.args[:4], g.want4, ('xmin', 'ymin', 'xmax', 'ymax')):
                if not (is_num(got) and num_equal(got, w)):
                    probs.append(f'pixel edge {nm} handed to {g.xi.name} is {show(got)}, not {show(w)}')
            for got, w in zip(call.args[4:], g.sizes):
                if not (is_num(got) and num_equal(got, w)):
                    probs.append(f'size argument {show(got)} handed to {g.xi.name} is not the grid kernel\'s {show(w)}')
            if len(call.args) != 4 + len(g.sizes):
                probs.append(f'{g.xi.name} called with {len(call.args)} arguments')
            # value = call / (dx*dy)
            A = sp.Symbol('AREA', positive=True)
            try:
                from ..vg import subst_term
            except ImportError:
                subst_term = None
            norm = _ratio_to_call(val, call)
            if norm is None or not num_equal(norm, 1 / (g.DX * g.DY)):
                probs.append(f'the overlap area is scaled by {show(norm) if norm is not None else show(val, 120)}, not divided '
                             'by the pixel area dx*dy')
        if probs:
            ctx.bad(construct, 'exact-grid', 'exact-mode pixel loop deviates: ' + '; '.join(probs), g.gi.loc())
        else:
            ctx.ok(construct, 'pixel (i,j): single_exact(pixel edges, sizes)/(dx*dy) at frac[j, i]; zeros (ny, nx)')


def _ratio_to_call(val, call):
    """k such that val == k * call (call opaque), else None."""
    if same(val, call):
        return sp.Integer(1)
    if isinstance(val, App) and val.name in ('binop:Mult', 'binop:Div') and len(val.args) == 2:
        a, b = val.args
        if val.name == 'binop:Div' and same(a, call) and is_num(b):
            return 1 / b
        if val.name == 'binop:Mult':
            if same(a, call) and is_num(b):
                return b
            if same(b, call) and is_num(a):
                return a
    return None


def _atoms_false_imply(test):
    """atoms such that `test` false implies at least one of them false (conjunction), or None."""
    if isinstance(test, Cmp):
        return [test]
    if isinstance(test, BoolT) and test.op == 'and':
        out = []
        for a in test.args:
            r = _atoms_false_imply(a)
            if r is None:
                return None
            out += r
        return out
    return None


def _lt_form(c):
    """(e, strict) with the comparison equivalent to e < 0 (strict) or e <= 0; None for other operators."""
    if not isinstance(c, Cmp) or not (is_num(c.lhs) and is_num(c.rhs)):
        return None
    if c.op in ('<', '<='):
        return sp.expand(c.lhs - c.rhs), c.op == '<'
    if c.op in ('>', '>='):
        return sp.expand(c.rhs - c.lhs), c.op == '>'
    return None


def r3(ctx):
    for kind in ('circular', 'elliptical'):
        g = _exact_grid(ctx, kind)
        construct = f'{kind}_overlap.pyx:{g.gi.name}'
        DX, DY = g.DX, g.DY
        HD = sp.sqrt(DX ** 2 + DY ** 2) / 2
        cx, cy = g.centre
        D0 = sp.sqrt(cx ** 2 + cy ** 2)
        if kind == 'circular':
            Rs = [g.env['r']]
        else:
            Rs = [g.env['rx'], g.env['ry']]          # every point of the ellipse is within max(rx, ry) of the centre
        probs = []
        n_short = 0
        # (a) constant stores: only "1" under d + half-diagonal < r (circle)
        for guards, idx, val, st in g.stores:
            if _find_apps(val, 'call:' + g.xi.name):
                continue
            n_short += 1
            if not (is_num(val) and val == 1 and kind == 'circular'):
                probs.append(f'pixel set to {show(val, 60)} without computing the overlap')
                continue
            ok = False
            for tv, pol in guards:
                if not pol:
                    continue
                for c in (_atoms_false_imply(tv) or []):
                    lf = _lt_form(c)
                    if lf is not None and _nonneg(sp.simplify(D0 + HD - Rs[0] - lf[0])) is not None \
                            and _nonneg(sp.simplify(lf[0] - (D0 + HD - Rs[0]))):
                        ok = True        # e >= d + hd - r, so e < 0 implies the whole pixel is inside
            if not ok:
                probs.append('a pixel is set to 1 under ' + ' and '.join(show(tv, 80) for tv, pol in guards if pol)
                             + ': that does not imply distance(centre of the pixel) + half-diagonal < r, so a partly covered '
                             'pixel can be counted as full')
        # (b) escapes: pixels that keep 0
        for guards, tv, zero_when, st in g.escapes:
            if zero_when:
                probs.append(f'pixels with {show(tv, 80)} keep 0: form not understood')
                continue
            atoms = _atoms_false_imply(tv)
            if atoms is None:
                probs.append(f'pixels failing {show(tv, 80)} keep 0: form not understood')
                continue
            for c in atoms:
                if not _false_implies_outside(c, g, Rs, D0, HD):
                    probs.append(f'pixels failing `{show(c, 100)}` keep 0, but that does not put the pixel outside the shape')
        if probs:
            ctx.bad(construct, 'shortcut', 'a pixel whose overlap is not computed is not provably full / empty: '
                    + '; '.join(probs), g.gi.loc())
        else:
            ctx.ok(construct, f'{n_short} full-pixel shortcut(s) and {len(g.escapes)} skip test(s) sound')


def _nonneg(e):
    """True when e >= 0 for all admissible values, False/None when unknown."""
    e = sp.simplify(e)
    if e == 0:
        return True
    if e.is_nonnegative:
        return True
    return None


def _false_implies_outside(c, g, Rs, D0, HD):
    lf = _lt_form(c)
    if lf is None:
        return False
    e, strict = lf                       # c  <=>  e < 0 ;  not c  =>  e >= 0
    x0, y0, x1, y1 = g.want4
    # pixel edge tests:  not (B - pmax < 0)  =>  pmax <= B  ; outside if B <= -R for every candidate R ... max(R) suffices
    for pmax, in ((x1,), (y1,)):
        B = sp.simplify(e + pmax)        # e = B - pmax
        if not (B.has(g.I) or B.has(g.J)):
            if all(_nonneg(-(B + R)) for R in Rs) or _is_minus_max(B, Rs, g):
                return True
    for pmin, in ((x0,), (y0,)):
        B = sp.simplify(pmin - e)        # e = pmin - B ; not c => pmin >= B ; outside if B >= R
        if not (B.has(g.I) or B.has(g.J)):
            if all(_nonneg(B - R) for R in Rs) or _is_plus_max(B, Rs, g):
                return True
    # distance test: e = d - r - P with P >= half-diagonal ; not c => d >= r + P
    if len(Rs) == 1:
        P = sp.simplify(D0 - Rs[0] - e)
        if not (P.has(g.I) or P.has(g.J)) and _nonneg(P - HD):
            return True
    return False


def _is_minus_max(B, Rs, g):
    """B <= -max(Rs): B = -Max(...) - (something nonnegative)."""
    M = sp.Max(*Rs)
    return bool(_nonneg(-(B + M)))


def _is_plus_max(B, Rs, g):
    M = sp.Max(*Rs)
    return bool(_nonneg(B - M))


# ------------------------------------------------------------------ R4
XCASES = [(2, 5), (0, 5), (-3, 5), (-3, 0), (-5, -2)]
YCASES = [(1, 7), (0, 7), (-4, 7), (-4, 0), (-7, -1)]
# the symmetries of the circle that permute the axes: (x, y) -> (sx * (x|y), sy * (y|x))
SYMS = [(sx, sy, swap) for sx in (1, -1) for sy in (1, -1) for swap in (False, True)]


def _image(rect, s):
    """image of the rectangle (x0, y0, x1, y1) under the symmetry s, as a normalised rectangle."""
    sx, sy, swap = s
    x0, y0, x1, y1 = rect
    if swap:
        x0, y0, x1, y1 = y0, x0, y1, x1
    xs, ys = sorted((sx * x0, sx * x1)), sorted((sy * y0, sy * y1))
    return (xs[0], ys[0], xs[1], ys[1])


def r4(ctx):
    m = ctx.model
    mod = m.modules.get('regions._geometry.circular_overlap')
    ctx.need(mod is not None, 'circular_overlap.pyx', 'kernel module missing')
    f = mod.functions.get('circular_overlap_single_exact')
    core = mod.functions.get('circular_overlap_core')
    ctx.need(f is not None and core is not None, 'circular_overlap.pyx', 'single_exact / core missing')
    construct = 'circular_overlap.pyx:circular_overlap_single_exact'
    # the function may branch on comparisons of its rectangle arguments with 0 only (so 25 order types are all)
    params = [a.arg for a in f.node.args.args]
    for n in ast.walk(f.node):
        if isinstance(n, ast.If):
            for c in ast.walk(n.test):
                if isinstance(c, ast.Compare):
                    sides = [c.left] + list(c.comparators)
                    ok = all((isinstance(s_, ast.Constant) and s_.value == 0) or
                             (isinstance(s_, ast.Name) and s_.id in params[:4]) for s_ in sides) and \
                        any(isinstance(s_, ast.Constant) for s_ in sides)
                    if not ok:
                        raise AnalysisError('C03.R4', construct, f'test `{ast.unparse(n.test)}` is not a comparison of a '
                                            'rectangle edge with 0: the order-type enumeration does not cover it')
    bad = []
    r = sym('r', positive=True)
    ncase = 0
    for (x0, x1), (y0, y1) in itertools.product(XCASES, YCASES):
        ncase += 1
        ev = Evaluator(m, opaque_funcs={core.qualname})
        out = ev.run(f, [sp.Integer(x0), sp.Integer(y0), sp.Integer(x1), sp.Integer(y1), r], {})
        if len(out.returns) != 1 or out.raises or out.returns[0][0]:
            raise AnalysisError('C03.R4', construct, f'not reducible on the rectangle ({x0},{y0},{x1},{y1})')
        val = out.returns[0][1]
        calls = _find_apps(val, 'call:' + core.name)
        # the value must be the plain sum of the core calls
        if not _is_sum_of(val, calls):
            bad.append(((x0, y0, x1, y1), f'value {show(val, 160)} is not a sum of first-quadrant core areas'))
            continue
        pieces = []
        why = None
        for c in calls:
            if len(c.args) != 5 or not all(is_num(a) and a.is_number for a in c.args[:4]) or not same(c.args[4], r):
                why = f'core called with {show(c, 100)}'
                break
            a0, b0, a1, b1 = [sp.nsimplify(a) for a in c.args[:4]]
            if not (0 <= a0 <= a1 and 0 <= b0 <= b1):
                why = f'core called with ({a0},{b0},{a1},{b1}): not a rectangle of the first quadrant with its lower-left corner first'
                break
            if a0 == a1 or b0 == b1:
                continue                # degenerate piece: area 0
            # the parts of the original rectangle this can be an image of
            pre = sorted({_image((a0, b0, a1, b1), s) for s in SYMS if _inside(_image((a0, b0, a1, b1), s), (x0, y0, x1, y1))})
            if not pre:
                why = f'core piece ({a0},{b0},{a1},{b1}) is not the image of a part of the rectangle under a symmetry of the circle'
                break
            pieces.append(pre)
        if why is None:
            area = sum((p[0][2] - p[0][0]) * (p[0][3] - p[0][1]) for p in pieces)
            if area != (x1 - x0) * (y1 - y0):
                why = f'the core pieces have total area {area}, the rectangle {(x1 - x0) * (y1 - y0)}'
            elif not any(not any(_overlap(p, q) for p, q in itertools.combinations(choice, 2))
                         for choice in itertools.product(*pieces)):
                why = f'the core pieces (candidate pre-images {pieces}) cannot be placed in the rectangle without overlapping'
        if why:
            bad.append(((x0, y0, x1, y1), why))
    if bad:
        rect, why = bad[0]
        ctx.bad(construct, 'quadrant-decomposition',
                f'for the rectangle (xmin, ymin, xmax, ymax) = {rect}: {why} ({len(bad)} of {ncase} order types fail)', f.loc())
    else:
        ctx.ok(construct, f'{ncase} order types: cut at the axes into disjoint pieces covering the rectangle, each mirrored '
               'or rotated into the first quadrant')


def _is_sum_of(val, calls):
    keys = {id(c) for c in calls}

    def ok(t):
        if isinstance(t, App) and t.name == 'binop:Add':
            return all(ok(a) for a in t.args)
        return isinstance(t, App) and t.name.startswith('call:') and any(same(t, c) for c in calls)
    return bool(calls) and ok(val)


def _inside(p, rect):
    return rect[0] <= p[0] and p[2] <= rect[2] and rect[1] <= p[1] and p[3] <= rect[3]


def _overlap(p, q):
    return max(p[0], q[0]) < min(p[2], q[2]) and max(p[1], q[1]) < min(p[3], q[3])


# ------------------------------------------------------------------ R5
def r5(ctx):
    m = ctx.model
    mod = m.modules.get('regions._geometry.elliptical_overlap')
    coremod = m.modules.get('regions._geometry.core')
    ctx.need(mod is not None and coremod is not None, 'elliptical_overlap.pyx', 'kernel modules missing')
    f = mod.functions.get('elliptical_overlap_single_exact')
    tri = coremod.functions.get('overlap_area_triangle_unit_circle')
    sub = mod.functions.get('elliptical_overlap_single_subpixel')
    ctx.need(f is not None and tri is not None and sub is not None, 'elliptical_overlap.pyx', 'functions missing')
    construct = 'elliptical_overlap.pyx:elliptical_overlap_single_exact'
    ev = Evaluator(m, opaque_funcs={tri.qualname})
    ps = [a.arg for a in f.node.args.args]
    args = [sym(p, positive=p in POS) for p in ps]
    out = ev.run(f, args, {})
    ctx.need(len(out.returns) == 1 and not out.raises and not out.returns[0][0], construct, 'not a single unconditional value')
    val = out.returns[0][1]
    calls = [c for c in walk_terms(val) if isinstance(c, App) and c.name.endswith(tri.name)]
    probs = []
    xmin, ymin, xmax, ymax, rx, ry, th = args
    if len(calls) != 2 or any(len(c.args) != 6 or not all(is_num(a) for a in c.args) for c in calls):
        ctx.bad(construct, 'triangles', f'the overlap is not built from two triangle/unit-circle overlaps: {show(val, 200)}', f.loc())
        return
    # the membership form of the sub-sampler: L(X, Y) < 1
    (pred, info), sp_probs = subpixel_skeleton(ctx, sub)
    ctx.need(pred is not None and isinstance(pred, Cmp) and pred.op in ('<', '<=') and is_num(pred.lhs), construct,
             'sub-sampling membership predicate not of the form L(x, y) < 1')
    X, Y = info['X'], info['Y']
    senv = info['env']
    L = pred.lhs / pred.rhs
    sub_syms = {senv[k]: v for k, v in (('rx', rx), ('ry', ry), ('theta', th)) if k in senv and isinstance(senv[k], sp.Symbol)}
    L = L.subs(sub_syms)
    corners = {(xmin, ymin): 'll', (xmax, ymin): 'lr', (xmax, ymax): 'ur', (xmin, ymax): 'ul'}
    tri_labels = []
    for c in calls:
        labels = []
        for k in range(3):
            u, v = c.args[2 * k], c.args[2 * k + 1]
            lab = None
            for (px, py), name in corners.items():
                # (u, v) must be M.(px, py) with |M p|^2 = L(p): check the norm identity and linearity via the corner
                if _depends_only_on(u, v, px, py, (xmin, ymin, xmax, ymax)) and {px, py} <= (u.free_symbols | v.free_symbols) \
                        and _zero(u ** 2 + v ** 2 - L.subs({X: px, Y: py})):
                    lab = name
            if lab is None:
                probs.append(f'triangle vertex ({show(u, 80)}, {show(v, 80)}) is not a pixel corner mapped by the map that takes '
                             'the ellipse to the unit circle')
            labels.append(lab)
        tri_labels.append(labels)
    if not probs:
        # one linear map for all corners: u, v linear in (px, py) with the same coefficients
        M = _linear_map(calls, corners, tri_labels)
        if M is None:
            probs.append('the corners are not mapped by one linear map')
        else:
            det = sp.simplify(M[0][0] * M[1][1] - M[0][1] * M[1][0])
            k = _scale_of(val, calls)
            if k is None or sp.simplify(sp.Abs(det) * k - 1) != 0:
                probs.append(f'the summed triangle overlaps are scaled by {show(k) if k is not None else "?"}, not by '
                             f'1/|det| = {show(sp.simplify(1 / sp.Abs(det)))} of the map')
        a, b = (set(t) for t in tri_labels)
        shared = a & b
        opposite = [{'ll', 'ur'}, {'lr', 'ul'}]
        if len(a) != 3 or len(b) != 3 or shared not in opposite or (a | b) != {'ll', 'lr', 'ur', 'ul'}:
            probs.append(f'the two triangles {tri_labels} do not split the pixel along a diagonal')
    if probs:
        ctx.bad(construct, 'reprojection', '; '.join(probs), f.loc())
    else:
        ctx.ok(construct, 'corners mapped by the ellipse->unit-circle map of the membership test, two triangles along a '
               'diagonal, times rx*ry = 1/det')


def _zero(e):
    e = sp.expand(e)
    if e == 0:
        return True
    e = sp.expand(e.rewrite(sp.cos).subs({}))
    return sp.simplify(sp.trigsimp(e)) == 0


def _depends_only_on(u, v, px, py, allsyms):
    others = set(allsyms) - {px, py}
    return not (u.free_symbols & others) and not (v.free_symbols & others)


def _linear_map(calls, corners, tri_labels):
    inv = {name: p for p, name in corners.items()}
    M = None
    for c, labs in zip(calls, tri_labels):
        for k, lab in enumerate(labs):
            px, py = inv[lab]
            u, v = sp.expand(c.args[2 * k]), sp.expand(c.args[2 * k + 1])
            row = []
            for e in (u, v):
                a_, b_ = e.coeff(px, 1), e.coeff(py, 1)
                if sp.simplify(e - a_ * px - b_ * py) != 0:
                    return None
                row.append((sp.simplify(a_), sp.simplify(b_)))
            if M is None:
                M = row
            elif any(sp.simplify(x - y) != 0 for r1_, r2_ in zip(M, row) for x, y in zip(r1_, r2_)):
                return None
    return M


def _scale_of(val, calls):
    """k with val == k * (call1 + call2)."""
    if isinstance(val, App) and val.name == 'binop:Mult' and len(val.args) == 2:
        a, b = val.args
        for s_, k in ((a, b), (b, a)):
            if is_num(k) and isinstance(s_, App) and s_.name == 'binop:Add' and len(s_.args) == 2 and \
                    {id(x) for x in s_.args} == {id(c) for c in calls}:
                return k
            if is_num(k) and isinstance(s_, App) and s_.name == 'binop:Add' and all(any(same(x, c) for c in calls) for x in s_.args):
                return k
    if isinstance(val, App) and val.name == 'binop:Add' and all(any(same(x, c) for c in calls) for x in val.args):
        return sp.Integer(1)
    return None


# ------------------------------------------------------------------ R6
def r6(ctx):
    m = ctx.model
    core = m.modules.get('regions._geometry.core')
    ctx.need(core is not None, 'core.pyx', 'module missing')
    x1, y1, x2, y2, x3, y3 = (sym(n) for n in ('x1', 'y1', 'x2', 'y2', 'x3', 'y3'))
    r = sym('r', positive=True)
    chord = sp.sqrt((x2 - x1) ** 2 + (y2 - y1) ** 2)

    def seg(a, rad):
        th = 2 * sp.asin(a / (2 * rad))
        return rad ** 2 / 2 * (th - sp.sin(th))
    want = {
        'distance': ([x1, y1, x2, y2], chord),
        'area_triangle': ([x1, y1, x2, y2, x3, y3], sp.Abs(x1 * (y2 - y3) + x2 * (y3 - y1) + x3 * (y1 - y2)) / 2),
        'area_arc': ([x1, y1, x2, y2, r], seg(chord, r)),
        'area_arc_unit': ([x1, y1, x2, y2], seg(chord, 1)),
    }
    for name, (args, w) in want.items():
        f = core.functions.get(name)
        ctx.need(f is not None, f'core.pyx:{name}', 'function missing')
        out = Evaluator(m).run(f, list(args), {})
        construct = f'core.pyx:{name}'
        if len(out.returns) != 1 or out.raises or out.returns[0][0] or not is_num(out.returns[0][1]):
            raise AnalysisError('C03.R6', construct, 'value not reducible: ' + (show(out.returns[0][1], 160) if out.returns else ''))
        got = out.returns[0][1]
        if sp.simplify(got - w) == 0:
            ctx.ok(construct, 'textbook formula (identity over the reals)')
        else:
            ctx.bad(construct, 'formula', f'{name} is {show(got, 200)}, not {show(w, 200)}', f.loc())
    f = core.functions.get('floor_sqrt')
    ctx.need(f is not None, 'core.pyx:floor_sqrt', 'function missing')
    x = sym('x')
    out = Evaluator(m).run(f, [x], {})
    ok = len(out.returns) == 2 and not out.raises
    if ok:
        for pc, v in out.returns:
            cond = Evaluator(m).conj(pc) if False else None
        vals = {show(v) for _, v in out.returns}
        ok = vals == {'sqrt(x)', '0'}
        pos = [pc for pc, v in out.returns if show(v) == 'sqrt(x)']
        ok = ok and len(pos) == 1 and len(pos[0]) == 1 and isinstance(pos[0][0], Cmp) and \
            _lt_form(pos[0][0]) is not None and sp.simplify(_lt_form(pos[0][0])[0] + x) == 0
    if ok:
        ctx.ok('core.pyx:floor_sqrt', 'sqrt(x) for x > 0, else 0')
    else:
        ctx.bad('core.pyx:floor_sqrt', 'formula', 'floor_sqrt is not sqrt(x) for x > 0 and 0 otherwise: '
                + '; '.join(f'{show(Evaluator(m).conj(pc), 60)} -> {show(v, 60)}' for pc, v in out.returns), f.loc())


def r7(ctx):
    """the exact-mode hand-off (R1) uses the region's *current* parameters: neither to_mask nor a property/method of `self`
    it reads remembers a result across calls unless every parameter writer drops it (c01.memoised_geometry)."""
    from .c01 import memoised_geometry
    m = ctx.model
    for cname in ('CirclePixelRegion', 'EllipsePixelRegion'):
        ci = m.cls(cname)
        memo = memoised_geometry(m, ci, ('to_mask',), rule='C03.R7')
        if memo:
            name, why, f = memo[0]
            ctx.bad(ci.name, f'memoised:{name}',
                    f'{ci.name}.{name} {why}: after a parameter is assigned the exact-mode kernel is handed remembered '
                    'values, and the mask is the overlap with an old shape', f.loc())
        else:
            ctx.ok(ci.name, 'to_mask and what it reads are recomputed on every call')


RULES = [
    RuleDef('R1', 'exact-mode hand-off to the kernels (circle, ellipse)', r1, 2),
    RuleDef('R2', 'exact-mode pixel loop: pixel edges, sizes, division by the pixel area, frac[j, i]', r2, 2),
    RuleDef('R3', 'full-pixel shortcuts and skipped pixels are provably inside / outside', r3, 2),
    RuleDef('R4', 'quadrant decomposition of the circle/rectangle overlap (25 order types)', r4, 1),
    RuleDef('R5', 'ellipse -> unit circle reprojection, triangle split, area scale', r5, 1),
    RuleDef('R6', 'geometric primitives: distance, triangle area, circular segment, floor_sqrt', r6, 5),
    RuleDef('R7', 'exact-mode hand-off reads current parameters only (no remembered kernel arguments)', r7, 2),
]
