"""Shared symbolic evaluation of the DS9 writer and reader (used by C09 and C10)."""
import ast
import string

import sympy as sp

from ..astutil import call_name, calls_in, norm, stmts_of
from ..src import AnalysisError
from ..tb import ModuleTables, tables
from ..vg import (App, BoolT, Cmp, Const, DictV, Evaluator, Ite, Obj, Tup,
                  Unknown, contains_unknown, is_num, mark_quantity, num_equal,
                  same, show, sym, walk_terms)


def writer_funcs(model):
    """(region serialiser, metadata translator) discovered from the registered serialiser."""
    ser = model.registered('serialize', 'ds9')
    mod = model.modules[ser.module]
    region_fn = None
    for fi in mod.functions.values():
        for n in ast.walk(fi.node):
            if isinstance(n, ast.Return) and isinstance(n.value, ast.Dict):
                keys = {k.value for k in n.value.keys if isinstance(k, ast.Constant)}
                if {'frame', 'region', 'meta'} <= keys:
                    region_fn = (fi, n.value)
    if region_fn is None:
        raise AnalysisError('DS9', ser.qualname, 'per-region serialiser (returns frame/region/meta) not found')
    fi, dnode = region_fn
    meta_expr = dict(zip([k.value for k in dnode.keys], dnode.values))['meta']
    meta_fn = None
    src = meta_expr
    if isinstance(src, ast.Name):
        nm = src.id
        for st in stmts_of(fi.node):
            if isinstance(st, ast.Assign) and norm(st.targets[0]) == nm and isinstance(st.value, ast.Call):
                src = st.value
    if isinstance(src, ast.Call):
        cs = model.resolve_call(fi, src)
        if cs:
            meta_fn = cs[0]
    if meta_fn is None:
        raise AnalysisError('DS9', fi.qualname, 'metadata translation function not found')
    return ser, fi, meta_fn


def reader_funcs(model):
    par = model.registered('parse', 'ds9')
    mod = model.modules[par.module]
    # the function that instantiates a region class from the shape table
    make = None
    for fi in mod.functions.values():
        for n in ast.walk(fi.node):
            if isinstance(n, ast.Call) and isinstance(n.func, ast.Subscript) and 'ds9_shape_to_region' in norm(n.func):
                make = fi
    if make is None:
        raise AnalysisError('DS9', par.qualname, 'region-building function not found')
    lexers = {}
    for nm in ('_parse_coord', '_parse_size', '_parse_angle', '_parse_pixel_coord', '_parse_sky_coord'):
        if nm in mod.functions:
            lexers[nm] = mod.functions[nm]
    raw = None
    for fi in mod.functions.values():
        if any(isinstance(n, ast.Call) and call_name(n) == '_RegionData' for n in ast.walk(fi.node)):
            raw = fi
    return par, make, lexers, raw, mod


def ds9_classes(model):
    """[(ClassInfo, region_type)] for classes the DS9 reader can build."""
    t = tables(model, 'regions.io.ds9.core').env.get('ds9_shape_to_region')
    if not isinstance(t, dict):
        raise AnalysisError('DS9', 'ds9_shape_to_region', 'table not evaluable')
    out = []
    for rt, mp in t.items():
        for shape, c in mp.items():
            if isinstance(c, tuple) and c[0] == 'cls':
                out.append((model.cls(c[1]), rt, shape))
    return out


def eval_writer(model, ci, meta_opaque=True, region=None):
    ser, fi, meta_fn = writer_funcs(model)
    from ..vg import reset_marks
    reset_marks()
    ev = Evaluator(model, opaque_funcs={meta_fn.qualname} if meta_opaque else ())
    s = region if region is not None else ev.symbolic_instance(ci, 'region')
    mark_quantity(sym('region.angle'))
    for p in model.params_of(ci):
        k = model.descriptor_kind(ci, p)
        if k in ('PositiveScalarAngle', 'ScalarAngle'):
            s.fields[p] = mark_quantity(sp.Symbol(f'region.{p}', positive=(k == 'PositiveScalarAngle'), real=True))
    out = ev.run(fi, [s], {'precision': sym('prec')})
    return ev, fi, out


def core_fstring(t):
    """(prefix-cond or None, core fstring App) from the 'region' value."""
    if isinstance(t, App) and t.name == 'fstring':
        # f'-{region_str}'
        if len(t.args) == 2 and isinstance(t.args[0], Const) and t.args[0].v == '-' and isinstance(t.args[1], App):
            return 'always', t.args[1]
        # f'{sign}{name}({params})' with sign = '' / '-' chosen by a condition
        p0 = t.args[0] if t.args else None
        if isinstance(p0, Ite) and isinstance(p0.a, Const) and isinstance(p0.b, Const) and {p0.a.v, p0.b.v} == {'', '-'}:
            cond = p0.cond if p0.a.v == '-' else BoolT('not', (p0.cond,))
            return cond, App('fstring', tuple(t.args[1:]))
        return None, t
    if isinstance(t, Ite):
        for with_, without, cond in ((t.a, t.b, t.cond), (t.b, t.a, BoolT('not', (t.cond,)))):
            if isinstance(with_, App) and with_.name == 'fstring' and len(with_.args) == 2 and \
                    isinstance(with_.args[0], Const) and with_.args[0].v == '-' and same(with_.args[1], without):
                return cond, without
    return 'unknown', None


def unfmt(t):
    """(value, format-spec term or None) of a formatted f-string part."""
    if isinstance(t, App) and t.name == 'fmt':
        return t.args[0], t.args[1]
    return t, None


def template_fields(template):
    return [f for _, f, _, _ in string.Formatter().parse(template) if f]


def writer_tokens(model, ci, region_value):
    """Parse the writer's region string term into
    (ds9 name, [token descriptors]) ; token = dict(field, comp, kind, expr)."""
    cond, core = core_fstring(region_value)
    if core is None or len(core.args) != 4:
        raise AnalysisError('DS9', ci.name, f'region string not understood: {show(region_value, 200)}')
    name, lp, fmt, rp = core.args
    if not (isinstance(name, Const) and isinstance(fmt, App) and fmt.name == 'str.format'):
        raise AnalysisError('DS9', ci.name, f'region string not understood: {show(core, 200)}')
    template = fmt.args[0].v
    vals = {}
    for a in fmt.args[1:]:
        if isinstance(a, Tup) and len(a.items) == 2 and isinstance(a.items[0], Const):
            vals[a.items[0].v] = a.items[1]
        elif isinstance(a, DictV):
            for k in a.keys():
                vals[k] = a.get(k)
    toks = []
    for f in template_fields(template):
        v = vals.get(f)
        if v is None:
            raise AnalysisError('DS9', ci.name, f'template field {f} has no value')
        kind = model.descriptor_kind(ci, f)
        if kind in ('ScalarPixCoord', 'OneDPixCoord'):
            scalar = v.a if isinstance(v, Ite) else v
            if kind == 'OneDPixCoord':
                toks.append({'field': f, 'comp': '*', 'kind': 'pixcoords', 'expr': v})
            else:
                if not (isinstance(scalar, App) and scalar.name == 'fstring' and len(scalar.args) == 3):
                    raise AnalysisError('DS9', ci.name, f'pixel coordinate string not understood: {show(scalar, 160)}')
                vx, sx = unfmt(scalar.args[0])
                vy, sy = unfmt(scalar.args[2])
                toks.append({'field': f, 'comp': 'x', 'kind': 'pixcoord', 'expr': vx, 'spec': sx, 'whole': v})
                toks.append({'field': f, 'comp': 'y', 'kind': 'pixcoord', 'expr': vy, 'spec': sy, 'whole': v})
        elif kind in ('ScalarSkyCoord',):
            toks.append({'field': f, 'comp': 'lon', 'kind': 'skycoord', 'expr': v})
            toks.append({'field': f, 'comp': 'lat', 'kind': 'skycoord', 'expr': v})
        elif kind == 'OneDSkyCoord':
            toks.append({'field': f, 'comp': '*', 'kind': 'skycoords', 'expr': v})
        elif kind == 'ScalarAngle':
            toks.append({'field': f, 'comp': '', 'kind': 'angle', 'expr': v})
        else:
            toks.append({'field': f, 'comp': '', 'kind': 'size', 'expr': v})
    return cond, name.v, template, toks


def eval_reader(model, shape, region_type, ntok, frame=None):
    par, make, lexers, raw, mod = reader_funcs(model)
    toks = Tup(tuple(Obj('tok', {}, f'p{i}') for i in range(ntok)), 'list')
    for t in toks.items:
        t.truth = True
    opaque = {f.qualname for n, f in lexers.items() if n in ('_parse_coord', '_parse_size', '_parse_angle')}
    for fi in model.modules['regions.io.ds9.meta'].functions.values():
        opaque.add(fi.qualname)
    ev = Evaluator(model, opaque_funcs=opaque, hooks={'re.split': lambda ev_, a, k: toks})
    frame = frame or ('image' if region_type == 'pixel' else 'fk5')
    rd = Obj('_RegionData', {'frame': Const(frame), 'region_type': Const(region_type), 'shape': Const(shape),
                             'shape_params': Obj('str', {}, 'shape_params'), 'raw_meta': Obj('dict', {}, 'raw_meta'),
                             'region_str': Obj('str', {}, 'region_str')}, None, None)
    out = ev.run(make, [rd], {})
    return ev, make, out


def tok_index(t):
    """index of the token an opaque lexer call reads, and the lexer name; (None, None) otherwise."""
    if isinstance(t, App) and t.name.startswith('call:_parse_'):
        for a in t.args:
            if isinstance(a, Obj) and a.cls == 'tok':
                return int(a.path[1:]), t.name[len('call:_parse_'):]
    return None, None


def strip_factor(t):
    """(inner term, numeric factor) for binop:Mult(x, k)."""
    if isinstance(t, App) and t.name == 'binop:Mult' and len(t.args) == 2 and is_num(t.args[1]):
        inner, k = strip_factor(t.args[0])
        return inner, k * t.args[1]
    return t, sp.Integer(1)


def meta_lexer(model):
    """the reader function that lexes "key=value ..." (holds the metadata regex and the tag list)."""
    par, make, lexers, raw, rmod = reader_funcs(model)
    lex = [f for f in rmod.functions.values()
           if any((call_name(c) or '') in ('re.compile', 'compile') for c in calls_in(f.node)) and len(f.node.args.args) == 1
           and any(isinstance(n, ast.Constant) and n.value == 'tag' for n in ast.walk(f.node))]
    if len(lex) != 1:
        raise AnalysisError('DS9', 'ds9 read', 'metadata lexer (regex + tag list) not identified')
    return lex[0]


def regex_hooks():
    import re

    def compile_(ev, a, k):
        if a and isinstance(a[0], Const) and isinstance(a[0].v, str):
            return Obj('regex', {'pattern': a[0]}, None)
        return NotImplemented

    def findall(ev, a, k):
        base = a[0]
        if isinstance(base, Obj) and base.cls == 'regex' and len(a) == 2 and isinstance(a[1], Const):
            out = []
            for mt in re.findall(base.fields['pattern'].v, a[1].v):
                out.append(Tup(tuple(Const(x) for x in mt)) if isinstance(mt, tuple) else Const(mt))
            return Tup(tuple(out), 'list')
        return NotImplemented
    return {'re.compile': compile_, 'method:findall': findall}


