"""C17 — no sequence of constructions and assignments yields an invalid region."""
import ast

import sympy as sp
import itertools

from ..astutil import (param_default, call_name, calls_in, dotted, enclosing_tests, func_params,
                       norm, parents, raises_in, stmts_of)
from ..cfg import CFG, ENTRY
from ..report import RuleDef
from ..src import AnalysisError
from ..vg import (App, BoolT, Cmp, Const, Evaluator, Ite, Obj, Tup, same, show,
                  sym)
from .common import evaluator, method_or_fail

EXPLANATION = (
    'Decides from source, for every history of constructions and assignments: (R1) every _params name of every concrete region '
    'class resolves in the MRO to a validating descriptor (reviewed: operator) and meta/visual resolve to the coercing '
    'descriptors; (R2) in RegionAttribute.__set__ and its overrides validation dominates the store into instance.__dict__ (a '
    'rejected value leaves the object as it was), __delete__ always raises, every concrete _validate raises on its negative '
    'branch; (R3) instance.__dict__ / object.__setattr__ / setattr / vars() stores occur only in the descriptor; (R4+R9) the '
    'rejection predicate of each of the 10 validators equals the documented domain by truth table over its atomic tests — with '
    'NaN-aware comparison atoms (v > 0 and v <= 0 are both false for NaN) and a finiteness atom for the positive kinds; (R5) '
    'every cross-field comparison that raises in a constructor must also guard assignment; (R6) Meta overrides __init__, '
    '__setitem__, update, setdefault, __ior__ and each inserts only through the whitelist test; (R7) every statement adding to '
    'Regions.regions is dominated by an isinstance(…, Region) test raising TypeError; (R8) RegionBoundingBox/RegionMask '
    'constructors raise before storing. Not decided: the precise set of exotic values np.isscalar accepts.')
EXPLANATION_ADDED = (" Changes: plain setattr() is an ordinary (validated) store; (R5) enforcement on assignment is decided by evaluating `obj.field = NEW` through the repository descriptor's __set__ on a complete instance; (R6b) update/|= are all-or-nothing and setdefault follows the dict contract under the mapped key (partial evaluation); (R7) every list-adding method is evaluated with a non-region member (TypeError, list unchanged) and with regions (all stored), and list parameters are materialised before they are validated; (R9) Quantity-valued attributes are stored and handed out by value, so that a rejected augmented assignment leaves the region as it was.")
EXPLANATION += EXPLANATION_ADDED
EXPLANATION_ADDED2 = (" (R5b) annulus constructors reject exactly outer <= inner, also across units; (R9b) PixCoord-valued attributes are handed out and stored by value (four by-reference descriptors are a known finding); (R10) only None means 'no metadata given': every region constructor is evaluated with falsy non-dictionary meta=/visual= values and has no completing path that swaps them for an empty RegionMeta/RegionVisual.")
EXPLANATION += EXPLANATION_ADDED2
EXPLANATION_ADDED3 = (' (R6b also) update() is probed with the invalid key arriving as a keyword after valid positional or keyword pairs.')
EXPLANATION += EXPLANATION_ADDED3
TRUSTED = ['isinstance, np.isscalar, np.isfinite, Quantity.isscalar, unit.physical_type',
           'comparisons with NaN are False (IEEE)', 'data descriptors take precedence over the instance dict']
ASSUMPTIONS = ['attribute assignment on a region goes through the class descriptors (no __setattr__ override in the package)']

PARAM_EXEMPT = {'operator': 'checked callable in the constructor'}


def r1(ctx):
    m = ctx.model
    for ci in m.region_classes():
        probs = []
        for p in m.params_of(ci):
            if p in PARAM_EXEMPT:
                continue
            if m.descriptor_kind(ci, p) is None:
                probs.append(f'{p} is not a validating descriptor')
        for which, want in (('meta', 'RegionMetaDescr'), ('visual', 'RegionVisualDescr')):
            k = m.descriptor_kind(ci, which)
            if k != want:
                r = m.lookup(ci, which)
                where = f'class-level shared {norm(r[2])} on {r[0].name}' if r and r[1] == 'assign' else 'no class attribute'
                probs.append(f'{which} is not a {want} ({where}): assigned dicts are stored unvalidated/uncoerced')
        if probs:
            ctx.bad(ci.name, 'descriptors', '; '.join(probs), ci.path)
        else:
            ctx.ok(ci.name, 'every parameter and meta/visual is a validating descriptor')
    for k, v in PARAM_EXEMPT.items():
        ctx.note(f'reviewed exemption {k}: {v}')


def r2(ctx):
    m = ctx.model
    base = m.cls('RegionAttribute')
    s = method_or_fail(ctx, base, '__set__')
    cfg = CFG(s.node, exceptions=False)
    stores = [i for i, st in cfg.stmt.items() if cfg.kind[i] == 'stmt' and isinstance(st, ast.Assign)
              and isinstance(st.targets[0], ast.Subscript) and norm(st.targets[0].value).endswith('__dict__')]
    vals = [i for i, st in cfg.stmt.items() if cfg.kind[i] == 'stmt' and any(
        (call_name(c) or '') == 'self._validate' for c in calls_in(st))]
    if stores and vals and cfg.must_pass(stores, vals):
        ctx.ok('RegionAttribute.__set__', 'self._validate(value) dominates the store into instance.__dict__')
    else:
        ctx.bad('RegionAttribute.__set__', 'store-before-validate',
                'the value is stored into instance.__dict__ on a path that has not passed self._validate: a rejected '
                'assignment leaves the invalid value in the object', s.loc())
    d = method_or_fail(ctx, base, '__delete__')
    if isinstance(d.node.body[-1], ast.Raise) and len([x for x in d.node.body if not isinstance(x, ast.Expr)]) == 1:
        ctx.ok('RegionAttribute.__delete__', 'always raises')
    else:
        ctx.bad('RegionAttribute.__delete__', 'deletable', '__delete__ does not unconditionally raise', d.loc())
    n = 0
    for ci in m.subclasses('RegionAttribute'):
        if ci.name == 'RegionAttribute':
            continue
        n += 1
        if '__set__' in ci.methods:
            f = ci.methods['__set__']
            # an override may coerce or copy the value, but whatever reaches instance.__dict__ has been validated: either
            # every normal exit passes through the validating base __set__, or each direct store is dominated by a
            # self._validate call on the value it stores (a copy/conversion of it included)
            from ..cfg import EXIT
            ocfg = CFG(f.node, exceptions=False)
            direct = [i for i, st in ocfg.stmt.items() if ocfg.kind[i] == 'stmt' and isinstance(st, ast.Assign)
                      and isinstance(st.targets[0], ast.Subscript) and '__dict__' in norm(st.targets[0])]
            supers = [i for i, st in ocfg.stmt.items() if ocfg.kind[i] == 'stmt' and any(
                norm(c.func).replace(' ', '') == 'super().__set__' for c in calls_in(st))]
            ok = True
            why = ''
            for i in direct:
                st = ocfg.stmt[i]
                stored = {x.id for x in ast.walk(st.value) if isinstance(x, ast.Name)}
                vals_ = [j for j, s2 in ocfg.stmt.items() if ocfg.kind[j] == 'stmt' and any(
                    (call_name(c) or '') == 'self._validate' and c.args and isinstance(c.args[0], ast.Name)
                    and c.args[0].id in stored for c in calls_in(s2))]
                if not (vals_ and ocfg.must_pass([i], vals_)):
                    ok = False
                    why = f'`{norm(st)[:70]}` is reached without self._validate of the stored value'
            if not direct and not (supers and ocfg.must_pass([EXIT], supers)):
                ok = False
                why = 'a normal exit is reached without a store through the validating base __set__'
            if ok:
                ctx.ok(f'{ci.name}.__set__', 'coerces/copies, and every store is validated (base __set__ or dominating _validate)')
            else:
                ctx.bad(f'{ci.name}.__set__', 'override', f'override can store an unvalidated value: {why}', f.loc())
        v = ci.methods.get('_validate')
        if v is None:
            # an intermediate base (subclasses exist, and no region class uses it as the descriptor of a parameter) keeps
            # the abstract _validate of the base; a concrete descriptor needs its own
            used = any(m.descriptor_kind(rc, p_) == ci.name for rc in m.subclasses('Region') for p_ in m.params_of(rc))
            has_sub = any(c2 is not ci and ci in c2.mro for c2 in m.subclasses('RegionAttribute'))
            inherited = next((c2 for c2 in ci.mro[1:] if '_validate' in c2.methods and c2.name != 'RegionAttribute'), None)
            if (has_sub and not used) or inherited is not None:
                ctx.ok(f'{ci.name}._validate', 'intermediate base, or inherits a concrete _validate')
            else:
                ctx.bad(f'{ci.name}._validate', 'missing', 'descriptor without its own _validate', ci.path)
            continue
        ev_ = evaluator(ctx)
        val_ = Obj('value', {}, 'value')
        val_.typed = False
        out_ = ev_.run(v, [ev_.symbolic_instance(ci), val_], {})
        returns_value = any(not (isinstance(rv, Const) and rv.v is None) for _, rv in out_.returns)
        if out_.raises and not returns_value:
            ctx.ok(f'{ci.name}._validate', 'raises on the negative branch (helpers followed), returns nothing')
        else:
            ctx.bad(f'{ci.name}._validate', 'no-raise', 'validator never raises (or returns a value)', v.loc())
    ctx.need(n >= 10, 'descriptor kinds', f'only {n}')
    for cname in ('Region', 'PixelRegion', 'SkyRegion'):
        c = m.cls(cname)
        if '__setattr__' in c.methods:
            ctx.bad(f'{cname}.__setattr__', 'override', '__setattr__ override bypasses the descriptor argument', c.path)


def _restores_slot(fn, st):
    """`X.__dict__[K] = v` where every definition of the local v in fn is `X.__dict__[K]` (same X, K, as written) and
    neither X nor K is rebound in fn: the store puts back what the slot held."""
    if len(st.targets) != 1 or not isinstance(st.value, ast.Name):
        return False
    slot = norm(st.targets[0])
    used = {x.id for x in ast.walk(st.targets[0]) if isinstance(x, ast.Name)}
    defs = []
    for x in ast.walk(fn):
        tg = []
        if isinstance(x, ast.Assign):
            tg = x.targets
        elif isinstance(x, (ast.AugAssign, ast.AnnAssign, ast.For, ast.NamedExpr)):
            tg = [x.target]
        elif isinstance(x, (ast.With,)):
            tg = [i.optional_vars for i in x.items if i.optional_vars is not None]
        elif isinstance(x, ast.ExceptHandler) and x.name:
            if x.name in used | {st.value.id}:
                return False
        for t in tg:
            for nm in ast.walk(t):
                if isinstance(nm, ast.Name) and isinstance(nm.ctx, ast.Store):
                    if nm.id in used:
                        return False
                    if nm.id == st.value.id:
                        if not (isinstance(x, ast.Assign) and len(x.targets) == 1 and isinstance(t, ast.Name)
                                and norm(x.value) == slot):
                            return False
                        defs.append(x)
    return bool(defs)


def r3(ctx):
    m = ctx.model
    n = 0
    for fi in m.all_functions():
        if fi.path.endswith('.pyx'):
            continue
        for node in ast.walk(fi.node):
            bad = None
            if isinstance(node, (ast.Assign, ast.AugAssign)):
                tg = node.targets if isinstance(node, ast.Assign) else [node.target]
                for t in tg:
                    if isinstance(t, ast.Subscript) and (norm(t.value).endswith('.__dict__') or
                                                         norm(t.value).startswith('vars(')):
                        bad = norm(node)
            elif isinstance(node, ast.Call):
                nm = call_name(node) or ''
                # (plain setattr(obj, name, v) is an ordinary attribute store and goes through the descriptors)
                if nm in ('object.__setattr__',) or nm.endswith('.__dict__.update') or nm.endswith('__dict__.__setitem__'):
                    bad = norm(node)
            if bad:
                n += 1
                if fi.path.endswith('core/attributes.py') and fi.cls and fi.name == '__set__':
                    ctx.ok(f'{fi.cls}.{fi.name}', 'the descriptor is the single raw writer')
                elif isinstance(node, ast.Assign) and _restores_slot(fi.node, node):
                    ctx.ok(f'{fi.cls}.{fi.name}', f'`{bad[:60]}` puts back the value read from the same slot '
                           '(roll-back of a rejected assignment): a value the validators had accepted')
                else:
                    ctx.bad(fi.qualname.split(':')[1], f'raw-store:{bad[:60]}',
                            f'`{bad}` writes an attribute behind the validating descriptors', fi.loc(node))
    ctx.need(n >= 1, 'raw writers', 'the descriptor store was not found')


# ----------------------------------------------------------- validator truth tables
def _bnorm(t):
    """conditionals between truth values spelt out: bool(ite(c, a, b)) is (c and a) or (not c and b) — the evaluator's form of
    a helper written with guard clauses (`if not isscalar(v): return False` ...)"""
    if isinstance(t, App) and t.name in ('bool', 'call:bool') and len(t.args) == 1 and isinstance(t.args[0], (Ite, BoolT, Cmp)):
        return _bnorm(t.args[0])
    if isinstance(t, BoolT) and t.op == 'truthy' and len(t.args) == 1 and isinstance(t.args[0], (Ite, BoolT, Cmp)):
        return _bnorm(t.args[0])
    if isinstance(t, Ite):
        c, a, b = _bnorm(t.cond), _bnorm(t.a), _bnorm(t.b)
        return BoolT('or', (BoolT('and', (c, a)), BoolT('and', (BoolT('not', (c,)), b))))
    if isinstance(t, BoolT) and t.op in ('and', 'or', 'not', 'xor'):
        return BoolT(t.op, tuple(_bnorm(x) for x in t.args))
    if isinstance(t, Cmp) and t.op in ('!=', 'isnot', 'notin'):
        return BoolT('not', (Cmp({'!=': '==', 'isnot': 'is', 'notin': 'in'}[t.op], t.lhs, t.rhs),))
    return t


def _atoms(t, out):
    if isinstance(t, BoolT) and t.op in ('and', 'or', 'not', 'xor'):
        for a in t.args:
            _atoms(a, out)
    elif isinstance(t, Const):
        pass
    else:
        k = show(t, 400)
        out.setdefault(k, t)


def _evalb(t, asg):
    if isinstance(t, Const):
        return bool(t.v)
    if isinstance(t, BoolT) and t.op == 'and':
        return all(_evalb(a, asg) for a in t.args)
    if isinstance(t, BoolT) and t.op == 'or':
        return any(_evalb(a, asg) for a in t.args)
    if isinstance(t, BoolT) and t.op == 'not':
        return not _evalb(t.args[0], asg)
    return asg[show(t, 400)]


V = 'value'
EXPECT = {
    'ScalarPixCoord': ['+bool(isinstance(value, PixCoord))', '+bool(attr:isscalar(value))'],
    'OneDPixCoord': ['+bool(isinstance(value, PixCoord))', '-bool(attr:isscalar(value))', '+(attr:ndim(attr:x(value)) == 1)'],
    'PositiveScalar': ['-bool(isinstance(value, astropy.units.Quantity))', '+bool(isscalar(value))', '+(0 < value)',
                       '+bool(numpy.isfinite(value))'],
    'ScalarSkyCoord': ['+bool(isinstance(value, astropy.coordinates.SkyCoord))', '+bool(attr:isscalar(value))'],
    'OneDSkyCoord': ['+bool(isinstance(value, astropy.coordinates.SkyCoord))', '+(attr:ndim(value) == 1)'],
    'ScalarAngle': ['+bool(isinstance(value, astropy.units.Quantity))', '+bool(attr:isscalar(value))',
                    "+(attr:physical_type(attr:unit(value)) == 'angle')"],
    'PositiveScalarAngle': ['+bool(isinstance(value, astropy.units.Quantity))', '+bool(attr:isscalar(value))',
                            "+(attr:physical_type(attr:unit(value)) == 'angle')", '+(0 < value)',
                            '+bool(numpy.isfinite(value))'],
    'RegionType': ['+bool(isinstance(value, attr:regionclass(self)))'],
    'RegionText': ['+bool(isinstance(value, str))'],
    'RegionMetaDescr': ['+bool(isinstance(value, RegionMeta))'],
    'RegionVisualDescr': ['+bool(isinstance(value, RegionVisual))'],
}
# mutually exclusive comparison atoms (both may be False: NaN)
EXCLUSIVE = [('(0 < value)', '(value <= 0)'), ('(0 < value)', '(value < 0)'), ('(0 <= value)', '(value < 0)')]


def r4(ctx):
    m = ctx.model
    for cname, exp in EXPECT.items():
        ci = m.cls(cname)
        f = method_or_fail(ctx, ci, '_validate')
        ev = evaluator(ctx)
        s = ev.symbolic_instance(ci)
        v = Obj('value', {}, 'value')
        v.typed = False
        out = ev.run(f, [s, v], {})
        conds = [_bnorm(ev.conj(pc)) for pc, n, _ in out.raises]
        names = {n for pc, n, _ in out.raises}
        atoms = {}
        for c in conds:
            _atoms(c, atoms)
        want_atoms = [e[1:] for e in exp]
        keys = sorted(set(atoms) | set(want_atoms))
        wrong = []
        for bits in itertools.product([False, True], repeat=len(keys)):
            asg = dict(zip(keys, bits))
            if any(asg.get(a) and asg.get(b) for a, b in EXCLUSIVE):
                continue
            rejects = any(_evalb(c, asg) for c in conds)
            accept_spec = all(asg[e[1:]] == (e[0] == '+') for e in exp)
            if rejects == accept_spec:
                wrong.append({k: v_ for k, v_ in asg.items()})
        construct = f'{cname}._validate'
        if not (names <= {'ValueError', 'TypeError'}):
            ctx.bad(construct, 'exception-type', f'raises {names}', f.loc())
        elif wrong:
            w = wrong[0]
            acc = [k for k, b in w.items() if b]
            kind = 'accepts-invalid' if not any(_evalb(c, w) for c in conds) else 'rejects-valid'
            extra = ''
            if cname.startswith('Positive') and '(0 < value)' in keys and not w.get('(0 < value)') and kind == 'accepts-invalid':
                extra = ' (e.g. NaN: neither v > 0 nor v <= 0 holds)'
            if cname.startswith('Positive') and not w.get('bool(numpy.isfinite(value))') and kind == 'accepts-invalid':
                extra += ' (non-finite sizes such as inf/NaN pass)'
            ctx.bad(construct, kind,
                    f'{kind}: with true atoms {acc} the validator {"accepts" if kind == "accepts-invalid" else "rejects"} '
                    f'but the documented domain is {" & ".join(exp)}{extra}; {len(wrong)} of the truth-table rows disagree',
                    f.loc())
        else:
            ctx.ok(construct, f'rejects exactly outside: {" & ".join(exp)}')


def _ctor_raises(ctx, ci):
    """Raise outcomes [(path condition, exception name, node)] of ci's constructor on symbolic, type-correct
    arguments (sizes positive, sky sizes unit-carrying quantities), and the parameter names."""
    from ..vg import mark_quantity, reset_marks
    m = ctx.model
    init = m.method(ci, '__init__')
    reset_marks()
    ev = evaluator(ctx)
    ps = func_params(init.node)[1:]
    args = []
    for p in ps:
        k = m.descriptor_kind(ci, p)
        if k in ('ScalarPixCoord', 'OneDPixCoord'):
            args.append(Obj('PixCoord', {}, p, m.cls('PixCoord')))
        elif k in ('ScalarSkyCoord', 'OneDSkyCoord'):
            args.append(Obj('SkyCoord', {}, p))
        elif k == 'PositiveScalar':
            args.append(sym(p, positive=True))
        elif k == 'PositiveScalarAngle':
            args.append(mark_quantity(sym(p, positive=True)))
        elif k == 'ScalarAngle':
            args.append(mark_quantity(sym(p)))
        elif p in ('meta', 'visual'):
            args.append(Const(None))
        else:
            args.append(sym(p))
    # attribute stores run the descriptors' __set__ (a cross-field check may live there); the single-field validators
    # are switched off: the arguments are type-correct by construction, and C17.R4 decides the validators themselves
    for d_ in m.subclasses('RegionAttribute'):
        v_ = d_.methods.get('_validate')
        if v_ is not None:
            ev.hooks[v_.qualname] = lambda e, a, k: Const(None)
    ev.descriptor_sets = True
    self_ = Obj(ci.name, {}, None, ci)
    out = ev.run(init, [self_] + args, {})
    _CTOR_FIELDS[ci.name] = [k for k in self_.fields if not k.startswith('__')]
    return ev, ps, out.raises


_CTOR_FIELDS = {}


def _assign_raises(ctx, ci, fld, validators_on):
    """raise outcomes of `obj.<fld> = NEW` on an instance of ci whose parameters all hold (symbolic, valid) values."""
    from ..model import FuncInfo
    m = ctx.model
    ev = evaluator(ctx)
    if not validators_on:
        for d_ in m.subclasses('RegionAttribute'):
            v_ = d_.methods.get('_validate')
            if v_ is not None:
                ev.hooks[v_.qualname] = lambda e, a, k: Const(None)
    ev.descriptor_sets = True
    node = ast.parse(f'def _assign(obj, new):\n    obj.{fld} = new\n').body[0]
    fi = FuncInfo('_assign', f'{ci.module}:_assign', ci.module, None, node, ci.path)
    # a complete instance: the parameters hold (symbolic, valid) values, and so does every other attribute the
    # constructor stores (a __setattr__ may ask whether construction is over)
    if ci.name not in _CTOR_FIELDS:
        _ctor_raises(ctx, ci)
    names = list(m.params_of(ci)) + [k for k in _CTOR_FIELDS.get(ci.name, []) if k not in m.params_of(ci)
                                     and k not in ('meta', 'visual')]
    inst = Obj(ci.name, {p_: sym('cur_' + p_, positive=True) for p_ in names}, None, ci)
    out = ev.run(fi, [inst, sym('NEW_' + fld, positive=True)], {})
    return ev, out.raises


def _cmp_atoms(ev, raises):
    """comparison atoms of the raise conditions (each raise's own test is the last conjunct of its path)."""
    from ..vg import walk_terms
    seen, out = set(), []
    for pc, exc, node in raises:
        for t in walk_terms(ev.conj(pc)):
            if isinstance(t, Cmp) and show(t) not in seen:
                seen.add(show(t))
                out.append((t, exc, node))
    return out


def _atom_fields(t, params):
    names = set()
    for side in (t.lhs, t.rhs):
        for sy in getattr(side, 'free_symbols', ()):
            if sy.name in params:
                names.add(sy.name)
    return sorted(names)


def r5(ctx):
    m = ctx.model
    n = 0
    for ci in m.region_classes(concrete=False):
        init = ci.methods.get('__init__')
        if init is None:
            continue
        ev, ps, raises = _ctor_raises(ctx, ci)
        # constraints inherited through super().__init__ are reported on the class that states them
        inherited = set()
        for b in ci.mro[1:]:
            if b.methods.get('__init__') is not None and m.is_subclass(b, 'Region') and b.name != 'Region':
                ev_b, _, r_b = _ctor_raises(ctx, b)
                inherited |= {show(t) for t, _, _ in _cmp_atoms(ev_b, r_b)}
                break
        for t, exc, node in _cmp_atoms(ev, raises):
            if show(t) in inherited:
                continue
            fields = _atom_fields(t, set(ps))
            if not fields:
                continue
            n += 1
            # enforced on assignment? assigning any of the constrained fields on a complete instance must be able to raise
            # on a comparison of the new value with the other field (or, for a single field, with the same bound)
            guarded = True
            for fld in fields:
                ev_a, r_a = _assign_raises(ctx, ci, fld, validators_on=(len(fields) == 1))
                hit = False
                for t2, exc2, _n2 in _cmp_atoms(ev_a, r_a):
                    txt2 = show(t2, 300)
                    if 'NEW_' + fld not in txt2:
                        continue
                    if len(fields) > 1 and any('cur_' + f2 in txt2 for f2 in fields if f2 != fld):
                        hit = True
                    if len(fields) == 1 and re_const(show(t)) in txt2:
                        hit = True
                guarded = guarded and hit
            if guarded:
                ctx.ok(f'{ci.name}:{"/".join(fields)}', 'constraint also enforced on assignment')
            else:
                ctx.bad(ci.name, f'constructor-only:{"/".join(fields)}',
                        f'the constraint `not {show(t, 120)}` is checked only in the constructor: a later '
                        f'assignment to {" or ".join(fields)} can violate it (e.g. inner size >= outer size gives a '
                        'negative area / empty annulus)', init.loc(node) if hasattr(node, 'lineno') else init.loc())
    ctx.need(n >= 6, 'cross-field constraints', f'only {n} found')


def re_const(text):
    """the numeric bound in a shown single-field atom such as `(nvertices < 3)`"""
    import re
    mt = re.search(r'[<>=]+ *([-0-9.]+)\)?$', text)
    return mt.group(1) if mt else text


def _eval_bool(t, val):
    if isinstance(t, Const):
        return bool(t.v)
    if isinstance(t, Cmp):
        return val(t)
    if isinstance(t, BoolT):
        xs = [_eval_bool(a, val) for a in t.args]
        if t.op == 'not':
            return not xs[0]
        if t.op == 'and':
            return all(xs)
        if t.op == 'or':
            return any(xs)
        if t.op == 'xor':
            return xs[0] != xs[1]
    raise AnalysisError('C17.R5b', 'raise condition', f'not a boolean combination of comparisons: {show(t, 120)}')


def r5b(ctx):
    """constructor rejects exactly when some outer size does not exceed its inner size (as quantities)."""
    from ..vg import mk_not, pred_equiv
    m = ctx.model
    n = 0
    for ci in m.region_classes(concrete=False):
        init = ci.methods.get('__init__')
        if init is None:
            continue
        ps = func_params(m.method(ci, '__init__').node)[1:]
        pairs = [(p, 'outer_' + p[6:]) for p in ps if p.startswith('inner_') and 'outer_' + p[6:] in ps]
        if not pairs:
            continue
        n += 1
        construct = f'{ci.name}.__init__'
        ev, ps, raises = _ctor_raises(ctx, ci)
        pos = m.descriptor_kind(ci, pairs[0][0]) in ('PositiveScalar', 'PositiveScalarAngle')
        want = [Cmp('<=', sym(o, positive=pos), sym(i, positive=pos)) for i, o in pairs]
        cond = [ev.conj(pc) for pc, exc, node in raises if exc == 'ValueError']
        other = [exc for pc, exc, node in raises if exc != 'ValueError']
        amap, bad = {}, None
        for t, exc, node in _cmp_atoms(ev, raises):
            for k, w in enumerate(want):
                if pred_equiv(t, w) == 'eq':
                    amap[show(t)] = (k, True)
                    break
                nt = mk_not(t)
                if not isinstance(nt, Cmp) and isinstance(t, Cmp) and t.op in ('<', '<=', '>', '>='):
                    # not (a < b) == b <= a, etc. (spelled with <, <= only)
                    nt = {'<': Cmp('<=', t.rhs, t.lhs), '<=': Cmp('<', t.rhs, t.lhs), '>': Cmp('<=', t.lhs, t.rhs),
                          '>=': Cmp('<', t.lhs, t.rhs)}[t.op]
                if isinstance(nt, Cmp) and pred_equiv(nt, w) == 'eq':
                    amap[show(t)] = (k, False)
                    break
            else:
                bad = t
        if bad is not None or other:
            what = (f'the comparison {show(bad, 160)} is not `outer <= inner` on the sizes themselves (for sky regions: on '
                    'the quantities, whatever their units)') if bad is not None else f'raises {other[0]} instead of ValueError'
            ctx.bad(construct, 'ordering-predicate', 'annulus constructor: ' + what, init.loc())
            continue
        ok = True
        for bits in itertools.product((False, True), repeat=len(want)):
            def val(t, bits=bits):
                k, polarity = amap[show(t)]
                return bits[k] if polarity else not bits[k]
            got = any(_eval_bool(c, val) for c in cond)
            if got != any(bits):
                ok = False
                ctx.bad(construct, 'ordering-predicate',
                        f'with {", ".join(f"{o}<={i}" + ("" if b else " false") for (i, o), b in zip(pairs, bits))} the '
                        f'constructor {"raises" if got else "does not raise"}; outer sizes not exceeding inner ones must be '
                        'rejected, and only those', init.loc())
                break
        if ok:
            ctx.ok(construct, f'rejects iff {" or ".join(f"{o} <= {i}" for i, o in pairs)}')
    ctx.need(n >= 8, 'annulus constructors', f'only {n} found')


INSERTING = ('__init__', '__setitem__', 'update', 'setdefault', '__ior__')


def _membership_atoms(pc):
    """[(lhs, rhs, positive)] for every `x in y` / `x not in y` conjunct (through one negation) of a path condition."""
    out = []
    todo = list(pc)
    while todo:
        t = todo.pop()
        if isinstance(t, BoolT) and t.op == 'and':
            todo += list(t.args)
        elif isinstance(t, BoolT) and t.op in ('truthy',):
            todo.append(t.args[0])
        elif isinstance(t, BoolT) and t.op == 'not' and isinstance(t.args[0], Cmp) and t.args[0].op in ('in', 'notin'):
            c = t.args[0]
            out.append((c.lhs, c.rhs, c.op == 'notin'))
        elif isinstance(t, Cmp) and t.op in ('in', 'notin'):
            out.append((t.lhs, t.rhs, t.op == 'in'))
    return out


def _setitem_semantics(ctx, ci, f):
    """'' when Meta.__setitem__ stores exactly the mapped key under `mapped key in valid_keys` and raises KeyError
    otherwise; a message when it does not; None when the evaluation is not conclusive (the syntactic clause decides then)."""
    from ..tb import class_tables
    m = ctx.model
    probs = []
    for cname in ('RegionMeta', 'RegionVisual'):
        valid = class_tables(m, cname).get('valid_keys')
        if not isinstance(valid, (list, tuple)):
            return None
        stores = []
        ev = Evaluator(m, hooks={
            'super:__setitem__': lambda e, a, k, stores=stores: (stores.append((k.get('__pc__', []), a[1:])), Const(None))[1]})
        selfo = Obj(cname, {}, 'self', m.cls(cname))
        selfo.typed = False
        key, val = Obj('str', {}, 'key'), Obj('obj', {}, 'value')
        out = ev.run(f, [selfo, key, val], {})
        if not stores:
            return None
        for pc, args in stores:
            kt = args[0] if args else None
            atoms = _membership_atoms(pc)
            guard = [a for a in atoms if same(a[0], kt) and a[2] and isinstance(a[1], Tup)
                     and [i.v for i in a[1].items if isinstance(i, Const)] == list(valid)]
            if not guard:
                probs.append(f'{cname}: the store of `{show(kt, 80)}` happens under `{show(ev.conj(pc), 160)}`, not under '
                             '`<that key> in valid_keys`')
            if kt is None or same(kt, key) or 'key' not in show(kt, 400):
                probs.append(f'{cname}: the stored key `{show(kt, 80)}` is not key_mapping.get(key, key)')
        bad_raise = [n for pc, n, _ in out.raises if n != 'KeyError']
        rej = [a for pc, n, _ in out.raises if n == 'KeyError' for a in _membership_atoms(pc)
               if not a[2] and isinstance(a[1], Tup)]
        if not rej or bad_raise:
            probs.append(f'{cname}: keys outside valid_keys do not raise KeyError '
                         f'(raises: {[(show(ev.conj(pc), 80), n) for pc, n, _ in out.raises][:2]})')
    return '; '.join(probs[:3])


def r6(ctx):
    m = ctx.model
    ci = m.cls('Meta')
    for name in INSERTING:
        f = ci.methods.get(name)
        if f is None:
            ctx.bad(f'Meta.{name}', 'not-overridden',
                    f'Meta does not override dict.{name}: keys outside the documented vocabulary can be inserted '
                    'through it', ci.path)
            continue
        fn = f.node
        pm = parents(fn)
        raw = []
        routed = False
        for c in calls_in(fn):
            nm = norm(c.func)
            if nm in ('super().__setitem__', 'dict.__setitem__', 'super().update', 'dict.update',
                      'super().setdefault', 'dict.setdefault', 'super().__ior__', 'dict.__ior__'):
                tests = enclosing_tests(fn, c, pm)
                ok = any(pol and norm(t).replace(' ', '') == 'keyinself.valid_keys' for t, pol in tests)
                if not (ok and nm == 'super().__setitem__' and name == '__setitem__'):
                    raw.append(norm(c))
                else:
                    routed = True
            if nm in ('self.__setitem__', 'self.update'):
                routed = True
        for st in stmts_of(fn):
            if isinstance(st, ast.Assign) and isinstance(st.targets[0], ast.Subscript) and norm(st.targets[0].value) == 'self':
                routed = True
        if name == '__setitem__':
            sem = _setitem_semantics(ctx, ci, f)
            if sem is not None:
                if sem:
                    ctx.bad(f'Meta.{name}', 'bypass', sem, f.loc())
                else:
                    ctx.ok(f'Meta.{name}', 'stores the mapped key only under the whitelist test; KeyError otherwise')
                continue
        if raw:
            ctx.bad(f'Meta.{name}', 'bypass', f'`{raw[0]}` inserts without the whitelist test', f.loc())
        elif not routed:
            ctx.bad(f'Meta.{name}', 'no-route', 'does not insert through the whitelisted __setitem__', f.loc())
        else:
            ctx.ok(f'Meta.{name}', 'inserts only through the whitelist test')
    # the constructor hands every (key, value) pair of its input to the whitelisting __setitem__, key first
    init, seti = ci.methods.get('__init__'), ci.methods.get('__setitem__')
    if init is not None and seti is not None:
        from ..vg import DictV
        cases = (('a dict', DictV([{'label': Const('x'), 'text': Const('y')}]), {}),
                 ('a list of pairs', Tup((Tup((Const('label'), Const('x'))), Tup((Const('text'), Const('y')))), 'list'), {}),
                 ('keyword arguments', Const(None), {'label': Const('x'), 'text': Const('y')}))
        wrong = []
        for label, seq, kw in cases:
            rec = []
            ev = Evaluator(m, hooks={seti.qualname: lambda e, a, k, rec=rec: (rec.append((show(a[1]), show(a[2]))), Const(None))[1]})
            ev.run(init, [Obj('RegionMeta', {}, None, m.cls('RegionMeta')), seq], kw)
            if rec != [("'label'", "'x'"), ("'text'", "'y'")]:
                wrong.append((label, rec))
        if wrong:
            ctx.bad('Meta.__init__', 'pair-order', f'constructed from {wrong[0][0]} the entries are inserted as {wrong[0][1]}, not '
                    "(key, value) in order", init.loc())
        else:
            ctx.ok('Meta.__init__:pairs', 'dict, list of pairs and keywords are inserted as (key, value) through __setitem__')
    # aliases: entries live under the mapped key, so a presence test on the raw key misses them
    for name, f in sorted(ci.methods.items()):
        fn = f.node
        ps = func_params(fn)
        if 'key' not in ps:
            continue
        tests = [n for n in ast.walk(fn) if isinstance(n, ast.Compare) and isinstance(n.ops[0], (ast.In, ast.NotIn))
                 and norm(n.left) == 'key' and norm(n.comparators[0]) == 'self']
        if not tests:
            continue
        cfg = CFG(fn, exceptions=False)
        def maps_key(v):
            if 'key_mapping' in norm(v):
                return True
            # a helper method of the class that looks the key up in key_mapping
            return isinstance(v, ast.Call) and any(h.cls == f.cls and 'key_mapping' in ast.unparse(h.node)
                                                   for h in (m.resolve_call(f, v) or ()))
        maps = [i for i, st in cfg.stmt.items() if cfg.kind[i] == 'stmt' and isinstance(st, ast.Assign)
                and norm(st.targets[0]) == 'key' and maps_key(st.value)]
        tn = [i for i, st in cfg.stmt.items() if cfg.kind[i] == 'test' and any(t is x for t in tests for x in ast.walk(st.test))]
        if maps and tn and cfg.must_pass(tn, maps):
            ctx.ok(f'Meta.{name}:alias', 'presence is tested on the mapped key')
        else:
            ctx.bad(f'Meta.{name}', 'alias-presence',
                    f'`{norm(tests[0])}` tests the raw key although entries are stored under key_mapping[key]: '
                    "RegionVisual(symbol='x').setdefault('point', 'y') overwrites the existing entry", f.loc(tests[0]))
    # the whitelist test raises KeyError
    f = ci.methods.get('__setitem__')
    if f is not None and _setitem_semantics(ctx, ci, f) == '':
        ctx.ok('Meta.__setitem__:raise', 'KeyError for keys outside valid_keys (symbolic evaluation)')
    elif f is not None and 'KeyError' in (raises_in(f.node.body) or [None]):
        ctx.ok('Meta.__setitem__:raise', 'KeyError for keys outside valid_keys')
    else:
        ctx.bad('Meta.__setitem__', 'no-keyerror', 'invalid keys do not raise KeyError', f.loc() if f else ci.path)


def r6b(ctx):
    """multi-key inserts are all-or-nothing: update / |= / keyword construction, partially evaluated on dictionaries that
    contain one key outside the vocabulary (first, last), store nothing and raise KeyError; valid dictionaries store every
    pair."""
    m = ctx.model
    ci = m.cls('Meta')
    probes = [({'label': 'x', 'bogus': 'y'}, {}, None), ({'bogus': 'y', 'label': 'x'}, {}, None),
              ({'label': 'x', 'text': 't'}, {}, [("'label'", "'x'"), ("'text'", "'t'")]),
              # keyword forms of update(): the invalid key may arrive as a keyword after valid positional / keyword pairs
              (None, {'label': 'x', 'bogus': 'y'}, None), (None, {'bogus': 'y', 'label': 'x'}, None),
              ({'label': 'x'}, {'bogus': 'y'}, None), ({'bogus': 'y'}, {'label': 'x'}, None),
              ({'label': 'x'}, {'text': 't'}, [("'label'", "'x'"), ("'text'", "'t'")]),
              (None, {'label': 'x', 'text': 't'}, [("'label'", "'x'"), ("'text'", "'t'")])]
    for name in ('update', '__ior__', 'setdefault'):
        f = ci.methods.get(name)
        if f is None:
            continue
        if name == 'setdefault':
            # dict contract, partially evaluated: the value is stored exactly when the (mapped) key is absent, through the
            # validating __setitem__, and what is returned is the stored entry
            probs = []
            for cname, key, stored in (('RegionMeta', 'label', 'label'), ('RegionVisual', 'point', 'symbol')):
                sci = m.cls(cname)
                if sci is None:
                    continue
                rec = []
                ev = Evaluator(m, hooks={'super:__setitem__': lambda e, a, k, rec=rec: (
                    rec.append(([show(c) for c in k.get('__pc__', [])], show(a[1]), show(a[2]))), Const(None))[1]})
                o = Obj(cname, {}, 'self', sci)
                out = ev.run(f, [o, Const(key), Obj('str', {}, 'V')], {})
                if out.raises:
                    probs.append(f'{cname}.setdefault({key!r}, V) can raise {sorted({n for _, n, _ in out.raises})}')
                    continue
                want_pc = f"('{stored}' notin self)"
                if len(rec) != 1 or rec[0][1] != f"'{stored}'" or rec[0][2] != 'V' or want_pc not in rec[0][0] \
                        or any(c != want_pc and 'self' in c for c in rec[0][0]):
                    probs.append(f'{cname}.setdefault({key!r}, V) stores {[(r[1], r[2], "when " + " and ".join(r[0])) for r in rec]}; '
                                 f'the dict contract stores ({stored!r}, V) exactly when {stored!r} is absent')
                rets = {show(v, 80) for _, v in out.returns}
                if rets != {f"getitem(self, '{stored}')"}:
                    probs.append(f'{cname}.setdefault({key!r}, V) returns {sorted(rets)}, not the stored entry')
            if probs:
                ctx.bad(f'Meta.{name}', 'setdefault-contract', probs[0], f.loc())
            else:
                ctx.ok(f'Meta.{name}', 'stores (mapped key, value) exactly when the key is absent; returns the entry')
            continue
        probs = []
        for other, kws, want in probes:
            if name != 'update' and (kws or other is None):
                continue
            rec = []
            ev = Evaluator(m, hooks={'super:__setitem__': lambda e, a, k, rec=rec: (rec.append((show(a[1]), show(a[2]))), Const(None))[1]})
            o = Obj('RegionMeta', {}, 'self', m.cls('RegionMeta'))
            from ..vg import DictV
            out = ev.run(f, [o] + ([] if other is None else [DictV([{k: Const(v) for k, v in other.items()}])]),
                         {k: Const(v) for k, v in kws.items()})
            call = ', '.join(([repr(other)] if other is not None else []) + [f'{k}={v!r}' for k, v in kws.items()])
            definite = [n for pc, n, _ in out.raises if not [c for c in pc if not (isinstance(c, Const) and c.v is True)]]
            if any(pc for pc, n, _ in out.raises if n and [c for c in pc if not isinstance(c, Const)]):
                raise AnalysisError('C17.R6b', f'Meta.{name}', 'not reducible on a constant dictionary')
            if want is None:
                if rec:
                    probs.append(f'{name}({call}) stores {rec} before the invalid key is rejected: a rejected operation '
                                 'does not leave the object as it was (validate every key before the first insertion)')
                elif 'KeyError' not in definite:
                    probs.append(f'{name}({call}) does not raise KeyError for the invalid key')
            elif rec != want or definite:
                probs.append(f'{name}({call}) stores {rec} / raises {definite}; expected {want}')
        if probs:
            ctx.bad(f'Meta.{name}', 'partial-update', probs[0], f.loc())
        else:
            ctx.ok(f'Meta.{name}', 'an invalid key anywhere -> KeyError and nothing stored; valid pairs all stored')


ADDERS = ('__init__', 'append', 'extend', 'insert', '__setitem__', '__iadd__')


def r7(ctx):
    """only regions enter a region list: every method that adds to the list is partially evaluated with a member that is
    not a region (a PixCoord) — it must raise TypeError and leave the list as it was — and with regions, which must all be
    stored. Lists are validated after being materialised once (a one-shot iterator read twice is empty when stored)."""
    m = ctx.model
    ci = m.cls('Regions')
    pc_ci = m.cls('PixCoord')
    n = 0

    def fresh(ev):
        good1 = ev.symbolic_instance(m.cls('CirclePixelRegion'), 'good1')
        good2 = ev.symbolic_instance(m.cls('CirclePixelRegion'), 'good2')
        bad = ev.symbolic_instance(pc_ci, 'notaregion')
        return good1, good2, bad

    def run(name, make_args, start):
        ev = evaluator(ctx)
        g1, g2, bad = fresh(ev)
        self_ = Obj('Regions', {'regions': Tup(tuple(start(g1, g2, bad)), 'list')}, 'self', ci)
        before = self_.fields['regions']
        out = ev.run(ci.methods[name], [self_] + make_args(g1, g2, bad), {})
        definite = [nm for pc_, nm, _ in out.raises if not [c for c in pc_ if not (isinstance(c, Const) and c.v is True)]]
        possible = sorted({nm for _, nm, _ in out.raises})
        return self_, before, out, definite, possible

    cases = []
    if 'append' in ci.methods:
        cases.append(('append', 'one', lambda g1, g2, b: [b], lambda g1, g2, b: [g2], lambda g1, g2, b: [g1]))
    if 'insert' in ci.methods:
        cases.append(('insert', 'one', lambda g1, g2, b: [sp.Integer(0), b], lambda g1, g2, b: [sp.Integer(0), g2], lambda g1, g2, b: [g1]))
    for nm in ('__init__', 'extend'):
        if nm in ci.methods:
            cases.append((nm, 'many', lambda g1, g2, b: [Tup((g1, b), 'list')], lambda g1, g2, b: [Tup((g1, g2), 'list')],
                          lambda g1, g2, b: []))
    for name, kind, bad_args, good_args, start in cases:
        n += 1
        construct = f'Regions.{name}'
        s1, before, out, definite, possible = run(name, bad_args, start)
        probs = []
        if 'TypeError' not in definite:
            probs.append(f'a member that is not a region ({"in a list after a region" if kind == "many" else "given directly"}) is not '
                         f'rejected with TypeError (raises {possible or "nothing"})')
        after = s1.fields.get('regions')
        if name != '__init__' and not same(after, before) and 'notaregion' in show(after, 400):
            probs.append(f'the rejected member is in the list afterwards: {show(after, 120)}')
        elif name != '__init__' and 'TypeError' in definite and not same(after, before):
            probs.append(f'the rejected call has changed the list (now {show(after, 120)}): an input that is refused must leave '
                         'the object as it was')
        s2, before2, out2, definite2, possible2 = run(name, good_args, start)
        after2 = show(s2.fields.get('regions'), 400)
        if definite2 or not all(k in after2 for k in (['good1', 'good2'])):
            probs.append(f'regions are not all stored (list afterwards {after2[:120]}, raises {possible2})')
        if probs:
            ctx.bad(construct, 'unchecked-add', '; '.join(probs) + ': non-region members can enter the list', ci.methods[name].loc())
        else:
            ctx.ok(construct, 'a non-region member raises TypeError and leaves the list as it was; regions are stored')
    ctx.need(n >= 4, 'list-adding methods', f'only {n}')
    # one-shot iterables: the same methods, given a generator of two regions (consumed once: a second pass over it finds
    # nothing), must store both regions
    from ..model import FuncInfo
    from ..vg import GenV
    gnode = ast.parse('def _two(a, b):\n    yield a\n    yield b\n').body[0]
    n2 = 0
    for name in ('__init__', 'extend'):
        f = ci.methods.get(name)
        if f is None:
            continue
        n2 += 1
        ev = evaluator(ctx)
        g1, g2, bad = fresh(ev)
        gfi = FuncInfo('_two', f'{ci.module}:_two', ci.module, None, gnode, ci.path)
        self_ = Obj('Regions', {'regions': Tup((), 'list')}, 'self', ci)
        out = ev.run(f, [self_, GenV(gfi, [g1, g2], {}, 1)], {})
        after = show(self_.fields.get('regions'), 400)
        if out.raises or not ('good1' in after and 'good2' in after):
            ctx.bad(f'Regions.{name}', 'iterable-read-twice:regions',
                    f'given a one-shot iterator of two regions the list afterwards is {after[:100]}'
                    f'{" (raises " + str(sorted({n_ for _, n_, _ in out.raises})) + ")" if out.raises else ""}: the iterator is read '
                    'more than once (validated in one pass, stored in another), so the regions are silently lost; it must be '
                    'materialised once (list(...)) before both', f.loc())
        else:
            ctx.ok(f'Regions.{name}: one-shot iterator', 'both regions of a generator argument are stored')
    ctx.need(n2 >= 2, 'one-shot iterator cases', f'only {n2}')


def r8(ctx):
    from .c19 import r6 as c19r6
    c19r6(ctx)
    m = ctx.model
    ci = m.cls('RegionMask')
    init = method_or_fail(ctx, ci, '__init__')
    ev = evaluator(ctx)
    o = Obj('RegionMask', {}, None, ci)
    box = Obj('RegionBoundingBox', {}, 'bbox', m.cls('RegionBoundingBox'))
    out = ev.run(init, [o, Obj('ndarray', {}, 'data'), box], {})
    rs = [(show(ev.conj(pc), 300), n) for pc, n, _ in out.raises]
    if any(n == 'ValueError' and '!=' in c and 'attr:shape' in c and 'bbox' in c for c, n in rs):
        cfg = CFG(init.node, exceptions=False)
        stores = [i for i, st in cfg.stmt.items() if cfg.kind[i] == 'stmt' and isinstance(st, ast.Assign)
                  and norm(st.targets[0]) == 'self.bbox']
        tests = [i for i, st in cfg.stmt.items() if cfg.kind[i] == 'test']
        if stores and cfg.must_pass(stores, tests):
            ctx.ok('RegionMask.__init__', 'shape agreement raises ValueError before the box is stored')
            return
    ctx.bad('RegionMask.__init__', 'shape-guard', f'mask/box shape agreement not enforced: {rs}', init.loc())


QUANTITY_DESCRIPTORS = ('ScalarAngle', 'PositiveScalarAngle')      # the descriptor classes whose values are Quantities


def r9(ctx):
    """a rejected assignment leaves the object as it was — also an augmented one: `region.radius *= -1` first updates the
    object handed out by the descriptor in place and then assigns it. If __get__ hands out the stored Quantity itself, the
    stored value is already -3 deg when the validator rejects the assignment. Quantity-valued attributes must therefore be
    handed out and taken in by value (a copy)."""
    from ..vg import DictV
    m = ctx.model
    for name in QUANTITY_DESCRIPTORS:
        ci = m.cls(name)
        ctx.need(ci is not None, name, 'descriptor class not found')
        getf, setf, valf = m.method(ci, '__get__'), m.method(ci, '__set__'), m.method(ci, '_validate')
        ctx.need(getf is not None and setf is not None and valf is not None, name, '__get__/__set__/_validate not found')
        stored, given = Obj('Quantity', {}, 'STORED'), Obj('Quantity', {}, 'GIVEN')
        d = DictV([{'attr': stored}])
        inst = Obj('Region', {'__dict__': d}, 'instance')
        desc = Obj(name, {'name': Const('attr')}, 'descriptor', ci)
        ev = Evaluator(m, hooks={valf.qualname: lambda e, a_, k_: Const(None)})
        out = ev.run(getf, [desc, inst, Const(None)], {})
        got = [v for _, v in out.returns]
        construct = f'{name}.__get__'
        ctx.need(len(got) == 1, construct, f'{len(got)} outcomes')
        if same(got[0], stored):
            ctx.bad(construct, 'by-reference',
                    f'{name} hands out the stored Quantity object itself: `region.attr *= -1` updates that object in place before the '
                    'validator rejects the assignment, so a rejected operation has changed the region', getf.loc())
        elif 'STORED' in show(got[0], 200):
            ctx.ok(construct, f'hands out {show(got[0], 60)}')
        else:
            raise AnalysisError('C17.R9', construct, f'value handed out not understood: {show(got[0], 120)}')
        ev.run(setf, [desc, inst, given], {})
        now = d.get('attr')
        construct = f'{name}.__set__'
        if now is None or same(now, given):
            ctx.bad(construct, 'by-reference',
                    f'{name} stores the Quantity object it is given: a caller\'s (or a default) Quantity stays shared with the '
                    'region and an in-place update of it changes the region behind the validator', setf.loc())
        elif 'GIVEN' in show(now, 200):
            ctx.ok(construct, f'stores {show(now, 60)}')
        else:
            raise AnalysisError('C17.R9', construct, f'stored value not understood: {show(now, 120)}')


PIXCOORD_DESCRIPTORS = ('ScalarPixCoord', 'OneDPixCoord')


def r9b(ctx):
    """the pixel-coordinate attributes: a PixCoord is a mutable object (`coord.x = ...` is an ordinary assignment), so a
    descriptor that stores the caller's object and hands the stored object out lets `region.center.x = np.arange(3)` (or a
    later change of the caller's own PixCoord) turn a validated scalar centre into an array behind the validator. The
    descriptors must keep and hand out copies (as the Quantity descriptors do) — decided on the value of __get__/__set__."""
    from ..vg import DictV
    m = ctx.model
    for name in PIXCOORD_DESCRIPTORS:
        ci = m.cls(name)
        ctx.need(ci is not None, name, 'descriptor class not found')
        getf, setf, valf = m.method(ci, '__get__'), m.method(ci, '__set__'), m.method(ci, '_validate')
        ctx.need(getf is not None and setf is not None and valf is not None, name, '__get__/__set__/_validate not found')
        stored, given = Obj('PixCoord', {}, 'STORED', m.cls('PixCoord')), Obj('PixCoord', {}, 'GIVEN', m.cls('PixCoord'))
        d = DictV([{'attr': stored}])
        inst = Obj('Region', {'__dict__': d}, 'instance')
        desc = Obj(name, {'name': Const('attr')}, 'descriptor', ci)
        ev = Evaluator(m, hooks={valf.qualname: lambda e, a_, k_: Const(None)})
        out = ev.run(getf, [desc, inst, Const(None)], {})
        got = [v for _, v in out.returns]
        ctx.need(len(got) == 1, f'{name}.__get__', f'{len(got)} outcomes')
        if got[0] is stored or same(got[0], stored):
            ctx.bad(f'{name}.__get__', 'by-reference',
                    f'{name} hands out the stored PixCoord object itself: `region.center.x = np.arange(3)` (an ordinary attribute '
                    'assignment on that object) makes the validated scalar centre an array, with no validator involved',
                    getf.loc())
        else:
            ctx.ok(f'{name}.__get__', f'hands out {show(got[0], 60)}')
        ev.run(setf, [desc, inst, given], {})
        now = d.get('attr')
        if now is None or now is given or same(now, given):
            ctx.bad(f'{name}.__set__', 'by-reference',
                    f'{name} stores the PixCoord object it is given: the caller keeps a handle on the region\'s coordinate '
                    '(`mine = PixCoord(3, 4); reg = CirclePixelRegion(mine, 2.); mine.x = np.arange(3)` changes the region)',
                    setf.loc())
        else:
            ctx.ok(f'{name}.__set__', f'stores {show(now, 60)}')


def r10(ctx):
    """a falsy value that is not a dictionary (0, '', [], False) given as meta= / visual= is rejected like its truthy
    twin ([1], 'x'): `self.meta = meta or RegionMeta()` swallows it, `RegionMeta() if meta is None else meta` does not.
    Decided by evaluating every region constructor with such a value (the descriptor's validation running)."""
    from ..vg import mark_quantity, reset_marks
    m = ctx.model
    n = 0
    for ci in m.region_classes(concrete=True):
        init = m.method(ci, '__init__')
        if init is None:
            continue
        ps = func_params(init.node)[1:]
        for slot in ('meta', 'visual'):
            if slot not in ps:
                continue
            n += 1
            bad = []
            for label, val in (('0', sp.Integer(0)), ('[]', Tup((), 'list'))):
                reset_marks()
                ev = evaluator(ctx)
                ev.descriptor_sets = True
                kw = {}
                for p_ in ps:
                    k = m.descriptor_kind(ci, p_)
                    if p_ == slot:
                        kw[p_] = val
                    elif p_ in ('meta', 'visual'):
                        continue
                    elif k in ('ScalarPixCoord', 'OneDPixCoord'):
                        kw[p_] = Obj('PixCoord', {}, p_, m.cls('PixCoord'))
                    elif k in ('ScalarSkyCoord', 'OneDSkyCoord'):
                        kw[p_] = Obj('SkyCoord', {}, p_)
                    elif k in ('PositiveScalarAngle', 'ScalarAngle'):
                        kw[p_] = mark_quantity(sym(p_, positive=True))
                    elif k == 'RegionType':
                        base = 'PixelRegion' if m.is_subclass(ci, 'PixelRegion') else 'SkyRegion'
                        leaf = m.cls('CirclePixelRegion' if base == 'PixelRegion' else 'CircleSkyRegion')
                        kw[p_] = ev.symbolic_instance(leaf, p_)
                    elif p_ == 'operator':
                        from ..vg import ExtRef
                        kw[p_] = ExtRef('operator.or_')
                    elif p_ == 'text':
                        kw[p_] = Const('label')
                    elif p_ == 'nvertices':
                        kw[p_] = sp.Integer(5)
                    elif param_default(init.node, p_) is not None and k is None:
                        continue
                    else:
                        kw[p_] = sym(p_, positive=True)
                # single-field validators of the *other* parameters are switched off (their arguments are type-correct)
                out = ev.run(init, [Obj(ci.name, {}, None, ci)], kw)
                # rejected = no path of the constructor completes
                if out.returns or getattr(out, 'fell_through', False):
                    bad.append(label)
            if bad:
                ctx.bad(f'{ci.name}.__init__', f'falsy-{slot}-accepted',
                        f'{ci.name}(..., {slot}={bad[0]}) is accepted (the value is replaced by an empty dictionary) although '
                        f'{slot}=[1] and `region.{slot} = {bad[0]}` raise ValueError: `{slot} or Region{slot.capitalize()}()` treats every '
                        f'falsy value as "not given"; only None means that', init.loc())
            else:
                ctx.ok(f'{ci.name}.__init__:{slot}', 'a falsy non-dictionary value is rejected by the descriptor')
    ctx.need(n >= 30, 'constructors with meta/visual', f'only {n}')


RULES = [
    RuleDef('R1', 'every parameter (and meta/visual) is a validating descriptor', r1, 23),
    RuleDef('R2', 'validate-then-store; delete refused; validators raise', r2, 12),
    RuleDef('R3', 'single raw writer of instance state', r3, 1),
    RuleDef('R4', 'validator rejection predicates = documented domains (NaN-aware truth tables)', r4, 11),
    RuleDef('R5', 'cross-field constraints guard assignment too', r5, 6),
    RuleDef('R5b', 'annulus constructors reject exactly outer <= inner (unit-aware)', r5b, 8),
    RuleDef('R6', 'metadata whitelist at every inserting entry point', r6, 6),
    RuleDef('R6b', 'multi-key metadata inserts are all-or-nothing', r6b, 3),
    RuleDef('R7', 'region lists only accept regions', r7, 4),
    RuleDef('R8', 'bounding-box / mask constructor guards', r8, 3),
    RuleDef('R9', 'Quantity-valued attributes are handed out and stored by value (rejected augmented assignment)', r9, 4),
    RuleDef('R9b', 'PixCoord-valued attributes are handed out and stored by value', r9b, 4),
    RuleDef('R10', 'falsy non-dictionary meta=/visual= are rejected by every constructor (only None means "not given")', r10, 30),
]
