"""C18 — the matplotlib artist of a region depicts the region."""
import ast

import sympy as sp

from ..report import RuleDef
from ..src import AnalysisError
from ..vg import (ANG, Unknown, App, Const, DictV, Evaluator, Ite, Obj, Tup, is_num,
                  num_equal, same, show, sym, unq)
from .c01 import _find_apps
from .common import evaluator, method_or_fail

EXPLANATION = (
    'Decides from source, for every parameter value and plot origin, the constructor arguments of each artist: circle '
    'xy = centre − origin, radius; ellipse xy, full width/height, angle in degrees; rectangle anchor = centre + R(angle)(−w/2, '
    '−h/2) − origin, full sizes, angle in degrees; polygon xy = (vertices − origin) as n×2; point/text at centre − origin; line '
    'from start − origin along end − start; bounding box rectangle from its pixel-edge extent. (R2) in all 8 artist-building '
    'as_artist bodies the kwargs handed to the artist are the visual defaults updated with the caller\'s kwargs last. (R3) the '
    'annulus path reverses the inner outline exactly once and the outer never, outer first in vertices and codes, and the '
    'delegation annulus → compound → components keeps origin and kwargs. (R2b) every stored visual key that the visual→mpl '
    'translation renames (keymaps read from the source) is confronted with a small trusted table of matplotlib aliases: a '
    'caller keyword with the stored key\'s own name must not reach the artist next to the renamed stored value; (R2c) every '
    'key of RegionVisual.valid_keys, after the per-artist keymap and the removal list (evaluated from define_mpl_kwargs), is a '
    'keyword the artist family accepts (trusted table) — as_artist returns an artist whatever valid visual keys the region '
    'carries. Not decided: matplotlib\'s meaning of those arguments '
    '(trusted table); curve approximation; the visual→mpl key translation values; regions with include=False (a patch outlines '
    'the shape, it cannot depict the complement — the property cannot hold for them and no rule reports it).')
EXPLANATION_ADDED = (" (R2 also accepts a merge method of RegionVisual whose value is the stored keywords updated with the caller's last; R2c is decided by evaluating define_mpl_kwargs on a visual dictionary holding every valid key.)"
                     " (R2d) define_mpl_kwargs, partially evaluated on every subset of the colour/fill keys in both default styles, never hands a Patch the keyword `color`, which matplotlib lets win over a caller's edgecolor=/facecolor=; (R4) nothing on the as_artist/plot path writes through the region, the origin or the caller's keywords (C13.R1 on that path).")
EXPLANATION += EXPLANATION_ADDED
EXPLANATION_ADDED3 = (" (R2c also) a fill flag stored in the visual dictionary reaches a Line2D as a fill-style name matplotlib accepts ('full'/'none'), never as the raw boolean.")
EXPLANATION += EXPLANATION_ADDED3
EXPLANATION_ADDED2 = (" (R5) `position - origin` is taken in floating point in every as_artist: the dataflow of C01.R9 with the origin (a caller's sequence, possibly an unsigned integer array) and array-valued positions (polygon vertices) as possibly-integer sources; scalar positions of the region itself are Python numbers (PixCoord unwraps scalars).")
EXPLANATION += EXPLANATION_ADDED2
EXPLANATION_ADDED4 = (' (R5 also) the size arguments handed to the matplotlib artist constructors (radius, width, height) are floats by then: matplotlib doubles, halves and negates them in their own dtype.')
EXPLANATION += EXPLANATION_ADDED4
TRUSTED = ['matplotlib Circle(xy, radius), Ellipse(xy, width, height, angle[deg]), Rectangle(xy, width, height, angle[deg] about xy), '
           'Polygon(xy n×2), Line2D(xs, ys), Arrow(x, y, dx, dy), Text(x, y, text), Path(vertices, codes)',
           'a path with an oppositely oriented inner outline renders a hole']
ASSUMPTIONS = ['real arithmetic']

O = Tup((sym('o0'), sym('o1')))
KW = Obj('dict', {}, 'caller_kwargs')


def _artist(ctx, cname):
    m = ctx.model
    ci = m.cls(cname)
    ev = evaluator(ctx)
    s = ev.symbolic_instance(ci)
    if cname.startswith('Text'):
        s.fields['text'] = Obj('str', {}, 'self.text')
    f = method_or_fail(ctx, ci, 'as_artist')
    t = ev.call(f, [s], {'origin': O, '**': KW})
    return ci, f, s, ev, t


def _args(t):
    """positional list, keyword dict, ** value of an artist App."""
    pos, kw, star = [], {}, None
    for a in t.args:
        if isinstance(a, Tup) and len(a.items) == 2 and isinstance(a.items[0], Const) and isinstance(a.items[0].v, str):
            if a.items[0].v == '**':
                star = a.items[1]
            else:
                kw[a.items[0].v] = a.items[1]
        else:
            pos.append(a)
    return pos, kw, star


def _get(pos, kw, names):
    out = []
    for i, n in enumerate(names):
        out.append(kw.get(n, pos[i] if i < len(pos) else None))
    return out


def _eq(g, w):
    g = unq(g)
    if isinstance(g, Tup) and isinstance(w, (tuple, list)):
        return len(g.items) == len(w) and all(_eq(a, b) for a, b in zip(g.items, w))
    return is_num(g) and bool(num_equal(g, w))


S = sym
DEGF = 180 / sp.pi


def r1(ctx):
    cx, cy, o0, o1 = S('self.center.x'), S('self.center.y'), S('o0'), S('o1')
    W, H, TH, R = S('self.width', True), S('self.height', True), S('self.angle'), S('self.radius', True)
    c, s = sp.cos(TH), sp.sin(TH)
    specs = {
        'CirclePixelRegion': ('Circle', ['xy', 'radius'], [(cx - o0, cy - o1), R]),
        'EllipsePixelRegion': ('Ellipse', ['xy', 'width', 'height', 'angle'], [(cx - o0, cy - o1), W, H, TH * DEGF]),
        'RectanglePixelRegion': ('Rectangle', ['xy', 'width', 'height', 'angle'],
                                 [(cx + c * (-W / 2) - s * (-H / 2) - o0, cy + s * (-W / 2) + c * (-H / 2) - o1), W, H, TH * DEGF]),
        'LinePixelRegion': ('Arrow', ['x', 'y', 'dx', 'dy'],
                            [S('self.start.x') - o0, S('self.start.y') - o1, S('self.end.x') - S('self.start.x'),
                             S('self.end.y') - S('self.start.y')]),
        'PointPixelRegion': ('Line2D', ['xdata', 'ydata'], [(cx - o0,), (cy - o1,)]),
        'TextPixelRegion': ('Text', ['x', 'y', 'text'], [cx - o0, cy - o1, None]),
    }
    for cname, (art, names, want) in specs.items():
        ci, f, so, ev, t = _artist(ctx, cname)
        construct = f'{cname}.as_artist'
        if not (isinstance(t, App) and t.name.split('.')[-1] == art):
            ctx.bad(construct, 'artist-kind', f'builds {show(t, 120)}, expected a matplotlib {art}', f.loc())
            continue
        pos, kw, star = _args(t)
        got = _get(pos, kw, names)
        probs = []
        for nm, g, w in zip(names, got, want):
            if w is None:
                if not (isinstance(g, Obj) and g.path == 'self.text'):
                    probs.append(f'{nm} is {show(g, 80)}, not self.text')
                continue
            if g is None or not _eq(g, w):
                probs.append(f'{nm} is {show(g, 200)}; expected {w}')
        if probs:
            ctx.bad(construct, 'geometry', '; '.join(probs), f.loc())
        else:
            ctx.ok(construct, f'{art}({", ".join(names)}) as the region dictates')
    # polygon
    ci, f, so, ev, t = _artist(ctx, 'PolygonPixelRegion')
    pos, kw, star = _args(t) if isinstance(t, App) else ([], {}, None)
    xy = kw.get('xy', pos[0] if pos else None)
    vx, vy = S('self.vertices.x'), S('self.vertices.y')
    want = App('apply', (App('attr:transpose', (App('numpy.vstack', (Tup((vx - S('o0'), vy - S('o1')), 'list'),)),)),))
    if isinstance(t, App) and t.name.endswith('Polygon') and same(xy, want):
        ctx.ok('PolygonPixelRegion.as_artist', 'Polygon(xy = (vertices − origin) as n×2)')
    else:
        ctx.bad('PolygonPixelRegion.as_artist', 'geometry',
                f'polygon xy is {show(xy, 240)}; expected vstack([vx − o0, vy − o1]).transpose()', f.loc())
    # bounding box
    m = ctx.model
    bb = m.cls('RegionBoundingBox')
    f = method_or_fail(ctx, bb, 'as_artist')
    ev = evaluator(ctx)
    b = ev.symbolic_instance(bb)
    b.fields.update({k: sp.Symbol(k, integer=True) for k in ('ixmin', 'ixmax', 'iymin', 'iymax')})
    t = ev.call(f, [b], {'**': KW})
    pos, kw, star = _args(t) if isinstance(t, App) else ([], {}, None)
    got = _get(pos, kw, ['xy', 'width', 'height'])
    F = b.fields
    h = sp.Rational(1, 2)
    if isinstance(t, App) and t.name.endswith('Rectangle') and _eq(got[0], (F['ixmin'] - h, F['iymin'] - h)) and \
            _eq(got[1], F['ixmax'] - F['ixmin']) and _eq(got[2], F['iymax'] - F['iymin']):
        ctx.ok('RegionBoundingBox.as_artist', 'Rectangle at the lower-left pixel edge, (nx, ny)')
    else:
        ctx.bad('RegionBoundingBox.as_artist', 'geometry', f'bounding-box patch is {show(t, 300)}', f.loc())


ARTISTS = ('CirclePixelRegion', 'EllipsePixelRegion', 'RectanglePixelRegion', 'PolygonPixelRegion',
           'PointPixelRegion', 'LinePixelRegion', 'TextPixelRegion', 'CompoundPixelRegion')


def _merge_term(ctx, star):
    """when as_artist hands the merge of stored and caller keywords to a method of RegionVisual
    (`self.visual.<method>(artist, kwargs)`), the value of that method with define_mpl_kwargs kept opaque; else None."""
    m = ctx.model
    if not (isinstance(star, App) and star.name == 'apply' and isinstance(star.args[0], App)
            and star.args[0].name.startswith('attr:') and len(star.args) >= 3):
        return None
    rv = m.cls('RegionVisual')
    g = m.method(rv, star.args[0].name[5:])
    recv = star.args[0].args[0] if star.args[0].args else None
    if g is None or not (isinstance(recv, Obj) and recv.path == 'self.visual') or not isinstance(star.args[1], Const):
        return None
    dm = m.method(rv, 'define_mpl_kwargs')
    ev = Evaluator(m, hooks={dm.qualname: lambda e, a, k: App('define_mpl_kwargs', (a[0], a[1]))})
    out = ev.run(g, [Obj('RegionVisual', {}, 'self.visual', rv), star.args[1], Obj('dict', {}, 'caller_kwargs')], {})
    vals = [v for _, v in out.returns]
    return vals[0] if len(vals) == 1 and not out.raises else None


def _merge_probe(ctx, star, caller):
    """value (DictV) of the merge method as_artist delegates to, on a caller dictionary with the constant keys of `caller`
    (partial evaluation); the stored side stays the opaque layer define_mpl_kwargs(self.visual, artist). None if not
    reducible."""
    m = ctx.model
    rv = m.cls('RegionVisual')
    g = m.method(rv, star.args[0].name[5:])
    dm = m.method(rv, 'define_mpl_kwargs')
    ev = Evaluator(m, hooks={dm.qualname: lambda e, a, k: DictV([App('define_mpl_kwargs', (a[0], a[1]))])})
    out = ev.run(g, [Obj('RegionVisual', {}, 'self.visual', rv), star.args[1], DictV([dict(caller)])], {})
    vals = [v for _, v in out.returns]
    if len(vals) != 1 or out.raises or not isinstance(vals[0], DictV):
        return None
    return vals[0]


def _probe_caller_wins(ctx, star, art, keymap):
    """None when, for every probed caller keyword, the caller's value reaches the artist under the keyword's own name or
    under the name the library's translation gives the stored key of that name, and nothing but caller values is applied
    after the stored keywords; else a description of the failing probe."""
    universe = sorted(set(MPL_KW[art]) | set(keymap))
    probes = [{k: sym('CALLER_' + k)} for k in universe]
    probes += [{k: sym('CALLER_' + k), v: sym('CALLER_' + v)} for k, v in sorted(keymap.items()) if k != v]
    for caller in probes:
        r = _merge_probe(ctx, star, caller)
        if r is None:
            return f'the merge is not reducible for the caller keywords {sorted(caller)}'
        seen_stored = False
        for l in r.layers:
            if isinstance(l, dict):
                if seen_stored and any(not any(same(x, c) for c in caller.values()) for x in l.values()):
                    return f'for the caller keywords {sorted(caller)} a value that is not the caller\'s is applied after the stored keywords'
            elif not isinstance(l, dict):
                if seen_stored:
                    return f'for the caller keywords {sorted(caller)} a second opaque layer follows the stored keywords'
                seen_stored = isinstance(l, App) and l.name == 'define_mpl_kwargs'
        if not seen_stored:
            return f'for the caller keywords {sorted(caller)} the stored keywords do not reach the artist'
        for k, val in caller.items():
            slots = [k] + ([keymap[k]] if k in keymap else [])
            got = [r.get(s_) for s_ in slots]
            if len(caller) == 1:
                if not any(g_ is not None and same(g_, val) for g_ in got):
                    return f'the caller\'s {k}= does not reach the artist under {slots}'
            else:
                # both names of one slot given: one of the caller's values holds the slot
                tgt = r.get(slots[-1])
                if tgt is None or not any(same(tgt, c) for c in caller.values()):
                    return f'with the caller keywords {sorted(caller)} the slot {slots[-1]} holds none of the caller\'s values'
    return None


def _caller_last(t):
    """is t `dict.updated(<stored keywords>, <caller keywords>)` — the caller's keywords applied last, both sides possibly
    passed through matplotlib's own alias normalisation?"""
    if not (isinstance(t, App) and t.name == 'dict.updated' and len(t.args) == 2):
        return False
    base, upd = show(t.args[0], 6000), show(t.args[1], 2000)
    return 'define_mpl_kwargs(self.visual' in base and 'caller_kwargs' in upd and 'define_mpl_kwargs' not in upd


def r2(ctx):
    for cname in ARTISTS:
        ci, f, so, ev, t = _artist(ctx, cname)
        construct = f'{cname}.as_artist'
        arts = [t] if isinstance(t, App) else []
        if isinstance(t, Ite):
            arts = [x for x in (t.a, t.b) if isinstance(x, App)]
        if cname == 'CompoundPixelRegion':
            arts = _find_apps(t, 'PathPatch')
        if not arts:
            raise AnalysisError('C18.R2', construct, f'no artist constructed: {show(t, 200)}')
        pos, kw, star = _args(arts[0])
        mt = _merge_term(ctx, star)
        if mt is None and isinstance(star, App) and star.name == 'apply' and isinstance(star.args[0], App) \
                and star.args[0].name.startswith('attr:') and len(star.args) >= 3 and isinstance(star.args[1], Const) \
                and ctx.model.method(ctx.model.cls('RegionVisual'), star.args[0].name[5:]) is not None:
            mt = Unknown('merge method not reducible on an opaque caller dictionary')
        if mt is not None:
            why_not = None
            if not _caller_last(mt):
                # the merge may rename or loop over the caller's keywords: decide on probe dictionaries
                rv_ = ctx.model.cls('RegionVisual')
                km_ = _keymaps(ctx, method_or_fail(ctx, rv_, '_to_mpl_kwargs'))[star.args[1].v]
                why_not = _probe_caller_wins(ctx, star, star.args[1].v, km_)
            if why_not is None:
                ctx.ok(construct, 'artist(**merge(visual defaults, caller kwargs)) with the caller\'s keywords applied last')
            else:
                ctx.bad(construct, 'kwargs-order', 'the keyword arguments reaching the artist are merged by '
                        f'{star.args[0].name[5:]}, whose value is not the stored keywords updated with the caller\'s last: '
                        + why_not + '; ' + show(mt, 240), f.loc())
            continue
        ok = isinstance(star, DictV) and star.layers
        why = ''
        if ok:
            def from_caller(l):
                return isinstance(l, dict) and all(
                    isinstance(v, App) and v.name == 'lookup' and len(v.args[0].items) == 1 and
                    isinstance(v.args[0].items[0], Obj) and v.args[0].items[0].path == 'caller_kwargs'
                    for v in l.values())
            layers = [l for l in star.layers if not (isinstance(l, dict) and (not l or from_caller(l)))]
            first_ok = isinstance(layers[0], App) and layers[0].name == 'define_mpl_kwargs' and \
                isinstance(layers[0].args[0], Obj) and layers[0].args[0].path == 'self.visual'
            last_ok = isinstance(layers[-1], Obj) and layers[-1].path == 'caller_kwargs'
            extra = [l for l in layers[1:-1]]
            ok = first_ok and last_ok and not extra
            why = f'kwargs layers are {show(DictV(layers), 240)}'
        if ok:
            ctx.ok(construct, 'artist(**{visual defaults, then caller kwargs})')
        else:
            ctx.bad(construct, 'kwargs-order',
                    'the keyword arguments reaching the artist are not the visual defaults updated with the caller\'s '
                    f'kwargs last (caller overrides lost): {why or show(star, 200)}', f.loc())


def _count_reversals(t, root_txt):
    """number of step -1 slices applied on the way from root to t."""
    n = 0
    cur = t
    while isinstance(cur, App):
        if cur.name == 'slice_of':
            stp = cur.args[3]
            if is_num(stp) and stp == -1:
                n += 1
            cur = cur.args[0]
        elif cur.name in ('numpy.concatenate', 'numpy.vstack', 'numpy.hstack'):
            cur = cur.args[0].items[0] if isinstance(cur.args[0], Tup) else None
        else:
            break
    return n, cur


def r3(ctx):
    m = ctx.model
    ci = m.cls('CompoundPixelRegion')
    # the hole path depicts a compound only when it is an annulus: same centre and xor; anything else must be refused
    g = method_or_fail(ctx, ci, 'as_artist')
    ev0 = evaluator(ctx)
    out = ev0.run(g, [ev0.symbolic_instance(ci)], {'origin': Tup((sym('ox'), sym('oy')))})
    want = ('((attr:center(self.region1) == attr:center(self.region2)) and (attr:_operator(self) is operator.xor))',
            '((attr:_operator(self) is operator.xor) and (attr:center(self.region1) == attr:center(self.region2)))')
    rets = [show(ev0.conj(pc), 400) for pc, v in out.returns if 'PathPatch' in show(v, 200)]
    refs = [show(ev0.conj(pc), 400) for pc, n, _ in out.raises]
    if rets and all(r in want for r in rets) and refs and all(r in tuple('not ' + w for w in want) for r in refs):
        ctx.ok('CompoundPixelRegion.as_artist:guard', 'a patch only for same-centre xor compounds; every other compound is refused')
    else:
        ctx.bad('CompoundPixelRegion.as_artist', 'annulus-guard',
                f'the annulus patch is built under `{rets[:1]}` and refused under `{refs[:1]}`; it depicts the compound only when '
                'the operands share their centre and the operator is xor', g.loc())
    f = method_or_fail(ctx, ci, '_make_annulus_path')
    ev = evaluator(ctx)
    pi_, po = Obj('Patch', {}, 'patch_inner'), Obj('Patch', {}, 'patch_outer')
    t = ev.call(f, [pi_, po], {})
    construct = 'CompoundPixelRegion._make_annulus_path'
    ctx.need(isinstance(t, App) and t.name.endswith('Path'), construct, f'returns {show(t, 200)}')
    verts, codes = t.args[0], t.args[1]
    probs = []
    if not (isinstance(verts, App) and verts.name == 'numpy.vstack' and isinstance(verts.args[0], Tup)
            and len(verts.args[0].items) == 2):
        probs.append(f'vertices are {show(verts, 200)}')
    else:
        vo, vi = verts.args[0].items
        if 'patch_outer' not in show(vo, 600) or 'patch_inner' in show(vo, 600):
            probs.append('first vertex block is not the outer outline')
        if 'patch_inner' not in show(vi, 900) or 'patch_outer' in show(vi, 900):
            probs.append('second vertex block is not the inner outline')
        no, _ = _count_reversals(vo, 'patch_outer')
        ni, _ = _count_reversals(vi, 'patch_inner')
        if no != 0:
            probs.append('the outer outline is reversed')
        if ni != 1:
            probs.append(f'the inner outline is reversed {ni} times (must be exactly once to cut a hole)')
    if not (isinstance(codes, App) and codes.name == 'numpy.hstack' and isinstance(codes.args[0], Tup)
            and len(codes.args[0].items) == 2 and 'patch_outer' in show(codes.args[0].items[0], 400)
            and 'patch_inner' in show(codes.args[0].items[1], 400)):
        probs.append('codes are not outer-then-inner')
    if probs:
        ctx.bad(construct, 'hole', '; '.join(probs), f.loc())
    else:
        ctx.ok(construct, 'outer outline + inner outline reversed once; codes outer then inner')
    # compound.as_artist: inner = region1, outer = region2, same origin
    _, fa, so, ev2, ta = _artist(ctx, 'CompoundPixelRegion')
    txt = show(ta, 6000)
    want_i = "method:as_artist(self.region1, ['origin', [o0, o1]])"
    want_o = "method:as_artist(self.region2, ['origin', [o0, o1]])"
    pp = _find_apps(ta, 'PathPatch')
    ok = bool(pp) and want_i in txt and want_o in txt
    if ok:
        path = pp[0].args[0]
        vs = path.args[0] if isinstance(path, App) else None
        ok = isinstance(vs, App) and isinstance(vs.args[0], Tup) and want_o in show(vs.args[0].items[0], 3000) \
            and want_i in show(vs.args[0].items[1], 3000)
    if ok:
        ctx.ok('CompoundPixelRegion.as_artist', 'region1 = inner, region2 = outer, both drawn with the same origin')
    else:
        ctx.bad('CompoundPixelRegion.as_artist', 'roles', 'annulus patch roles/origin deviate: ' + txt[:300], fa.loc())
    # annulus delegation keeps origin and kwargs
    an = m.cls('AnnulusPixelRegion')
    fd = method_or_fail(ctx, an, 'as_artist')
    src = ast.unparse(fd.node.body[-1]).replace(' ', '')
    if src in ('returnself._compound_region.as_artist(origin,**kwargs)',
               'returnself._compound_region.as_artist(origin=origin,**kwargs)'):
        ctx.ok('AnnulusPixelRegion.as_artist', 'delegates with origin and kwargs')
    else:
        ctx.bad('AnnulusPixelRegion.as_artist', 'delegation', f'is `{src}`', fd.loc())


# matplotlib facts used by R2b (trusted): for Text, `size`/`fontsize`, `weight`/`fontweight`, `style`/`fontstyle` are aliases
# of one property and passing both raises TypeError; for Line2D, `color` and `markeredgecolor` (`linewidth` and
# `markeredgewidth`) are different properties; for Patch, `color` overrides `edgecolor`.
MPL_SAME_PROPERTY = {'Text': {('fontsize', 'size'), ('fontweight', 'weight'), ('fontstyle', 'style')}}
MPL_OTHER_PROPERTY = {'Line2D': {('color', 'markeredgecolor'), ('linewidth', 'markeredgewidth')}}


def _keymaps(ctx, f):
    """{artist: {stored visual key: keyword handed to matplotlib}} — read off the translation's behaviour: the function is
    evaluated on a visual dictionary holding every valid key, each with a value that names it."""
    from ..tb import class_tables
    m = ctx.model
    rv = m.cls('RegionVisual')
    valid = class_tables(m, 'RegionVisual').get('valid_keys')
    ctx.need(isinstance(valid, (list, tuple)) and len(valid) > 20, 'RegionVisual.valid_keys', 'not evaluable')
    out = {}
    for art in ('Text', 'Line2D', 'Patch'):
        km = {}
        for k in valid:
            if k == 'default_style':
                continue
            self_ = Obj('RegionVisual', {'__data__': DictV([{k: Const('v_' + k)}])}, 'self', rv)
            r = Evaluator(m).run(f, [self_, Const(art)], {})
            ctx.need(len(r.returns) == 1 and isinstance(r.returns[0][1], DictV) and not r.returns[0][1].has_symbolic(),
                     f.qualname, f'translation of {{{k!r}: …}} for {art} not reducible')
            keys = list(r.returns[0][1].keys())
            if len(keys) == 1:
                km[k] = keys[0]
        out[art] = km
    return out


def _renamed_alike(ctx, star, clash, shadow):
    """for every stored key k the translation hands to matplotlib as v != k: the merge, on the caller dictionary {k: V},
    puts V under v (over the stored value) and — when k and v are two names of one matplotlib property — does not hand
    k to the artist as well."""
    for k, v in list(clash) + list(shadow):
        val = sym('CALLER_' + k)
        r = _merge_probe(ctx, star, {k: val})
        if r is None:
            return False
        got = r.get(v)
        if got is None or not same(got, val):
            return False
        if (k, v) in clash and any(isinstance(l, dict) and k in l for l in r.layers):
            return False
    return True


def r2b(ctx):
    """a caller keyword must win over the stored visual attribute *of the same name*: if the translation renames the
    stored key, the caller's keyword has to be renamed alike (else both reach matplotlib under two names)."""
    m = ctx.model
    rv = m.cls('RegionVisual')
    f = method_or_fail(ctx, rv, '_to_mpl_kwargs')
    keymaps = _keymaps(ctx, f)
    # does any as_artist translate the caller's kwargs with the same map?
    translated = set()
    for ci in m.region_classes('pixel'):
        g = m.method(ci, 'as_artist')
        if g is not None and any('_to_mpl_kwargs' in ast.unparse(c) or 'keymap' in ast.unparse(c)
                                 for c in ast.walk(g.node) if isinstance(c, ast.Call)):
            translated.add(ci.name)
    # a merge method of RegionVisual that as_artist delegates to: aliases of one property meet under matplotlib's long
    # names when both sides go through matplotlib's normalize_kwargs; a caller keyword that the translation hands to
    # another property must be carried over to that property explicitly
    merges = {}
    for ci in m.region_classes('pixel'):
        if m.method(ci, 'as_artist') is None or m.lookup(ci, '_mpl_artist') is None:
            continue
        try:
            ci_, f_, so_, ev_, t_ = _artist(ctx, ci.name)
        except AnalysisError:
            continue
        arts_ = [t_] if isinstance(t_, App) else ([x for x in (t_.a, t_.b) if isinstance(x, App)] if isinstance(t_, Ite) else [])
        if ci.name == 'CompoundPixelRegion':
            arts_ = _find_apps(t_, 'PathPatch')
        if arts_:
            star_ = _args(arts_[0])[2]
            mt_ = _merge_term(ctx, star_)
            if mt_ is None and isinstance(star_, App) and star_.name == 'apply' and isinstance(star_.args[0], App) \
                    and star_.args[0].name.startswith('attr:') and len(star_.args) >= 3 and isinstance(star_.args[1], Const) \
                    and m.method(rv, star_.args[0].name[5:]) is not None:
                mt_ = Unknown('merge method not reducible on an opaque caller dictionary')
            if mt_ is not None and isinstance(star_.args[1], Const):
                merges.setdefault(star_.args[1].v, []).append((ci.name, mt_, star_))
    for art in ('Text', 'Line2D', 'Patch'):
        renamed = {(k, v) for k, v in keymaps[art].items() if k != v}
        clash = sorted(renamed & MPL_SAME_PROPERTY.get(art, set()))
        shadow = sorted(renamed & MPL_OTHER_PROPERTY.get(art, set()))
        if merges.get(art):
            okm = True
            for cname_, mt_, star_ in merges[art]:
                if _renamed_alike(ctx, star_, clash, shadow):
                    continue        # the caller's keyword is renamed like the stored key (decided on probe dictionaries)
                both_normalised = _caller_last(mt_) and 'normalize_kwargs(caller_kwargs' in show(mt_.args[1], 2000) \
                    and 'normalize_kwargs(dict["**define_mpl_kwargs(self.visual' in show(mt_.args[0], 20000)
                carried = all(any(isinstance(x, App) and x.name == 'setitem' and len(x.args) == 3 and isinstance(x.args[1], Const)
                                  and x.args[1].v == v_ and 'caller_kwargs' in show(x.args[2], 600) and f"'{k_}'" in show(x.args[2], 600)
                                  for x in _find_apps(mt_, 'setitem')) for k_, v_ in shadow)
                okm = okm and both_normalised and carried
            if okm:
                ctx.ok(art, 'stored and caller keywords are merged under matplotlib\'s long names (normalize_kwargs on both), '
                       'caller last; keywords handed to another property are carried over')
                continue
        users = [ci.name for ci in m.region_classes('pixel') if getattr(ci, 'name', None) and
                 (m.lookup(ci, '_mpl_artist') is not None) and ci.name not in translated]
        if clash and users:
            ctx.bad(art, 'alias-collision',
                    f'stored visual keys {[k for k, v in clash]} are handed to matplotlib.{art} as {[v for k, v in clash]}; a caller '
                    f'keyword of the same name (e.g. {clash[0][0]}=20) is added unrenamed, so both aliases reach the artist and '
                    'matplotlib raises TypeError instead of the caller\'s value overriding the stored one', f.loc())
        elif shadow and users:
            ctx.bad(art, 'alias-shadow',
                    f'stored visual keys {[k for k, v in shadow]} are handed to matplotlib.{art} as {[v for k, v in shadow]}; a caller '
                    f'keyword of the same name (e.g. {shadow[0][0]}=...) sets a different artist property, so the stored value '
                    'still decides what is drawn', f.loc())
        else:
            ctx.ok(art, 'renamed keys cannot meet a caller keyword under another name')


# matplotlib keyword arguments per artist family (trusted; only names that can reach the artists from RegionVisual keys,
# the keymaps and the default tables are listed)
MPL_KW = {
    'Patch': {'color', 'edgecolor', 'facecolor', 'fill', 'linestyle', 'linewidth', 'alpha', 'hatch', 'zorder', 'label'},
    'Line2D': {'color', 'marker', 'markersize', 'markeredgewidth', 'markeredgecolor', 'markerfacecolor', 'fillstyle',
               'linestyle', 'linewidth', 'dashes', 'alpha', 'zorder', 'label'},
    'Text': {'color', 'rotation', 'family', 'size', 'style', 'weight', 'fontname', 'fontsize', 'fontstyle', 'fontweight',
             'ha', 'va', 'alpha', 'zorder', 'usetex', 'label'},
}


MPL_FILLSTYLES = {'full', 'left', 'right', 'bottom', 'top', 'none'}


def r2c(ctx):
    """every key a RegionVisual may hold reaches the artist under a name that artist accepts, or is dropped: as_artist must
    return an artist for every region, whatever valid visual attributes it carries (e.g. after reading a CRTF file).
    Decided by partially evaluating define_mpl_kwargs on a visual dictionary holding every valid key."""
    from ..tb import class_tables
    m = ctx.model
    rv = m.cls('RegionVisual')
    g = method_or_fail(ctx, rv, 'define_mpl_kwargs')
    valid = class_tables(m, 'RegionVisual').get('valid_keys')
    ctx.need(isinstance(valid, (list, tuple)) and len(valid) > 20, 'RegionVisual.valid_keys', 'not evaluable')
    dflt = method_or_fail(ctx, rv, '_define_default_mpl_kwargs')
    for art in ('Patch', 'Line2D', 'Text'):
        ev = Evaluator(m, hooks={dflt.qualname: lambda e, a, k: DictV([{}])})
        data = {k: Const('v_' + k) for k in valid}
        if 'default_style' in data:
            data['default_style'] = Const('mpl')
        self_ = Obj('RegionVisual', {'__data__': DictV([data])}, 'self', rv)
        out = ev.run(g, [self_, Const(art)], {})
        ctx.need(len(out.returns) == 1 and not out.raises and isinstance(out.returns[0][1], DictV)
                 and not out.returns[0][1].has_symbolic(), f'{g.qualname}({art})',
                 'keyword dictionary for a full visual dictionary not reducible')
        got = out.returns[0][1]
        bad = sorted(k for k in got.keys() if k not in MPL_KW[art])
        if bad:
            src = {k: [v for v in valid if isinstance(got.get(k), Const) and got.get(k).v == 'v_' + v] for k in bad}
            ctx.bad(art, 'unaccepted-visual-keys',
                    f'a region carrying every valid visual key hands matplotlib.{art} the keywords {bad} (from the visual keys '
                    f'{sorted({v for vs in src.values() for v in vs})}), which it does not accept: as_artist raises for a region '
                    "carrying them (e.g. any region parsed from a CRTF line with symsize=, labelcolor=, usetex=, ...)", g.loc())
        else:
            ctx.ok(art, f'{len(valid)} visual keys -> {sorted(got.keys())}: all keywords of the artist')
    # values: a stored `fill` flag reaches a Line2D as `fillstyle`, which takes one of matplotlib's style names, not a flag
    for flag in (True, False):
        ev = Evaluator(m, hooks={dflt.qualname: lambda e, a, k: DictV([{}])})
        self_ = Obj('RegionVisual', {'__data__': DictV([{'fill': Const(flag)}])}, 'self', rv)
        out = ev.run(g, [self_, Const('Line2D')], {})
        ctx.need(len(out.returns) == 1 and not out.raises and isinstance(out.returns[0][1], DictV)
                 and not out.returns[0][1].has_symbolic(), f'{g.qualname}(Line2D, fill={flag})', 'not reducible')
        got = out.returns[0][1]
        fs = got.get('fillstyle') if 'fillstyle' in got.keys() else None
        if fs is not None and not (isinstance(fs, Const) and fs.v in MPL_FILLSTYLES):
            ctx.bad('Line2D', f'fillstyle-value:{flag}',
                    f'a point region whose visual holds fill={flag} hands matplotlib.Line2D fillstyle={show(fs, 40)}; fillstyle '
                    f'takes one of {sorted(MPL_FILLSTYLES)}, so as_artist raises ValueError for every point region read from a '
                    'DS9 file with fill=', g.loc())
        else:
            ctx.ok(f'Line2D fill={flag}', f'fillstyle={show(fs, 20) if fs is not None else "absent"}')


# matplotlib keywords that override *other* keywords of the same artist when both are given (trusted): a Patch's `color`
# sets edge and face colour and wins over edgecolor= / facecolor=
MPL_DOMINATING = {'Patch': {'color': ('edgecolor', 'facecolor')}}


def r2d(ctx):
    """no stored keyword may override a keyword of another name that the caller gives: define_mpl_kwargs, partially
    evaluated on visual dictionaries holding every subset of the colour/fill keys (both default styles), must not hand a
    Patch the keyword `color` (matplotlib lets it win over the caller's edgecolor= / facecolor=)."""
    import itertools
    m = ctx.model
    rv = m.cls('RegionVisual')
    g = method_or_fail(ctx, rv, 'define_mpl_kwargs')
    keys = ('color', 'edgecolor', 'facecolor', 'fill')
    for art, dom in MPL_DOMINATING.items():
        bad = None
        n = 0
        for style in ('mpl', 'ds9'):
            for k in range(len(keys) + 1):
                for sub in itertools.combinations(keys, k):
                    for fillv in ((True, False) if 'fill' in sub else (None,)):
                        n += 1
                        data = {kk: (Const(fillv) if kk == 'fill' else Const('v_' + kk)) for kk in sub}
                        data['default_style'] = Const(style)
                        self_ = Obj('RegionVisual', {'__data__': DictV([data])}, 'self', rv)
                        out = Evaluator(m).run(g, [self_, Const(art)], {})
                        ctx.need(len(out.returns) == 1 and not out.raises and isinstance(out.returns[0][1], DictV)
                                 and not out.returns[0][1].has_symbolic(), f'{g.qualname}({art})',
                                 f'keyword dictionary for the visual keys {sub} ({style}) not reducible')
                        got = out.returns[0][1]
                        hit = [d for d in dom if d in got.keys()]
                        if hit and bad is None:
                            bad = (sub, fillv, style, hit[0])
        if bad:
            sub, fillv, style, d = bad
            ctx.bad(art, f'dominating-keyword:{d}',
                    f'a region whose visual holds {list(sub)}{" with fill=" + str(fillv) if fillv is not None else ""} '
                    f'(default_style={style!r}) hands matplotlib.{art} the keyword `{d}`, which matplotlib lets win over '
                    f'{list(dom[d])}: a caller\'s {dom[d][0]}= / {dom[d][1]}= no longer overrides the stored colour', g.loc())
        else:
            ctx.ok(art, f'{n} colour/fill key subsets: no stored keyword that overrides a caller keyword of another name')


def r4(ctx):
    """making an artist leaves the region, the origin and the caller's keywords as they were (C13.R1 restricted to the
    as_artist / plot path): an artist method that works in place on `origin` (np.asarray returns the caller's own float
    array) draws the next outline — the outer one of an annulus, in the same call — somewhere else."""
    from .c09 import _SubCtx
    from .c13 import r1 as c13r1
    sub = _SubCtx(ctx, lambda c: any(k in c for k in ('as_artist', '.plot', '_make_annulus_path', 'define_mpl_kwargs',
                                                       '_to_mpl_kwargs', '_lower_left_xy', 'as_mpl')))
    c13r1(sub)
    sub.flush('no write reaches the region, the origin or the caller\'s keywords on the as_artist / plot path', 'as_artist')


def r5(ctx):
    """the artist is placed at `position - origin` as real numbers: positions keep the dtype they were given (polygon
    vertices may be an unsigned integer array) and the origin is whatever sequence the caller passes (possibly an unsigned
    integer array), so a difference taken in their own dtype wraps around (uint16 vertices 1 - 2 = 65535; centre 3 minus
    np.uint8(5) = 254) while contains() answers in float64 — the may-be-integer dataflow of C01.R9 over every as_artist with
    the origin as a possibly-integer source."""
    from .c01 import _DtypeLint
    m = ctx.model
    n = 0
    for ci in m.region_classes('pixel'):
        f = ci.methods.get('as_artist')
        if f is None:
            continue
        params = [a.arg for a in f.node.args.args]
        if 'origin' not in params:
            continue
        n += 1
        lint = _DtypeLint(ctx, m, sums=True, int_descr_kinds=('PositiveScalar',))
        kinds = ['coord' if p_ == 'origin' else 'scalar' for p_ in params]
        lint.fn(f, kinds)
        # the sizes handed to the matplotlib artist: matplotlib doubles / halves / negates them in their own dtype (a Circle of
        # radius np.uint8(200) has radius 72), so they must be floats by then
        if not lint.problems:
            env = dict(zip(params, kinds))
            for st in ast.walk(f.node):
                if isinstance(st, ast.Assign) and len(st.targets) == 1 and isinstance(st.targets[0], ast.Name):
                    env[st.targets[0].id] = lint.kind(f, st.value, env, 0)
            imported = {a.asname or a.name for st in ast.walk(f.node) if isinstance(st, ast.ImportFrom)
                        and (st.module or '').startswith('matplotlib') for a in st.names}
            for c in [x for x in ast.walk(f.node) if isinstance(x, ast.Call) and isinstance(x.func, ast.Name) and x.func.id in imported]:
                for k in c.keywords:
                    if k.arg in ('radius', 'width', 'height') and lint.kind(f, k.value, env, 0) == 'coord':
                        lint.problems.append((f, k.value, f'`{k.arg}={ast.unparse(k.value)}` hands matplotlib a size in its own '
                                              '(possibly fixed-width integer) dtype'))
        if lint.problems:
            fi, node, text = lint.problems[0]
            ctx.bad(f'{ci.name}.as_artist', 'origin-shift-dtype',
                    f'{text}: the shift by the plot origin must be computed in floating point (np.subtract(..., dtype=float)), '
                    'otherwise the artist of a region with unsigned integer vertices, or drawn at an unsigned integer origin, '
                    'is placed at the wrapped-around position and no longer outlines the region', fi.loc(node))
        else:
            ctx.ok(f'{ci.name}.as_artist', 'position - origin is taken in floating point')
    ctx.need(n >= 7, 'as_artist methods', f'only {n} with an origin parameter found')


RULES = [
    RuleDef('R1', 'artist constructor arguments (8 artists)', r1, 8),
    RuleDef('R2', 'caller kwargs override the visual defaults', r2, 8),
    RuleDef('R2b', 'caller keyword vs renamed stored key (matplotlib alias table)', r2b, 3),
    RuleDef('R2c', 'every valid visual key is accepted by the artist or dropped; a fill flag becomes a fill style name', r2c, 5),
    RuleDef('R2d', 'no stored keyword overrides a caller keyword of another name (Patch color vs edgecolor/facecolor)', r2d, 1),
    RuleDef('R3', 'annulus path: guard, hole orientation, roles, delegation', r3, 4),
    RuleDef('R4', 'as_artist does not modify the region, the origin or the keywords it is given (C13.R1 on the artist path)', r4, 1),
    RuleDef('R5', 'position - origin is computed in floating point (no wrap-around for integer vertices / origins)', r5, 7),
]
