"""C06 — pixel<->sky conversion round-trips; membership is conversion-invariant."""
import ast

import sympy as sp

from ..report import RuleDef
from ..src import AnalysisError
from ..vg import (ANG, DEG, PIX, UNIT, App, BoolT, Cmp, Const, DictV, Evaluator,
                  Ite, Obj, Tup, contains_unknown, is_num, mark_quantity,
                  num_equal, same, show, sym, term_equal)
from .common import method_or_fail, need_known

EXPLANATION = (
    'Decides from source, with the local scale/angle helper and the WCS as uninterpreted (invertible) functions: '
    '(R1) to_pixel∘to_sky and to_sky∘to_pixel are the identity on every _params field of the 10 simple/annulus/'
    'vertex-wise class pairs (sizes multiplied by the scale one way and divided the other, the angle shifted by '
    '∓(north−90°), vertices pushed through pixel_to_world/world_to_pixel), units checked, and on the text rotation; '
    '(R2) each to_sky builds the matching *SkyRegion and vice versa (11 pairs incl. compound) and supplies every field; '
    '(R3) every conversion hands a fresh copy built from self.meta and one from self.visual to the counterpart, and the '
    'counterpart constructor stores what it is given; (R4) SkyRegion.contains is to_pixel(wcs).contains(from_sky(...)); '
    'compound conversions are component-wise and keep the operator. Not decided: the numerical 1e-6 of a real WCS; that '
    'the helper at pixel_to_world(c) and at the stored sky centre agree beyond WCS invertibility.')
EXPLANATION_ADDED = (' (R4 also) the sky families that answer without their pixel image (point, line, text) give the same answer term as their pixel counterpart: constant False of the shape of the queried positions, complemented when excluded.'
                     ' (R5) the scale/angle helper shared by both directions is the one C07.R1 decides (north offset of the coordinate itself, in its own frame with its attributes).')
EXPLANATION += EXPLANATION_ADDED
EXPLANATION_ADDED2 = (" (R3b) every region constructor stores the meta/visual object it is handed (the conversions' copies are the ones that arrive).")
EXPLANATION += EXPLANATION_ADDED2
TRUSTED = ['wcs.world_to_pixel(wcs.pixel_to_world(x, y)) = (x, y) and conversely (invertible WCS)',
           'astropy unit algebra: q.to(U).value = q/U; Angle(q, unit) converts a Quantity',
           'Meta.copy()/deepcopy produce independent objects']
ASSUMPTIONS = ['the helper pixel_scale_angle_at_skycoord is a function of (sky centre, wcs) only (its formula is C07.R1)']

HELPER = 'regions._utils.wcs_helpers:pixel_scale_angle_at_skycoord'


def _k(t):
    return show(t, 300)


class WorldModel:
    """Hooks modelling the WCS and the helper as uninterpreted invertible functions."""

    def __init__(self, model):
        self.m = model
        self._sky_by_key = {}
        self.ev = Evaluator(model, hooks={HELPER: self.helper,
                                          'method:pixel_to_world': self.p2w,
                                          'method:world_to_pixel': self.w2p})

    def scale(self, center):
        s = mark_quantity(sp.Symbol(f's[{_k(center)}]', positive=True))
        return s * UNIT['arcsec'] / PIX

    def north(self, center):
        n = sp.Symbol(f'n[{_k(center)}]', real=True)
        return n * DEG

    def w2p_pair(self, sky):
        if isinstance(sky, App) and sky.name == 'p2w':
            return sky.args[0], sky.args[1]
        k = _k(sky)
        self._sky_by_key[k] = sky
        return sym(f'wx[{k}]'), sym(f'wy[{k}]')

    def helper(self, ev, args, kwargs):
        center = args[0]
        x, y = self.w2p_pair(center)
        pc = Obj('PixCoord', {'x': x, 'y': y}, None, self.m.cls('PixCoord'))
        return Tup((pc, self.scale(center), self.north(center)))

    def p2w(self, ev, args, kwargs):
        base, x, y = args[0], args[1], args[2]
        if not (isinstance(base, Obj) and base.path == 'wcs'):
            return NotImplemented
        # p2w(w2p(K)) = K
        if isinstance(x, sp.Symbol) and isinstance(y, sp.Symbol) and x.name.startswith('wx[') \
                and y.name.startswith('wy[') and x.name[3:] == y.name[3:]:
            return self._sky_by_key.get(x.name[3:-1], App('p2w', (x, y)))
        return App('p2w', (x, y))

    def w2p(self, ev, args, kwargs):
        base, sky = args[0], args[1]
        if not (isinstance(base, Obj) and base.path == 'wcs'):
            return NotImplemented
        x, y = self.w2p_pair(sky)
        self._sky_by_key[_k(sky)] = sky
        return Tup((x, y))


WCS = Obj('WCS', {}, 'wcs')


def pairs(model):
    out = []
    for ci in model.region_classes('pixel'):
        sname = ci.name.replace('PixelRegion', 'SkyRegion')
        if model.has_cls(sname):
            out.append((ci, model.cls(sname)))
    return out


def _sky_instance(wm, sci):
    """symbolic sky instance whose angular sizes are registered quantities."""
    s = wm.ev.symbolic_instance(sci)
    for p in wm.m.params_of(sci):
        kind = wm.m.descriptor_kind(sci, p)
        if kind == 'PositiveScalarAngle':
            s.fields[p] = mark_quantity(sp.Symbol(f'self.{p}', positive=True))
        elif kind == 'ScalarAngle':
            s.fields[p] = mark_quantity(sp.Symbol(f'self.{p}', real=True))
    return s


def _field_equal(a, b):
    """compare a converted-back field with the original leaf."""
    if isinstance(a, Obj) and isinstance(b, Obj) and a.cls == 'PixCoord' and b.cls == 'PixCoord':
        def g(o, f):
            return o.fields.get(f, sym(f'{o.path}.{f}') if o.path else None)
        return all(is_num(g(a, f)) and is_num(g(b, f)) and num_equal(g(a, f), g(b, f)) for f in ('x', 'y'))
    from ..vg import unq
    a, b = unq(a), unq(b)
    if is_num(a) and is_num(b):
        return bool(num_equal(a, b))
    return term_equal(a, b) == 'eq'


def r1(ctx):
    m = ctx.model
    for pci, sci in pairs(m):
        if pci.name == 'CompoundPixelRegion':
            continue
        for direction in ('pixel->sky->pixel', 'sky->pixel->sky'):
            wm = WorldModel(m)
            ev = wm.ev
            construct = f'{pci.name}<->{sci.name} [{direction}]'
            if direction.startswith('pixel'):
                c0, c1, f0n, f1n = pci, sci, 'to_sky', 'to_pixel'
                s0 = ev.symbolic_instance(c0)
            else:
                c0, c1, f0n, f1n = sci, pci, 'to_pixel', 'to_sky'
                s0 = _sky_instance(wm, c0)
            if 'text' in m.params_of(c0):
                s0.fields['visual'] = DictV([{'rotation': sym('rot')}])
            f0 = method_or_fail(ctx, c0, f0n)
            mid = ev.call(f0, [s0, WCS], {})
            if not (isinstance(mid, Obj) and mid.cls == c1.name):
                ctx.bad(construct, 'counterpart-class',
                        f'{c0.name}.{f0n} returns {show(mid, 120)}, not a {c1.name}', f0.loc())
                continue
            f1 = method_or_fail(ctx, c1, f1n)
            back = ev.call(f1, [mid, WCS], {})
            if not (isinstance(back, Obj) and back.cls == c0.name):
                ctx.bad(construct, 'counterpart-class',
                        f'{c1.name}.{f1n} returns {show(back, 120)}, not a {c0.name}', f1.loc())
                continue
            bad = []
            for p in m.params_of(c0):
                orig = s0.fields.get(p)
                if orig is None:
                    orig = ev.attr(s0, p, None)
                got = back.fields.get(p)
                if got is None:
                    bad.append((p, 'field not supplied', ''))
                    continue
                u = contains_unknown(got)
                if u is not None:
                    raise AnalysisError('C06.R1', construct, f'field {p}: {u.why}')
                if not _field_equal(got, orig):
                    bad.append((p, show(got, 200), show(orig, 80)))
            if 'text' in m.params_of(c0):
                v = back.fields.get('visual')
                rot = v.get('rotation') if isinstance(v, DictV) else None
                if not (is_num(rot) and num_equal(rot, sym('rot'))):
                    bad.append(("visual['rotation']", show(rot, 160), 'rot'))
            if bad:
                p, g, o = bad[0]
                ctx.bad(construct, f'field-{p}',
                        f'round trip is not the identity on `{p}`: comes back as {g}, started as {o} '
                        '(scale/angle terms of the two directions do not cancel)', f0.loc(),
                        {'fields': [b[0] for b in bad]})
            else:
                ctx.ok(construct, f'identity on {list(m.params_of(c0))}')


def r2(ctx):
    m = ctx.model
    ps = pairs(m)
    ctx.need(len(ps) >= 11, 'class pairs', f'only {len(ps)} pixel/sky pairs')
    for pci, sci in ps:
        for c0, c1, fn in ((pci, sci, 'to_sky'), (sci, pci, 'to_pixel')):
            wm = WorldModel(m)
            ev = wm.ev
            s0 = ev.symbolic_instance(c0) if c0 is pci else _sky_instance(wm, c0)
            f = method_or_fail(ctx, c0, fn)
            r = ev.call(f, [s0, WCS], {})
            construct = f'{c0.name}.{fn}'
            if not (isinstance(r, Obj) and r.cls == c1.name):
                ctx.bad(construct, 'counterpart-class', f'returns {show(r, 120)}, not a {c1.name}', f.loc())
                continue
            missing = [p for p in m.params_of(c1) if p not in r.fields and p != 'operator']
            if c1.name.startswith('Compound'):
                op = r.fields.get('_operator')
                if op is None or 'operator' not in show(op):
                    missing.append('operator')
                for k in ('region1', 'region2'):
                    v = r.fields.get(k)
                    want = 'method:' + fn
                    if not (isinstance(v, App) and v.name == want and f'self.{k}' in show(v)):
                        missing.append(f'{k} (not self.{k}.{fn}(wcs))')
            if missing:
                ctx.bad(construct, 'fields-missing', f'counterpart built without {missing}', f.loc())
            else:
                ctx.ok(construct, f'builds {c1.name} with every field')


def _fresh_from(v, which):
    """is v a fresh object built from self.<which>?"""
    src = f'self.{which}'
    if isinstance(v, Ite):
        return _fresh_from(v.a, which) and _fresh_from(v.b, which)
    if isinstance(v, App) and v.name == 'apply' and v.args and isinstance(v.args[0], App) and \
            v.args[0].name == 'attr:copy' and f'copy({src})' in show(v.args[0], 2000):
        return True
    if isinstance(v, App) and v.name in ('copy', 'RegionMeta', 'RegionVisual', 'dict') and \
            len(v.args) >= 1 and isinstance(v.args[0], Obj) and v.args[0].path == src:
        return True
    if isinstance(v, DictV) and v.layers and any(
            (not isinstance(l, dict)) and src in show(l) for l in v.layers):
        return True
    if isinstance(v, DictV) and which == 'visual' and any(isinstance(l, dict) and 'rotation' in l for l in v.layers):
        return True
    return False


def r3(ctx):
    m = ctx.model
    for pci, sci in pairs(m):
        for c0, c1, fn in ((pci, sci, 'to_sky'), (sci, pci, 'to_pixel')):
            wm = WorldModel(m)
            ev = wm.ev
            s0 = ev.symbolic_instance(c0) if c0 is pci else _sky_instance(wm, c0)
            f = method_or_fail(ctx, c0, fn)
            r = ev.call(f, [s0, WCS], {})
            construct = f'{c0.name}.{fn}'
            if not isinstance(r, Obj):
                ctx.bad(construct, 'no-object', f'returns {show(r, 100)}', f.loc())
                continue
            probs = []
            for which in ('meta', 'visual'):
                v = r.fields.get(which)
                if isinstance(v, Obj) and v.path == f'self.{which}':
                    probs.append(f'{which} is passed by reference (alias of self.{which}): later edits of one '
                                 'region show in the other')
                elif not _fresh_from(v, which):
                    probs.append(f'{which} of the result is {show(v, 100)}, not a copy of self.{which} '
                                 '(metadata incl. the include flag is lost)')
            if probs:
                ctx.bad(construct, 'metadata', '; '.join(probs), f.loc())
            else:
                ctx.ok(construct, 'result carries fresh copies of self.meta and self.visual')


def r3b(ctx):
    """every region constructor stores its meta/visual parameter when given."""
    m = ctx.model
    n = 0
    for ci in m.region_classes():
        init = m.method(ci, '__init__')
        ctx.need(init is not None, ci.name, 'no __init__')
        ev = Evaluator(m)
        o = Obj(ci.name, {}, None, ci)
        a = init.node.args
        names = [x.arg for x in a.args][1:]
        args = []
        for nm in names:
            if nm == 'meta':
                args.append(Obj('RegionMeta', {}, 'given.meta'))
            elif nm == 'visual':
                args.append(Obj('RegionVisual', {}, 'given.visual'))
            elif nm in ('region1', 'region2'):
                base = 'PixelRegion' if m.is_subclass(ci, 'PixelRegion') else 'SkyRegion'
                args.append(Obj(base, {}, f'given.{nm}', m.cls(base)))
            elif nm == 'operator':
                from ..vg import ExtRef
                args.append(ExtRef('operator.and_'))
            elif nm in ('vertices', 'origin'):
                args.append(Obj('PixCoord', {}, f'given.{nm}', m.cls('PixCoord')))
            else:
                args.append(sym(f'given.{nm}', positive=True))
        try:
            ev.run(init, [o] + args, {})
        except AnalysisError:
            raise
        probs = []
        for which, cls in (('meta', 'RegionMeta'), ('visual', 'RegionVisual')):
            v = o.fields.get(which)
            if not (isinstance(v, Obj) and v.path == f'given.{which}'):
                probs.append(f'{which} given to the constructor is stored as {show(v, 80)}')
        n += 1
        if probs:
            ctx.bad(f'{ci.name}.__init__', 'drops-metadata', '; '.join(probs) +
                    ' — metadata (e.g. include=False) passed by a conversion is lost', init.loc())
        else:
            ctx.ok(f'{ci.name}.__init__', 'stores the meta/visual it is given')


def r4(ctx):
    m = ctx.model
    ci = m.cls('SkyRegion')
    f = method_or_fail(ctx, ci, 'contains')
    ev = Evaluator(m)
    s = ev.symbolic_instance(ci)
    sc = Obj('SkyCoord', {}, 'skycoord')
    t = ev.call(f, [s, sc, WCS], {})
    txt = show(t, 1000)
    ok = isinstance(t, App) and t.name == 'apply' and 'attr:contains(method:to_pixel(self, wcs))' in txt \
        and len(t.args) == 2 and isinstance(t.args[1], Obj) and t.args[1].cls == 'PixCoord' \
        and 'skycoord' in show(t.args[1]) and 'wcs' in show(t.args[1])
    if ok:
        ctx.ok('SkyRegion.contains', 'self.to_pixel(wcs).contains(PixCoord.from_sky(skycoord, wcs))')
    else:
        ctx.bad('SkyRegion.contains', 'not-via-pixel-image', f'sky membership is {txt[:300]}', f.loc())
    # overriding families
    over = [c for c in m.region_classes('sky') if 'contains' in c.methods]
    for c in over:
        if c.name == 'CompoundSkyRegion':
            ev2 = Evaluator(m)
            s2 = ev2.symbolic_instance(c)
            t2 = ev2.call(c.methods['contains'], [s2, sc, WCS], {})
            tt = show(t2, 800)
            tt = show(t2, 4000)
            if all(x in tt for x in ('method:to_pixel(self.region1, wcs)', 'method:to_pixel(self.region2, wcs)',
                                     'attr:_operator(self)')):
                ctx.ok('CompoundSkyRegion.contains', 'operator(component answers), like its pixel image')
            else:
                ctx.bad('CompoundSkyRegion.contains', 'components', f'is {tt[:300]}', c.methods['contains'].loc())
        else:
            # a family that answers without its pixel image (points, lines, text contain nothing): the answer must still
            # be the pixel image's answer for the converted positions — in particular have the shape of the query
            pci = m.cls(c.name.replace('SkyRegion', 'PixelRegion'))
            ctx.need(pci is not None and m.method(pci, 'contains') is not None, f'{c.name}.contains', 'pixel counterpart not found')

            def answer(ci_, qcls, qname):
                e = Evaluator(m)
                inst = e.symbolic_instance(ci_)
                q = Obj(qcls, {}, qname)
                args = [inst, q] + ([WCS] if qcls == 'SkyCoord' else [])
                out = e.run(m.method(ci_, 'contains'), args, {})
                return sorted((show(e.conj(pc), 400), show(v, 600)) for pc, v in out.returns)

            def norm_q(rows, qname):
                out = []
                for pc, v in rows:
                    for a, b in ((f'attr:shape(attr:x({qname}))', 'SHAPE(Q)'), (f'attr:shape({qname}.x)', 'SHAPE(Q)'),
                                 (f'attr:shape({qname})', 'SHAPE(Q)'),
                                 (f'attr:isscalar({qname})', 'ISSCALAR(Q)')):
                        pc, v = pc.replace(a, b), v.replace(a, b)
                    out.append((pc, v))
                return sorted(out)
            ts = answer(c, 'SkyCoord', 'skycoord')
            tp = answer(pci, 'PixCoord', 'pixcoord')
            if not any('skycoord' in v or 'skycoord' in pc for pc, v in ts):
                ctx.bad(f'{c.name}.contains', 'answer-shape',
                        f'{c.name}.contains returns {sorted({v for _, v in ts})} whatever positions are asked about: for an array of '
                        f'sky positions the answer is one scalar, while the pixel image ({pci.name}.contains of the converted '
                        'positions) answers with an array of the positions\' shape', c.methods['contains'].loc())
            elif norm_q(ts, 'skycoord') == norm_q(tp, 'pixcoord'):
                ctx.ok(f'{c.name}.contains', 'the same answer term as its pixel image (shape of the query, include sense)')
            else:
                raise AnalysisError('C06.R4', f'{c.name}.contains', 'override depends on the query but is not the pixel image\'s '
                                    f'term: {ts} vs {tp}')


RULES = [
    RuleDef('R1', 'conversions are mutually inverse on every field (units checked)', r1, 20),
    RuleDef('R2', 'class pairing and field completeness', r2, 22),
    RuleDef('R3', 'conversions carry fresh copies of meta/visual', r3, 22),
    RuleDef('R3b', 'every region constructor stores the meta/visual it is given', r3b, 23),
    RuleDef('R4', 'sky membership is the pixel image\'s answer (delegation, or the same answer term for point/line/text)', r4, 4),
    RuleDef('R5', 'the shared scale/angle helper both directions rely on is the one C07.R1 decides (north offset of the '
            'coordinate itself, in its own frame with its attributes)', lambda ctx: __import__('sa.rules.c07', fromlist=['r1']).r1(ctx), 1),
]
