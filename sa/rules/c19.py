"""C19 — bounding-box arithmetic is exact integer rectangle algebra."""
import ast

import sympy as sp

from ..ot import describe, ev as ot_ev, order_only, weak_orderings
from ..astutil import call_name
from ..report import RuleDef
from ..src import AnalysisError
from ..vg import (App, BoolT, ClassRef, Cmp, Const, Evaluator, Ite, Obj, Tup,
                  is_num, same, show, sym)
from .common import evaluator, method_or_fail, need_known

EXPLANATION = (
    'Decides from source, for integers of any magnitude: (R1) union returns (min of mins, max of maxes) — '
    'checked on every weak ordering of the eight corners per axis pair (order types are a complete '
    'abstraction for min/max/compare terms); (R2) intersection returns (max of mins, min of maxes) and None '
    'exactly on the orderings with no common pixel; (R3) shape/center/extent normal forms; '
    '(R4) from_float = floor(min+1/2), ceil(max+1/2); (R5) get_overlap_slices: large window = '
    '(max(min,0), min(max,S)), y before x; small window = large window shifted by the box origin '
    '(shift identity max(a,b)+k = max(a+k,b+k)); (None, None) exactly on the orderings of '
    '{min, max, 0, S} without a common pixel; (R6) constructor guards and __eq__ over all four corners. '
    'Not decided: numpy integer overflow near 2^63.')
EXPLANATION_ADDED = (' (R8) fixed-width integer limits: no method multiplies or squares limit-derived values (the may-be-integer dataflow of C01.R9 with the four limits as sources).')
EXPLANATION += EXPLANATION_ADDED
EXPLANATION_ADDED3 = (' (R8) the constructor stores int(limit) for each of the four limits (decided by evaluating the constructor: the stored term is the int() of the parameter), so numpy integer scalars do not reach the box arithmetic, and the may-be-integer lint finds no wrapping product/sum in the box methods.')
EXPLANATION += EXPLANATION_ADDED3
EXPLANATION_ADDED2 = (' (R9) a box is a value: no method of RegionBoundingBox writes through the box it is called on or through its arguments (C13.R1 restricted to the bounding-box module), so no result depends on the methods called before.')
EXPLANATION += EXPLANATION_ADDED2
EXPLANATION_ADDED4 = (' (R8 also) the image shape of get_overlap_slices enters the slice arithmetic only as int(<element>) (decided by evaluating the method on a shape of two opaque numbers).')
EXPLANATION += EXPLANATION_ADDED4
TRUSTED = ['builtin min/max/abs on integers', 'slice(a, b) selects a <= i < b for 0 <= a']
ASSUMPTIONS = ['corners are exact integers']

FIELDS = ('ixmin', 'ixmax', 'iymin', 'iymax')


def _box(ctx, tag):
    ci = ctx.model.cls('RegionBoundingBox')
    return Obj('RegionBoundingBox', {k: sp.Symbol(f'{tag}.{k}', integer=True) for k in FIELDS}, None, ci)


def _axes(a, b):
    return ([a.fields['ixmin'], a.fields['ixmax'], b.fields['ixmin'], b.fields['ixmax']],
            [a.fields['iymin'], a.fields['iymax'], b.fields['iymin'], b.fields['iymax']])


def _pairs(a, b):
    xs, ys = _axes(a, b)
    cx = [(xs[0], xs[1]), (xs[2], xs[3])]
    cy = [(ys[0], ys[1]), (ys[2], ys[3])]
    X = list(weak_orderings(xs, cx))
    Y = list(weak_orderings(ys, cy))
    return xs, ys, X, Y


def _binary(ctx, name):
    ci = ctx.model.cls('RegionBoundingBox')
    f = method_or_fail(ctx, ci, name)
    ev = evaluator(ctx)
    a, b = _box(ctx, 'a'), _box(ctx, 'b')
    t = ev.call(f, [a, b], {})
    return f, a, b, t


def _val(v):
    """normalise OT result: None | ('box', x0, x1, y0, y1)"""
    if v is None:
        return None
    if isinstance(v, tuple) and v and v[0] == 'RegionBoundingBox':
        d = dict(v[1])
        return ('box', int(d['ixmin']), int(d['ixmax']), int(d['iymin']), int(d['iymax']))
    return ('other', repr(v))


def _ot(ctx, f, t, asg):
    try:
        return ot_ev(t, asg)
    except AnalysisError:
        raise
    except Exception as exc:       # a result that is no longer a box of order-type terms
        raise AnalysisError(ctx._rule, f'RegionBoundingBox.{f.name}', f'result is not reducible on an order type: {str(exc)[:160]}')


def r1(ctx):
    f, a, b, t = _binary(ctx, 'union')
    need_known(ctx, t, 'RegionBoundingBox.union')
    xs, ys, X, Y = _pairs(a, b)
    n = 0
    bad = {}
    for ax in X:
        for ay in Y:
            asg = {**ax, **ay}
            n += 1
            got = _val(_ot(ctx, f, t, asg))
            want = ('box', min(asg[xs[0]], asg[xs[2]]), max(asg[xs[1]], asg[xs[3]]),
                    min(asg[ys[0]], asg[ys[2]]), max(asg[ys[1]], asg[ys[3]]))
            if got != want:
                bad.setdefault('not-smallest-enclosing-box', []).append((describe(ax), describe(ay), got, want))
    ctx.note(f'union: {len(X)}x{len(Y)}={n} order types evaluated')
    if bad:
        ex = bad['not-smallest-enclosing-box'][0]
        ctx.bad('RegionBoundingBox.union', 'not-smallest-enclosing-box',
                f'union is not (min of mins, max of maxes) on {len(bad["not-smallest-enclosing-box"])} of {n} '
                f'order types, e.g. x: {ex[0]}, y: {ex[1]}: got {ex[2]}, want {ex[3]}', f.loc())
    else:
        ctx.ok('RegionBoundingBox.union', f'{n} order types: smallest enclosing box')
    ci = ctx.model.cls('RegionBoundingBox')
    o = method_or_fail(ctx, ci, '__or__')
    an = method_or_fail(ctx, ci, '__and__')
    for g, nm in ((o, 'union'), (an, 'intersection')):
        if ast.unparse(g.node.body[-1]).replace(' ', '') == f'returnself.{nm}(other)':
            ctx.ok(f'RegionBoundingBox.{g.name}', f'is {nm}')
        else:
            ctx.bad(f'RegionBoundingBox.{g.name}', 'operator', f'operator does not call {nm}', g.loc())


def r2(ctx):
    f, a, b, t = _binary(ctx, 'intersection')
    need_known(ctx, t, 'RegionBoundingBox.intersection')
    xs, ys, X, Y = _pairs(a, b)
    n = 0
    bad = {}
    for ax in X:
        for ay in Y:
            asg = {**ax, **ay}
            n += 1
            got = _val(_ot(ctx, f, t, asg))
            x0, x1 = max(asg[xs[0]], asg[xs[2]]), min(asg[xs[1]], asg[xs[3]])
            y0, y1 = max(asg[ys[0]], asg[ys[2]]), min(asg[ys[1]], asg[ys[3]])
            want = None if (x0 >= x1 or y0 >= y1) else ('box', x0, x1, y0, y1)
            if got != want:
                if want is None and got and got[0] == 'box':
                    kind = 'empty-box-instead-of-None'
                elif got is None:
                    kind = 'None-despite-common-pixels'
                else:
                    kind = 'wrong-box'
                bad.setdefault(kind, []).append((describe(ax), describe(ay), got, want))
    ctx.note(f'intersection: {n} order types evaluated')
    if not bad:
        ctx.ok('RegionBoundingBox.intersection', f'{n} order types: common pixels, None iff none')
    for kind, lst in bad.items():
        ex = lst[0]
        ctx.bad('RegionBoundingBox.intersection', kind,
                f'on {len(lst)} of {n} order types the intersection is not "exactly the common pixels, None '
                f'when there are none" ({kind}), e.g. x: {ex[0]}, y: {ex[1]}: got {ex[2]}, want {ex[3]}', f.loc())


def r3(ctx):
    ci = ctx.model.cls('RegionBoundingBox')
    ev = evaluator(ctx)
    s = _box(ctx, 'self')
    F = s.fields
    h = sp.Rational(1, 2)
    want = {'shape': [F['iymax'] - F['iymin'], F['ixmax'] - F['ixmin']],
            'center': [(F['iymin'] + F['iymax'] - 1) / 2, (F['ixmin'] + F['ixmax'] - 1) / 2],
            'extent': [F['ixmin'] - h, F['ixmax'] - h, F['iymin'] - h, F['iymax'] - h]}
    for name, w in want.items():
        f = method_or_fail(ctx, ci, name)
        t = ev.call(f, [s], {})
        ok = isinstance(t, Tup) and len(t.items) == len(w) and all(
            is_num(g) and sp.simplify(g - x) == 0 for g, x in zip(t.items, w))
        if ok:
            ctx.ok(f'RegionBoundingBox.{name}', 'normal form agrees with the pixel set')
        else:
            ctx.bad(f'RegionBoundingBox.{name}', 'formula', f'{name} is {show(t, 200)}; expected {w}', f.loc())


def r4(ctx):
    from .c04 import r2 as c04r2
    c04r2(ctx)


def push_shift(e):
    """max(a,b)+k -> max(a+k,b+k); -max(a,b) -> min(-a,-b) (theorems over ordered groups)."""
    e = sp.expand(e)
    mm = [m for m in e.atoms(sp.Max, sp.Min)]
    if len(mm) != 1:
        return e
    m = mm[0]
    c = e.coeff(m)
    rest = sp.expand(e - c * m)
    if rest.has(sp.Max) or rest.has(sp.Min):
        return e
    args = [push_shift(a) if a.has(sp.Max, sp.Min) else a for a in m.args]
    if c == 1:
        return type(m)(*[sp.expand(a + rest) for a in args])
    if c == -1:
        other = sp.Min if isinstance(m, sp.Max) else sp.Max
        return other(*[sp.expand(-a + rest) for a in args])
    return e


def r5(ctx):
    ci = ctx.model.cls('RegionBoundingBox')
    f = method_or_fail(ctx, ci, 'get_overlap_slices')
    ev = evaluator(ctx)
    s = _box(ctx, 'self')
    F = s.fields
    S0, S1 = sp.Symbol('S0', integer=True, nonnegative=True), sp.Symbol('S1', integer=True, nonnegative=True)
    out = ev.run(f, [s, Tup((S0, S1))], {})
    construct = 'RegionBoundingBox.get_overlap_slices'
    rets = out.returns
    is_none = lambda v: isinstance(v, Tup) and len(v.items) == 2 and all(isinstance(i, Const) and i.v is None for i in v.items)  # noqa: E731
    nonnone = [(pc, v) for pc, v in rets if not is_none(v)]
    nones = [pc for pc, v in rets if is_none(v)]
    ctx.need(len(nonnone) >= 1 and len(nones) >= 1, construct,
             f'expected (None, None) exits and slices exits, found {len(nones)}+{len(nonnone)}')
    zero = sp.Integer(0)
    Z = sp.Symbol('ZERO', integer=True)
    allowed = {F[k] for k in FIELDS} | {S0, S1, Z}

    def ncond(t):
        """bool(ite(A, True, B)) -> A or B, etc.: the evaluator's spelling of short-circuit tests"""
        if isinstance(t, App) and t.name in ('bool', 'call:bool') and len(t.args) == 1:
            return ncond(t.args[0])
        if isinstance(t, Ite):
            c_, a_, b_ = ncond(t.cond), ncond(t.a), ncond(t.b)
            if isinstance(a_, Const) and a_.v is True:
                return BoolT('or', (c_, b_))
            if isinstance(b_, Const) and b_.v is False:
                return BoolT('and', (c_, a_))
            return t
        if isinstance(t, BoolT) and t.op == 'truthy' and len(t.args) == 1:
            return ncond(t.args[0])
        if isinstance(t, BoolT):
            return BoolT(t.op, tuple(ncond(x) for x in t.args))
        return t

    def z(t):
        if is_num(t):
            if t == 0:
                return Z
            if isinstance(t, (sp.Min, sp.Max)):
                return type(t)(*[z(a) for a in t.args])
            return t
        if isinstance(t, Cmp):
            return Cmp(t.op, z(t.lhs), z(t.rhs))
        if isinstance(t, BoolT):
            return BoolT(t.op, tuple(z(x) for x in t.args))
        return t

    def order_part(pc):
        """the conjuncts of a path condition that speak about the order of the limits, 0 and the image size (the others —
        type tests that select a fast path, the folded length validation — can only make the path rarer)"""
        keep = []
        for c in pc:
            c = z(ncond(c))
            if isinstance(c, Const):
                continue
            if order_only(c, allowed):
                keep.append(c)
        return keep

    def facts(conds):
        """atoms known true / false on a path, by their printed form"""
        tr, fa = set(), set()

        def walk(c, pos):
            if isinstance(c, BoolT) and c.op == 'not':
                walk(c.args[0], not pos)
            elif isinstance(c, BoolT) and ((c.op == 'and' and pos) or (c.op == 'or' and not pos)):
                for x in c.args:
                    walk(x, pos)
            else:
                (tr if pos else fa).add(show(c, 10 ** 5))
        for c in conds:
            walk(ncond(c), True)
        return tr, fa

    def prune(t, tr, fa):
        """the value on this path: conditionals decided by the path condition are resolved"""
        if isinstance(t, Ite):
            k = show(ncond(t.cond), 10 ** 5)
            if k in tr:
                return prune(t.a, tr, fa)
            if k in fa:
                return prune(t.b, tr, fa)
            return t
        if isinstance(t, Tup):
            return Tup(tuple(prune(i, tr, fa) for i in t.items), t.kind)
        if isinstance(t, App):
            return App(t.name, tuple(prune(i, tr, fa) for i in t.args))
        return t
    wantL = [(sp.Max(F['iymin'], zero), sp.Min(F['iymax'], S0)), (sp.Max(F['ixmin'], zero), sp.Min(F['ixmax'], S1))]
    origin = [F['iymin'], F['ixmin']]
    probs = []
    for pc, v in nonnone:
        v = prune(v, *facts(pc))
        ok_shape = isinstance(v, Tup) and len(v.items) == 2 and all(
            isinstance(w, Tup) and len(w.items) == 2 and all(isinstance(sl, App) and sl.name == 'slice' for sl in w.items)
            for w in v.items)
        ctx.need(ok_shape, construct, f'slices value not understood: {show(v, 300)}')
        large, small = v.items
        for axis, (sl, (lo, hi)) in enumerate(zip(large.items, wantL)):
            a0, a1 = sl.args
            if not (is_num(a0) and is_num(a1) and push_shift(a0) == lo and push_shift(a1) == hi):
                probs.append(f'large window axis {axis} is [{show(a0)}:{show(a1)}], want [{lo}:{hi}]')
        for axis, (sl, (lo, hi)) in enumerate(zip(small.items, wantL)):
            a0, a1 = sl.args
            if not (is_num(a0) and is_num(a1) and push_shift(a0 + origin[axis]) == lo
                    and push_shift(a1 + origin[axis]) == hi):
                probs.append(f'small window axis {axis} is [{show(a0)}:{show(a1)}], which is not the large window '
                             f'shifted by the box origin {origin[axis]}')
    if probs:
        ctx.bad(construct, 'windows', '; '.join(sorted(set(probs))), f.loc())
    else:
        ctx.ok(construct + ':windows', 'large = clip to image, small = large - origin, y before x')
    # (None, None) exactly when there is no common pixel, on all orderings of {min, max, 0, S} per axis: every path that
    # returns (None, None) implies "no common pixel", every path that returns slices implies "a common pixel" (the paths
    # together cover every input, so this is "exactly when")
    none_conds = [order_part(pc) for pc in nones]
    some_conds = [order_part(pc) for pc, _ in nonnone]
    if any(not c for c in none_conds + some_conds):
        raise AnalysisError('C19.R5', construct, 'an exit is reached under no condition on the order of the limits: '
                            + '; '.join(show(ev.conj(pc), 200) for pc in nones + [p_ for p_, _ in nonnone]))
    xs = [F['ixmin'], F['ixmax'], Z, S1]
    ys = [F['iymin'], F['iymax'], Z, S0]
    X = list(weak_orderings(xs, [(xs[0], xs[1]), (Z, S1)]))
    Y = list(weak_orderings([y for y in ys], [(ys[0], ys[1]), (Z, S0)]))
    bad = {}
    n = 0
    for ax in X:
        for ay in Y:
            # Z is shared: align the two rank maps on ZERO by shifting
            asg = {k: v - ax[Z] for k, v in ax.items()}
            asg.update({k: v - ay[Z] for k, v in ay.items()})
            n += 1
            x0, x1 = max(asg[xs[0]], 0), min(asg[xs[1]], asg[S1])
            y0, y1 = max(asg[ys[0]], 0), min(asg[ys[1]], asg[S0])
            want = x0 >= x1 or y0 >= y1
            got_none = any(all(bool(ot_ev(c, asg)) for c in cs) for cs in none_conds)
            got_some = any(all(bool(ot_ev(c, asg)) for c in cs) for cs in some_conds)
            if got_none and not want:
                bad.setdefault('None-despite-common-pixels', []).append((describe({k: v for k, v in ax.items()}), describe(ay)))
            if got_some and want:
                bad.setdefault('empty-window-instead-of-None', []).append((describe({k: v for k, v in ax.items()}), describe(ay)))
    ctx.note(f'get_overlap_slices: {n} order types evaluated on {len(nones)} + {len(nonnone)} exits')
    if not bad:
        ctx.ok(construct + ':none-condition', f'{n} order types: (None, None) exactly when no common pixel')
    for kind, lst in bad.items():
        ctx.bad(construct, kind,
                f'(None, None) is not returned "exactly when there are no common pixels": {kind} on {len(lst)} of '
                f'{n} order types, e.g. x: {lst[0][0]}, y: {lst[0][1]}', f.loc())


def r6(ctx):
    m = ctx.model
    ci = m.cls('RegionBoundingBox')
    init = method_or_fail(ctx, ci, '__init__')
    ev = evaluator(ctx)
    args = {k: sp.Symbol(k, integer=True) for k in FIELDS}
    o = Obj('RegionBoundingBox', {}, None, ci)
    out = ev.run(init, [o] + [args[k] for k in FIELDS], {})
    rs = [(ev.conj(pc), n) for pc, n, _ in out.raises]
    txt = ' | '.join(f'{n}:{show(c, 120)}' for c, n in rs)
    need = [f'_is_int({k})' for k in FIELDS]
    ok = all(any(n == 'TypeError' and k in show(c, 400) for c, n in rs) for k in need)
    ok_order = any(n == 'ValueError' and same(c_last(c), Cmp('<', args['ixmax'], args['ixmin'])) for c, n in rs) and \
        any(n == 'ValueError' and same(c_last(c), Cmp('<', args['iymax'], args['iymin'])) for c, n in rs)
    stored = all(same(o.fields.get(k), args[k]) for k in FIELDS)
    if ok and ok_order and stored:
        ctx.ok('RegionBoundingBox.__init__', 'integer and ordering guards raise; corners stored in order')
    else:
        ctx.bad('RegionBoundingBox.__init__', 'guards',
                f'constructor guards/stores deviate (int checks: {ok}, order checks: {ok_order}, stores: {stored}): {txt}',
                init.loc())
    eq = method_or_fail(ctx, ci, '__eq__')
    a, b = _box(ctx, 'a'), _box(ctx, 'b')
    t = ev.call(eq, [a, b], {})
    from .common import conj_list
    cs = conj_list(t)
    want = [Cmp('==', a.fields[k], b.fields[k]) for k in FIELDS]
    if len(cs) == 4 and all(any(same(c, w) or same(c, Cmp('==', w.rhs, w.lhs)) for c in cs) for w in want):
        ctx.ok('RegionBoundingBox.__eq__', 'compares all four corners')
    else:
        ctx.bad('RegionBoundingBox.__eq__', 'fields', f'equality is {show(t, 300)}', eq.loc())


def c_last(c):
    if isinstance(c, BoolT) and c.op == 'and':
        return c.args[-1]
    return c


def shape_clause(ctx):
    """the image shape of get_overlap_slices is the other operand of the slice arithmetic (`shape[0] - iymin`): its elements
    too must be converted to Python integers (np.array(shape, dtype=np.uint8) is a legal way to hand a shape over) — decided
    on the value: with two opaque numbers as shape, they occur in the result and in the no-overlap test only as int(<element>)"""
    ci = ctx.model.cls('RegionBoundingBox')
    gos = method_or_fail(ctx, ci, 'get_overlap_slices')
    ev2 = evaluator(ctx)
    box = _box(ctx, 'self')
    T0, T1 = sp.Symbol('shape0', real=True), sp.Symbol('shape1', real=True)
    out = ev2.run(gos, [box, Tup((T0, T1))], {})
    ctx.need(out.returns, 'RegionBoundingBox.get_overlap_slices', 'no return reached with a symbolic shape')
    from ..vg import walk_terms
    U = {sp.Function('int')(T0): sp.Symbol('U0', integer=True), sp.Function('int')(T1): sp.Symbol('U1', integer=True)}
    rawuse = None
    for pc, v in out.returns:
        for t in list(pc) + [v]:
            for sub in walk_terms(t):
                if is_num(sub) and (sub.subs(U).free_symbols & {T0, T1}):
                    rawuse = rawuse or sub
    if rawuse is not None:
        ctx.bad('RegionBoundingBox.get_overlap_slices', 'fixed-width-shape',
                f'the image shape enters the slice arithmetic as given ({show(rawuse, 80)}): with a shape of numpy integer scalars '
                '`shape[0] - iymin` runs in their fixed width — an OverflowError for an unsigned shape and a negative limit, a '
                'wrapped-around slice(125, -126) for int8 — instead of the overlap or (None, None); convert the elements to '
                'Python integers first', gos.loc())
    else:
        ctx.ok('RegionBoundingBox.get_overlap_slices', 'the image shape is converted to Python integers before the slice arithmetic')


def r8(ctx):
    """fixed-width integers: the limits keep the integer type they were given (np.int8 ... np.int32 limits are legal), so
    the box arithmetic must not multiply two limit-derived values (an area `nx * ny` wraps around silently) — the
    may-be-integer dataflow of C01.R9 over every method, with the four limits as the integer-typed sources."""
    from .c01 import _DtypeLint
    m = ctx.model
    ci = m.cls('RegionBoundingBox')
    # (a) the constructor: numpy integer scalars are accepted as limits; unless they are converted to Python integers
    # there, every later operation runs in their fixed width: `-ymin` of an unsigned limit wraps around (the window in
    # mask coordinates becomes slice(254, 3)), `iymax - iymin` of int8 limits overflows (shape (2, -56))
    init = method_or_fail(ctx, ci, '__init__')
    params = [a.arg for a in init.node.args.args][1:]
    # decided on the value: the constructor is evaluated with four opaque numbers; each stored limit must be int(<its
    # parameter>) (operator.index is the same conversion for integer inputs)
    ev = evaluator(ctx)
    self_ = Obj('RegionBoundingBox', {}, None, ci)
    syms = {p_: sp.Symbol('arg_' + p_, real=True) for p_ in params}
    ev.run(init, [self_] + [syms[p_] for p_ in params], {})
    ctx.need(set(FIELDS) <= set(self_.fields), 'RegionBoundingBox.__init__', f'stores of the four limits not found: {sorted(self_.fields)}')
    raw = []
    for k in FIELDS:
        v = self_.fields[k]
        conv = is_num(v) and getattr(v.func, '__name__', '') in ('int', 'index') and len(v.args) == 1 and v.args[0] == syms.get(k)
        if not conv:
            raw.append(k)
    raw.sort()
    if raw:
        ctx.bad('RegionBoundingBox.__init__', 'fixed-width-limits',
                f'the limits {raw} are stored as given: a numpy integer scalar (accepted by the type check) keeps its fixed '
                'width, so RegionBoundingBox(np.uint8(2), np.uint8(5), np.uint8(3), np.uint8(6)).get_overlap_slices((10, 10)) '
                'has the mask window slice(253, 3) (`-ymin` wraps around) and every RegionMask method raises, and '
                'RegionBoundingBox(np.int8(-100), np.int8(100), np.int8(0), np.int8(2)).shape is (2, -56); the limits must be '
                'converted to Python integers (int(...)) when they are stored', init.loc())
        return
    ctx.ok('RegionBoundingBox.__init__', 'the four limits are stored as Python integers (int(...)): the arithmetic cannot wrap')
    shape_clause(ctx)
    # (b) with Python-int limits no method can overflow; the dataflow below stays as a guard for limits that reach a method
    # by another way (it treats the stored limits as exact)
    lint = _DtypeLint(ctx, m, coord_attrs=())
    n = 0
    for name, f in sorted(ci.methods.items()):
        base = name.split('.')[0]
        if base in ('__repr__', '__str__', 'as_artist', 'plot', 'to_region'):
            continue
        n += 1
        before = len(lint.problems)
        lint.fn(f, ['scalar'] * len(f.node.args.args))
        new = lint.problems[before:]
        if new:
            fi, node, text = new[0]
            ctx.bad(f'RegionBoundingBox.{name}', 'integer-overflow',
                    f'{text}: limits given as fixed-width numpy integers make the product wrap around (a 256 x 256 overlap '
                    'with int16 limits has "area" 0), so the result is not the integer-rectangle answer', fi.loc(node))
        else:
            ctx.ok(f'RegionBoundingBox.{name}', 'no product/power of limit-derived integers')
    ctx.need(n >= 8, 'RegionBoundingBox methods', f'only {n} analysed')


def r9(ctx):
    """a box is a value: no method writes to the box it is called on (or to the other operand) after construction, so a
    result cannot depend on which methods were called before — C13.R1 restricted to the bounding-box module (a memo of
    slices kept in the instance and shared by `copy.copy` hands one box the slices of another)."""
    from .c09 import _SubCtx
    from .c13 import r1 as c13r1
    sub = _SubCtx(ctx, lambda c: 'RegionBoundingBox.' in c or 'bounding_box.py' in c)
    c13r1(sub)
    sub.flush('no method of RegionBoundingBox writes through self or its arguments', 'RegionBoundingBox methods')


RULES = [
    RuleDef('R1', 'union is the smallest enclosing box on every order type', r1, 3),
    RuleDef('R2', 'intersection = common pixels, None iff none, on every order type', r2, 1),
    RuleDef('R3', 'shape / center / extent normal forms', r3, 3),
    RuleDef('R4', 'from_float rounding', r4, 2),
    RuleDef('R5', 'overlap slices: windows and (None, None) condition', r5, 2),
    RuleDef('R6', 'constructor guards; __eq__ over four corners', r6, 2),
    RuleDef('R8', 'limits are stored as Python integers (numpy integer scalars are converted), so the box arithmetic cannot wrap', r8, 1),
    RuleDef('R9', 'box methods do not write to the box (no state between calls; C13.R1 on the bounding-box module)', r9, 1),
]
