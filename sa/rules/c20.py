"""C20 — pixel coordinates behave as broadcast (x, y) arrays under every operation."""
import ast

import sympy as sp

from ..astutil import call_name, calls_in, norm
from ..report import RuleDef
from ..src import AnalysisError
from ..vg import (App, BoolT, Cmp, Const, Evaluator, ExtRef, Ite, Obj, Tup,
                  is_num, num_equal, same, show, sym)
from .common import evaluator, method_or_fail

EXPLANATION = (
    'Decides from source: (R1) the constructor sends both inputs through one np.broadcast_arrays call, keeps x first/y second '
    'and unwraps to scalars exactly when the broadcast shape is (); (R2) __getitem__/__iter__/__len__ apply the same key / zip / '
    'length to x and y, rebuild a PixCoord with x staying x, and raise for scalar instances; (R3) + and − are component-wise '
    'with matching components and mutually inverse as formulas; (R4) separation = hypot(dx, dy); (R5) rotate is the rotation '
    'matrix about the centre (isometry, fixed centre; additive in the angle because it is the standard rotation); (R6) copy '
    'deep-copies both components; __eq__ is allclose on both components; (R7) to_sky/from_sky forward wcs, origin and mode '
    'unchanged to SkyCoord.from_pixel/to_pixel, x before y, with defaults origin=0, mode="all". Not decided: numpy '
    'broadcasting/indexing semantics themselves; WCS round-trip numerics.')
EXPLANATION_ADDED = (" (R8) integer components: the arithmetic methods never multiply or square possibly-integer component arrays (C01.R9's dataflow).")
EXPLANATION += EXPLANATION_ADDED
EXPLANATION_ADDED2 = (" (R1 also) an operand that the broadcast expanded is stored as a copy: the array branch stores either a copy of the broadcast result or the result itself exactly when the input's own shape equals the broadcast shape — a zero-stride view would make all repeated elements one memory cell.")
EXPLANATION += EXPLANATION_ADDED2
TRUSTED = ['np.broadcast_arrays, ndarray indexing, zip, len', 'SkyCoord.from_pixel(xp, yp, wcs, origin, mode) / SkyCoord.to_pixel']
ASSUMPTIONS = ['real arithmetic']


def _pc(ctx, name, typed=True):
    o = Obj('PixCoord', {}, name, ctx.model.cls('PixCoord'))
    o.typed = typed     # typed=False: the dynamic type is not assumed (isinstance guards stay visible)
    return o


def r1(ctx):
    m = ctx.model
    ci = m.cls('PixCoord')
    init = method_or_fail(ctx, ci, '__init__')
    ev = evaluator(ctx)
    o = Obj('PixCoord', {}, None, ci)
    X, Y = Obj('ndarray', {}, 'xin'), Obj('ndarray', {}, 'yin')
    ev.run(init, [o, X, Y], {})
    fx, fy = o.fields.get('x'), o.fields.get('y')
    probs = []

    def parts(t):
        if isinstance(t, Ite):
            c = t.cond
            if isinstance(c, Cmp) and c.op == '!=':
                return Cmp('==', c.lhs, c.rhs), t.b, t.a        # `if shape != (): array else: scalar`
            if isinstance(c, BoolT) and c.op == 'not' and isinstance(c.args[0], Cmp) and c.args[0].op == '==':
                return c.args[0], t.b, t.a
            return c, t.a, t.b
        return None, None, t
    cx, sx, ax = parts(fx)
    cy, sy, ay = parts(fy)
    bc = App('numpy.broadcast_arrays', (X, Y))
    wantx, wanty = App('getitem', (bc, sp.Integer(0))), App('getitem', (bc, sp.Integer(1)))
    def is_copy_of(t, want):
        # want.copy(), np.array(want), np.copy(want), copy.deepcopy(want)
        if isinstance(t, App) and t.name in ('copy', 'numpy.array', 'numpy.copy', 'copy.deepcopy') and t.args and same(t.args[0], want):
            return True
        if isinstance(t, App) and t.name == 'apply' and t.args and isinstance(t.args[0], App) and t.args[0].name == 'attr:copy' \
                and same(t.args[0].args[0], want):
            return True
        return False

    def owns(t, want, inp):
        """'value' when t is the broadcast result `want` by value on every path; also 'owned' when it is a copy wherever the
        input `inp` was expanded (its shape differs from the broadcast shape); None when it is something else"""
        if is_copy_of(t, want):
            return 'owned'
        if same(t, want):
            return 'value'
        if isinstance(t, Ite):
            same_shape = Cmp('==', App('numpy.shape', (inp,)), App('attr:shape', (want,)))
            c, a, b = t.cond, t.a, t.b
            if isinstance(c, Cmp) and c.op == '!=':
                c, a, b = Cmp('==', c.lhs, c.rhs), b, a
            if isinstance(c, Cmp) and c.op == '==' and (same(c, same_shape) or same(Cmp('==', c.rhs, c.lhs), same_shape)) \
                    and same(a, want) and is_copy_of(b, want):
                return 'owned'
        return None
    ox, oy = owns(ax, wantx, X), owns(ay, wanty, Y)
    if ox is None or oy is None:
        probs.append(f'array branch stores x={show(ax, 120)}, y={show(ay, 120)}; expected the two results of one '
                     'np.broadcast_arrays(x, y) call in order (or copies of them)')
    elif 'value' in (ox, oy):
        which = 'x' if ox == 'value' else 'y'
        ctx.bad('PixCoord.__init__', 'expanded-operand-shares-memory',
                f'the array branch stores the result of np.broadcast_arrays for {which} as it is: an operand that the broadcast '
                'expanded is a view with zero strides whose repeated elements are one memory cell, so PixCoord(5, [1, 2, 3]).x[0] = 9 '
                'changes every element (and writes into the caller\'s array), unlike the same assignment on a copy(); an expanded '
                'operand must be copied', init.loc())
    if cx is None or cy is None or not same(cx, cy):
        probs.append('no common scalar test for x and y')
    else:
        want_c = Cmp('==', App('attr:shape', (wantx,)), Tup(()))
        want_c2 = Cmp('==', App('attr:ndim', (wantx,)), sp.Integer(0))      # the same test: no dimensions
        if not (same(cx, want_c) or same(cx, want_c2)):
            probs.append(f'scalar test is {show(cx, 120)}, not `broadcast shape == ()`')
        if not ('attr:item' in show(sx) and same_root(sx, wantx) and 'attr:item' in show(sy) and same_root(sy, wanty)):
            probs.append(f'scalar branch stores x={show(sx, 100)}, y={show(sy, 100)}; expected x.item(), y.item()')
    if probs:
        ctx.bad('PixCoord.__init__', 'broadcast', '; '.join(probs), init.loc())
    else:
        ctx.ok('PixCoord.__init__', 'one broadcast_arrays call; scalars unwrapped iff shape == ()')


def same_root(t, root):
    return show(root, 500) in show(t, 1000)


def r2(ctx):
    m = ctx.model
    ci = m.cls('PixCoord')
    ev = evaluator(ctx)
    p = _pc(ctx, 'p')
    key = Obj('key', {}, 'key')
    f = method_or_fail(ctx, ci, '__getitem__')
    out = ev.run(f, [p, key], {})
    rv = [v for _, v in out.returns if isinstance(v, Obj)]
    G = lambda a: App('getitem', (sym(f'p.{a}'), key))
    ok = len(rv) == 1 and rv[0].cls == 'PixCoord' and same(rv[0].fields.get('x'), G('x')) and same(rv[0].fields.get('y'), G('y'))
    rs = [n for pc, n, _ in out.raises if n == 'IndexError' and 'isscalar' in show(ev.conj(pc))]
    if ok and rs:
        ctx.ok('PixCoord.__getitem__', 'PixCoord(x[key], y[key]); IndexError for scalars')
    else:
        ctx.bad('PixCoord.__getitem__', 'components',
                f'indexing gives {show(rv, 300)} (scalar guard: {bool(rs)}); expected PixCoord(x=self.x[key], y=self.y[key])',
                f.loc())
    f = method_or_fail(ctx, ci, '__len__')
    out = ev.run(f, [p], {})
    rv = [v for _, v in out.returns]
    rs = [n for pc, n, _ in out.raises if n == 'TypeError' and 'isscalar' in show(ev.conj(pc))]
    if len(rv) == 1 and same(rv[0], App('len', (sym('p.x'),))) and rs:
        ctx.ok('PixCoord.__len__', 'len(x); TypeError for scalars')
    else:
        ctx.bad('PixCoord.__len__', 'length', f'length is {show(rv, 200)} (scalar guard: {bool(rs)})', f.loc())
    f = method_or_fail(ctx, ci, '__iter__')
    fn = f.node
    loops = [s for s in fn.body if isinstance(s, ast.For)]
    good = False
    if len(loops) == 1:
        it = loops[0].iter
        tg = loops[0].target
        if isinstance(it, ast.Call) and call_name(it) == 'zip' and len(it.args) == 2 and \
                norm(it.args[0]) == 'self.x' and norm(it.args[1]) == 'self.y' and isinstance(tg, ast.Tuple) \
                and [norm(e) for e in tg.elts] == ['x', 'y']:
            ys = [n for n in ast.walk(loops[0]) if isinstance(n, ast.Yield)]
            if len(ys) == 1 and isinstance(ys[0].value, ast.Call) and call_name(ys[0].value) in ('PixCoord', 'self.__class__'):
                c = ys[0].value
                kw = {k.arg: norm(k.value) for k in c.keywords}
                pos = [norm(a) for a in c.args]
                good = (kw == {'x': 'x', 'y': 'y'} and not pos) or (pos == ['x', 'y'] and not kw)
    if good:
        ctx.ok('PixCoord.__iter__', 'yields PixCoord(x, y) over zip(self.x, self.y)')
    else:
        ctx.bad('PixCoord.__iter__', 'components', 'iteration does not pair x with x and y with y over zip(self.x, self.y)',
                f.loc())


def r3(ctx):
    m = ctx.model
    ci = m.cls('PixCoord')
    ev = evaluator(ctx)
    p, q = _pc(ctx, 'p'), _pc(ctx, 'q', typed=False)
    res = {}
    for name, op in (('__add__', 1), ('__sub__', -1)):
        f = method_or_fail(ctx, ci, name)
        out = ev.run(f, [p, q], {})
        rv = [v for _, v in out.returns if isinstance(v, Obj) and v.cls == 'PixCoord']
        wx, wy = sym('p.x') + op * sym('q.x'), sym('p.y') + op * sym('q.y')
        ok = len(rv) == 1 and is_num(rv[0].fields.get('x')) and num_equal(rv[0].fields['x'], wx) \
            and is_num(rv[0].fields.get('y')) and num_equal(rv[0].fields['y'], wy)
        rs = any(n == 'TypeError' for pc, n, _ in out.raises)
        if ok and rs:
            ctx.ok(f'PixCoord.{name}', 'component-wise; TypeError for non-PixCoord')
        else:
            ctx.bad(f'PixCoord.{name}', 'components', f'result is {show(rv, 200)}; expected ({wx}, {wy})', f.loc())


def r4(ctx):
    m = ctx.model
    ci = m.cls('PixCoord')
    ev = evaluator(ctx)
    f = method_or_fail(ctx, ci, 'separation')
    t = ev.call(f, [_pc(ctx, 'p'), _pc(ctx, 'q')], {})
    want = sp.sqrt((sym('q.x') - sym('p.x')) ** 2 + (sym('q.y') - sym('p.y')) ** 2)
    if is_num(t) and num_equal(t ** 2, want ** 2) and isinstance(t, sp.Pow):
        ctx.ok('PixCoord.separation', 'hypot(dx, dy)')
    else:
        ctx.bad('PixCoord.separation', 'euclidean', f'separation is {show(t, 200)}, not the Euclidean distance', f.loc())


def r5(ctx):
    from .c15 import r1 as c15r1
    c15r1(ctx)


def r6(ctx):
    m = ctx.model
    ci = m.cls('PixCoord')
    f = method_or_fail(ctx, ci, 'copy')
    ret = [n for n in ast.walk(f.node) if isinstance(n, ast.Return)]
    ok = False
    if len(ret) == 1 and isinstance(ret[0].value, ast.Call) and call_name(ret[0].value) in ('self.__class__', 'PixCoord'):
        a = ret[0].value.args
        kws = {k.arg: k.value for k in ret[0].value.keywords}
        xs = a[0] if a else kws.get('x')
        ys = a[1] if len(a) > 1 else kws.get('y')

        def local(e):
            # a local bound once (x_copy = copy.deepcopy(self.x)) stands for its value
            if isinstance(e, ast.Name):
                vs = [st.value for st in ast.walk(f.node) if isinstance(st, ast.Assign) and len(st.targets) == 1
                      and isinstance(st.targets[0], ast.Name) and st.targets[0].id == e.id]
                if len(vs) == 1:
                    return vs[0]
            return e
        xs, ys = local(xs), local(ys)
        def deep(e, attr):
            return isinstance(e, ast.Call) and (call_name(e) or '').split('.')[-1] == 'deepcopy' and \
                norm(e.args[0]) == f'self.{attr}'
        ok = xs is not None and ys is not None and deep(xs, 'x') and deep(ys, 'y')
    if ok:
        ctx.ok('PixCoord.copy', 'deep copies of x and y, x first')
    else:
        ctx.bad('PixCoord.copy', 'deep', 'copy() does not rebuild from deepcopy(self.x), deepcopy(self.y)', f.loc())
    f = method_or_fail(ctx, ci, '__eq__')
    ev = evaluator(ctx)
    out = ev.run(f, [_pc(ctx, 'p'), _pc(ctx, 'q', typed=False)], {})
    A = Tup((sym('p.x'), sym('p.y')), 'list')
    B = Tup((sym('q.x'), sym('q.y')), 'list')
    fwd, bwd = App('numpy.allclose', (A, B)), App('numpy.allclose', (B, A))
    probs = []
    closeness = [(pc, v) for pc, v in out.returns if not isinstance(v, Const)]
    falses = [(pc, v) for pc, v in out.returns if isinstance(v, Const) and v.v is False]
    if not falses or any(isinstance(v, Const) and v.v is True for _, v in out.returns):
        probs.append('no False return for other types / an unconditional True')
    if len(closeness) != 1:
        probs.append(f'{len(closeness)} closeness returns')
    else:
        pc, v = closeness[0]
        terms = list(v.args) if isinstance(v, BoolT) and v.op == 'and' else [v]
        terms = [t.args[0] if isinstance(t, BoolT) and t.op == 'truthy' else t for t in terms]
        if not all(same(t, fwd) or same(t, bwd) for t in terms) or not terms:
            probs.append(f'equality is {show(v, 200)}, not np.allclose on [x, y] of both')
        elif not (any(same(t, fwd) for t in terms) and any(same(t, bwd) for t in terms)):
            probs.append('the tolerance test np.allclose(a, b) is |a-b| <= atol + rtol*|b|, not symmetric in its arguments: '
                         'p == q and q == p can differ at the tolerance edge (PixCoord(100000, 5) vs PixCoord(100001.00001, 5)); '
                         'both orders must hold')
        guard = show(ev.conj(pc), 600)
        if 'numpy.shape' not in guard and '.shape' not in guard:
            probs.append('no shape test guards the comparison: coordinate arrays of different length either broadcast '
                         '(a 1-vertex polygon equals one with 3 identical vertices) or raise ValueError instead of comparing '
                         'unequal')
    if probs:
        ctx.bad('PixCoord.__eq__', 'allclose', '; '.join(probs), f.loc())
    else:
        ctx.ok('PixCoord.__eq__', 'False for other types and other shapes; np.allclose([x, y], [x\', y\']) in both orders')


def r7(ctx):
    m = ctx.model
    ci = m.cls('PixCoord')
    ev = evaluator(ctx)
    p = _pc(ctx, 'p')
    f = method_or_fail(ctx, ci, 'to_sky')
    w, o, md = Obj('WCS', {}, 'wcs'), sym('origin'), Obj('str', {}, 'mode')
    t = ev.call(f, [p, w], {'origin': o, 'mode': md})
    ok = isinstance(t, App) and t.name.endswith('SkyCoord.from_pixel')
    if ok:
        kw = {a.items[0].v: a.items[1] for a in t.args if isinstance(a, Tup) and len(a.items) == 2 and isinstance(a.items[0], Const)}
        pos = [a for a in t.args if not (isinstance(a, Tup) and len(a.items) == 2 and isinstance(a.items[0], Const))]
        names = ['xp', 'yp', 'wcs', 'origin', 'mode']
        for nm, v in zip(names, pos):
            kw.setdefault(nm, v)
        ok = same(kw.get('xp'), sym('p.x')) and same(kw.get('yp'), sym('p.y')) and same(kw.get('wcs'), w) \
            and same(kw.get('origin'), o) and same(kw.get('mode'), md)
    if ok:
        ctx.ok('PixCoord.to_sky', 'SkyCoord.from_pixel(x, y, wcs, origin, mode) forwarded unchanged')
    else:
        ctx.bad('PixCoord.to_sky', 'forwarding', f'to_sky is {show(t, 300)}', f.loc())
    f = method_or_fail(ctx, ci, 'from_sky')
    from ..vg import ClassRef
    sc = Obj('SkyCoord', {}, 'skycoord')
    t = ev.call(f, [ClassRef(ci, ci.name), sc, w], {'origin': o, 'mode': md})
    txt = show(t, 800)
    ok = isinstance(t, Obj) and t.cls == 'PixCoord'
    if ok:
        gx, gy = t.fields.get('x'), t.fields.get('y')
        ok = isinstance(gx, App) and gx.name == 'getitem' and gx.args[1] == 0 and isinstance(gy, App) and gy.args[1] == 1 \
            and same(gx.args[0], gy.args[0])
        call = gx.args[0] if ok else None
        if ok:
            ct = show(call, 600)
            ok = 'attr:to_pixel(skycoord)' in ct and "['wcs', wcs]" in ct and "['origin', origin]" in ct and "['mode', mode]" in ct
    if ok:
        ctx.ok('PixCoord.from_sky', 'skycoord.to_pixel(wcs, origin, mode) forwarded; x before y')
    else:
        ctx.bad('PixCoord.from_sky', 'forwarding', f'from_sky is {txt[:300]}', f.loc())
    # defaults
    mi = m.modules['regions.core.pixcoord']
    from ..astutil import param_default
    dflt_ok = True
    for fn in ('to_sky', 'from_sky'):
        g = m.method(ci, fn)
        for par, cname, want in (('origin', '_DEFAULT_WCS_ORIGIN', 0), ('mode', '_DEFAULT_WCS_MODE', 'all')):
            d = param_default(g.node, par)
            val = None
            if isinstance(d, ast.Constant):
                val = d.value
            elif isinstance(d, ast.Name) and d.id in mi.assigns:
                v = mi.assigns[d.id][0].value
                val = v.value if isinstance(v, ast.Constant) else None
            if val != want:
                dflt_ok = False
    if dflt_ok:
        ctx.ok('PixCoord WCS defaults', 'origin=0, mode="all" in both directions')
    else:
        ctx.bad('PixCoord WCS defaults', 'defaults', 'to_sky/from_sky defaults for origin/mode differ from 0/"all"', f.loc())


def r8(ctx):
    """integer components: PixCoord keeps the dtype it is given, so its arithmetic must not multiply or square values that
    may be integer arrays (they wrap around silently) — the may-be-integer dataflow of C01.R9 over the arithmetic methods."""
    from .c01 import _DtypeLint
    m = ctx.model
    ci = m.cls('PixCoord')
    n = 0
    for name in ('separation', 'rotate', '__add__', '__sub__', '__eq__'):
        f = ci.methods.get(name)
        if f is None:
            continue
        n += 1
        # + and - are the component-wise operations in the dtype the user gave (that is their meaning); a distance and
        # a rotated position are real-number results, so there the offsets themselves must already be floating
        lint = _DtypeLint(ctx, m, sums=name in ('separation', 'rotate'))
        before = len(lint.problems)
        lint.fn(f, ['scalar'] * len(f.node.args.args))
        new = lint.problems[before:]
        if new:
            fi, node, text = new[0]
            ctx.bad(f'PixCoord.{name}', 'integer-overflow',
                    f'{text}: for integer-typed coordinates the product wraps around silently (int32: values >= 46341), so the '
                    'result is not the real-number result; convert to float first (np.hypot, a float factor, dtype=float)',
                    fi.loc(node))
        else:
            ctx.ok(f'PixCoord.{name}', 'no product/power of possibly-integer component arrays')
    ctx.need(n >= 3, 'PixCoord arithmetic methods', f'only {n} found')


RULES = [
    RuleDef('R1', 'constructor broadcasts once and unwraps scalars', r1, 1),
    RuleDef('R2', 'indexing / iteration / length act on x and y alike', r2, 3),
    RuleDef('R3', '+ and − component-wise', r3, 2),
    RuleDef('R4', 'separation is the Euclidean distance', r4, 1),
    RuleDef('R5', 'rotate is the rotation matrix about the centre', r5, 1),
    RuleDef('R6', 'copy is deep; equality is allclose on both components', r6, 2),
    RuleDef('R7', 'to_sky/from_sky forward wcs, origin, mode', r7, 3),
    RuleDef('R8', 'integer components: no product/power of possibly-integer arrays in the arithmetic methods', r8, 3),
]
