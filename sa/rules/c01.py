"""C01 — point membership equals the geometric definition (formula level)."""
import ast

import sympy as sp

from ..astutil import dotted, func_params, norm
from ..report import RuleDef
from ..src import AnalysisError
from ..vg import (App, BoolT, Cmp, Const, Evaluator, Frame, Ite, Obj, Tup,
                  contains_unknown, is_num, mk_not, num_equal, pred_equiv, same,
                  show, simp_bool, subst_bool, sym, truthy, _key)
from .common import (conj_list, evaluator, inc_atom, is_negation, mentions,
                     method_or_fail, need_known, pixq, split_include)

EXPLANATION = (
    'Decides from source, for every centre/size/angle/unit at once: (R1) the membership '
    'predicates of circle, ellipse and rectangle `contains` are algebraically the '
    'disk / rotated-ellipse / rotated-box predicates (normal-form equality modulo '
    'cos^2+sin^2=1); (R2) the polygon kernel pairs each vertex with a cyclic neighbour, '
    'uses the even-odd crossing predicate, counts by 1 and returns the parity, and '
    '`contains` hands it (x, y, vx, vy) in that order; (R3) point/line bodies yield '
    'constant False of the query shape; (R4) every `contains` body returns V xor '
    'not(include) (truth table), and every concrete pixel class resolves to such a body; '
    '(R5) annuli are outer-and-not-inner complemented once (truth table under inner=>outer); '
    '(R6) rank-promoted query data are restored to the query shape; (R7) `in` refuses '
    'non-scalar coordinates before calling contains. Not decided: floating-point '
    'behaviour at the boundary (strictness differences are only noted), numpy '
    'broadcasting, the compiled kernel vs its .pyx source.')
EXPLANATION_ADDED = (" (R9) integer positions: a may-be-integer dataflow over every contains() and its repository callees (coordinate components keep the caller's dtype; true division, trigonometry, hypot, float literals and float dtypes promote) finds no product or power of two possibly-integer coordinate arrays, which would wrap around silently.")
EXPLANATION += EXPLANATION_ADDED
EXPLANATION_ADDED2 = (' (R8) the geometry read by contains() is recomputed from the current parameters: no value computed in a constructor (or stored by an earlier call) and read later stands in for a parameter that can be reassigned (effect analysis on the constructors + evaluation clause: an attribute assigned after construction is the one read).')
EXPLANATION += EXPLANATION_ADDED2
EXPLANATION_ADDED3 = (" (R8, memo analysis shared with C02.R8, C03.R7, C04.R6, C08.R7) a getter that stores into the instance (self.K = v, self.__dict__[K] = v, setattr, @lazyproperty/@cached_property) is reported when no parameter writer drops the entry (compute-once memo), when some writers drop it and another does not (naming the one that does not), or when the entry is validated against a key that omits an instance attribute the remembered value reads; it is accepted when every writer (each parameter descriptor's __set__ through its super() chain and helpers, or the class's __setattr__) drops the entry on every path and the remembered value reads only by-value parameters (scalars, quantities: C17.R9); anything else (conditional drops, by-reference reads, complete keys) is not decided (exit 2).")
EXPLANATION += EXPLANATION_ADDED3
TRUSTED = ['np.cos/np.sin of an angle Quantity are cos/sin of the angle', 'np.hypot(a,b)=sqrt(a^2+b^2)',
           'np.abs, np.logical_not, &, ~ on boolean arrays are element-wise',
           'np.zeros(shape, dtype=bool) is all False', 'the .so kernels were built from the .pyx analysed']
ASSUMPTIONS = ['real arithmetic (no rounding)', 'external calls are pure']


def _sel(ctx, cname):
    ci = ctx.model.cls(cname)
    ev = evaluator(ctx)
    return ci, ev, ev.symbolic_instance(ci)


def _contains_term(ctx, cname, q=None):
    ci, ev, s = _sel(ctx, cname)
    f = method_or_fail(ctx, ci, 'contains')
    q = q or pixq(ctx)
    return ci, f, ev.call(f, [s, q], {})


def circle_oracle(cx, cy, r, qx, qy):
    return Cmp('<', sp.sqrt((qx - cx) ** 2 + (qy - cy) ** 2), r)


def ellipse_oracle(cx, cy, w, h, th, qx, qy):
    c, s = sp.cos(th), sp.sin(th)
    dx, dy = qx - cx, qy - cy
    return Cmp('<', ((dx * c + dy * s) / (w / 2)) ** 2 + ((-dx * s + dy * c) / (h / 2)) ** 2,
               sp.Integer(1))


def rect_oracle(cx, cy, w, h, th, qx, qy):
    c, s = sp.cos(th), sp.sin(th)
    dx, dy = qx - cx, qy - cy
    return [Cmp('<', sp.Abs(dx * c + dy * s), w / 2), Cmp('<', sp.Abs(-dx * s + dy * c), h / 2)]


def _S(n, pos=False):
    return sym(n, positive=pos)


def shape_oracle(kind, pre='self', wname='width', hname='height', rname='radius'):
    qx, qy = _S('q.x'), _S('q.y')
    cx, cy = _S(f'{pre}.center.x'), _S(f'{pre}.center.y')
    if kind == 'circle':
        return [circle_oracle(cx, cy, _S(f'{pre}.{rname}', True), qx, qy)]
    th = _S(f'{pre}.angle')
    w, h = _S(f'{pre}.{wname}', True), _S(f'{pre}.{hname}', True)
    if kind == 'ellipse':
        return [ellipse_oracle(cx, cy, w, h, th, qx, qy)]
    return rect_oracle(cx, cy, w, h, th, qx, qy)


def compare_pred(ctx, construct, v, oracle, loc):
    """v: term; oracle: list of Cmp (conjunction). Records ok/bad."""
    need_known(ctx, v, construct)
    got = conj_list(v)
    if len(got) != len(oracle) or not all(isinstance(g, Cmp) for g in got):
        ctx.bad(construct, 'membership-form',
                f'membership value is not a conjunction of {len(oracle)} inequalities: {show(v, 200)}', loc)
        return
    notes = []
    used = set()
    for o in oracle:
        hit = None
        for i, g in enumerate(got):
            if i in used:
                continue
            r = pred_equiv(g, o)
            if r in ('eq', 'strictness'):
                hit = (i, r)
                break
            if r == 'unknown':
                raise AnalysisError(f'{ctx.prop}.{ctx._rule}', construct, 'predicate not comparable')
        if hit is None:
            ctx.bad(construct, 'membership-formula',
                    f'membership predicate differs from the geometric definition: expected {show(o, 160)}; '
                    f'source gives {show(v, 260)}', loc,
                    {'expected': show(o), 'got': show(v)})
            return
        used.add(hit[0])
        if hit[1] == 'strictness':
            notes.append('boundary strictness differs from the oracle (noted, C01 exempts the boundary)')
    ctx.ok(construct, '; '.join(notes) or 'normal forms agree')


def r1(ctx):
    inc = inc_atom()
    for cname, kind in (('CirclePixelRegion', 'circle'), ('EllipsePixelRegion', 'ellipse'),
                        ('RectanglePixelRegion', 'rect')):
        ci, f, t = _contains_term(ctx, cname)
        v, _ = split_include(t, inc)
        compare_pred(ctx, f'{cname}.contains', v, shape_oracle(kind), f.loc())


def r2(ctx):
    m = ctx.model
    mod = m.modules.get('regions._geometry.pnpoly')
    ctx.need(mod is not None and 'point_in_polygon' in mod.functions, 'pnpoly.pyx:point_in_polygon',
             'kernel not found')
    fi = mod.functions['point_in_polygon']
    fn = fi.node
    loops = [s for s in fn.body if isinstance(s, ast.For)]
    ctx.need(len(loops) == 1, fi.qualname, 'expected exactly one vertex loop')
    lp = loops[0]
    ctx.need(isinstance(lp.target, ast.Name) and ast.unparse(lp.iter).replace(' ', '') in ('range(n)',),
             fi.qualname, 'vertex loop is not `for i in range(n)`')
    ev = Evaluator(m)
    i, n = sp.Symbol('i', integer=True), sp.Symbol('n', integer=True, positive=True)
    x, y, vx, vy = _S('x'), _S('y'), _S('vx'), _S('vy')
    res0 = sp.Symbol('result', integer=True)
    env = {'x': x, 'y': y, 'vx': vx, 'vy': vy, 'n': n, 'i': i, 'result': res0}
    fr = Frame(fi, None, 0)
    ev.block(lp.body, env, [], fr)
    j = env.get('j')
    ctx.need(is_num(j), fi.qualname, 'neighbour index j not understood')
    # cyclic neighbour: j = (i +/- 1) mod n
    ok_j = False
    if isinstance(j, sp.Mod) and j.args[1] == n:
        d = sp.expand(j.args[0] - i)
        for k in (1, -1):
            q = sp.simplify((d - k) / n)
            if q.is_integer and q.is_number:
                ok_j = True
    G = sp.Function('getitem')
    vxi, vyi, vxj, vyj = G(vx, i), G(vy, i), G(vx, j), G(vy, j)
    cross = Cmp('<', x, (vxj - vxi) * (y - vyi) / (vyj - vyi) + vxi)
    strad = Cmp('!=', Cmp('<', y, vyi), Cmp('<', y, vyj))
    res = env.get('result')
    good = ok_j
    why = '' if ok_j else f'neighbour index {j} is not (i±1) mod n; '
    if isinstance(res, Ite) and num_equal(res.a, res0 + 1) and same(res.b, res0):
        cs = conj_list(res.cond)
        c_ok = len(cs) == 2 and any(same(c, strad) or same(c, Cmp('!=', strad.rhs, strad.lhs)) for c in cs) \
            and any(isinstance(c, Cmp) and pred_equiv(c, cross) == 'eq' for c in cs)
        if not c_ok:
            good = False
            why += f'crossing predicate is {show(res.cond, 300)}; '
    else:
        good = False
        why += f'counter update is {show(res, 200)}, not +1 under the crossing predicate; '
    rets = [s for s in fn.body if isinstance(s, ast.Return)]
    if not (len(rets) == 1 and ast.unparse(rets[0].value).replace(' ', '') == 'result%2'):
        good = False
        why += 'result is not the parity of the count; '
    inits = [s for s in fn.body if isinstance(s, ast.Assign) and ast.unparse(s.targets[0]) == 'result']
    if not (inits and ast.unparse(inits[0].value) == '0'):
        good = False
        why += 'counter not initialised to 0; '
    if good:
        ctx.ok('pnpoly.pyx:point_in_polygon', 'cyclic neighbour, even-odd crossing predicate, parity')
    else:
        ctx.bad('pnpoly.pyx:point_in_polygon', 'even-odd', why, fi.loc(lp))
    # wrapper maps element-wise and the region passes (x, y, vx, vy)
    ci, f, t = _contains_term(ctx, 'PolygonPixelRegion')
    calls = _find_apps(t, 'call:points_in_polygon')
    ctx.need(calls, 'PolygonPixelRegion.contains', 'kernel call not found in the returned value')
    a = calls[0].args
    want = ['q.x', 'q.y', 'self.vertices.x', 'self.vertices.y']
    got_ok = len(a) >= 4 and all(_mentions_sym(a[k], want[k]) and
                                 not any(_mentions_sym(a[k], w) for w in want if w != want[k])
                                 for k in range(4))
    if got_ok:
        ctx.ok('PolygonPixelRegion.contains:kernel-args', '(x, y, vx, vy) in order')
    else:
        ctx.bad('PolygonPixelRegion.contains', 'kernel-args',
                f'points_in_polygon does not receive (query x, query y, vertex x, vertex y): {show(calls[0], 300)}',
                f.loc())


def _find_apps(t, name, out=None):
    out = [] if out is None else out
    if isinstance(t, App):
        if t.name == name or t.name.endswith(name):
            out.append(t)
        for a in t.args:
            _find_apps(a, name, out)
    elif isinstance(t, (Ite,)):
        for a in (t.cond, t.a, t.b):
            _find_apps(a, name, out)
    elif isinstance(t, BoolT):
        for a in t.args:
            _find_apps(a, name, out)
    elif isinstance(t, Cmp):
        _find_apps(t.lhs, name, out); _find_apps(t.rhs, name, out)
    elif isinstance(t, Tup):
        for a in t.items:
            _find_apps(a, name, out)
    return out


def _mentions_sym(t, name):
    from ..vg import mentions_name
    return mentions_name(t, name)


def _const_false_of_shape(v, q='q.'):
    if isinstance(v, Const) and v.v is False:
        return True
    if isinstance(v, App) and v.name.split('.')[-1] in ('zeros', 'zeros_like') and (_mentions_sym(v, q) or f'({q})' in show(v, 400)):
        return True
    if isinstance(v, Ite):
        return _const_false_of_shape(v.a, q) and _const_false_of_shape(v.b, q)
    return False


def r3(ctx):
    inc = inc_atom()
    for cname in ('PointPixelRegion', 'LinePixelRegion'):
        ci, f, t = _contains_term(ctx, cname)
        v, _ = split_include(t, inc)
        need_known(ctx, v, f'{cname}.contains')
        scalar_ok = isinstance(v, Ite) and isinstance(v.a, Const) and 'isscalar' in show(v.cond)
        if _const_false_of_shape(v) and (scalar_ok or isinstance(v, Const)):
            ctx.ok(f'{cname}.contains', 'constant False of the query shape')
        else:
            ctx.bad(f'{cname}.contains', 'not-empty',
                    f'membership value is not constant False of the query shape: {show(v, 240)}', f.loc())
    for cname in ('PointSkyRegion', 'LineSkyRegion'):
        ci = ctx.model.cls(cname)
        ev = evaluator(ctx)
        f = method_or_fail(ctx, ci, 'contains')
        t = ev.call(f, [ev.symbolic_instance(ci), Obj('SkyCoord', {}, 'sc'), Obj('WCS', {}, 'wcs')], {})
        v, _ = split_include(truthy(t) if not isinstance(t, (Cmp, BoolT, Const, Ite)) else t, inc)
        scalar_ok = isinstance(v, Ite) and isinstance(v.a, Const) and 'isscalar' in show(v.cond)
        if _const_false_of_shape(v, 'sc') and scalar_ok:
            ctx.ok(f'{cname}.contains', 'constant False of the query shape')
        elif isinstance(v, Const) and v.v is False:
            # nothing is contained, but the answer is one scalar whatever is asked: the shape clause is decided (and
            # reported) by C06.R4, which compares with the pixel image's answer
            ctx.ok(f'{cname}.contains', 'constant False (answer shape: see C06.R4)')
        else:
            ctx.bad(f'{cname}.contains', 'not-empty', f'sky membership is {show(v, 200)}, not constant False', f.loc())


def epilogue_bodies(ctx):
    """(class, FuncInfo) for every class that defines its own contains body."""
    out = []
    for ci in ctx.model.subclasses('Region'):
        f = ci.methods.get('contains')
        if f is None or f.is_abstract:
            continue
        # SkyRegion.contains delegates to the pixel image (C06.R4)
        if ci.name in ('SkyRegion',):
            continue
        out.append((ci, f))
    return sorted(out, key=lambda p: p[0].name)


def r4(ctx):
    inc = inc_atom()
    m = ctx.model
    bodies = epilogue_bodies(ctx)
    checked = set()
    for ci, f in bodies:
        ev = evaluator(ctx)
        s = ev.symbolic_instance(ci)
        if m.is_subclass(ci, 'PixelRegion'):
            args = [s, pixq(ctx)]
        else:
            args = [s, Obj('SkyCoord', {}, 'sc'), Obj('WCS', {}, 'wcs')]
        construct = f'{ci.name}.contains'
        if m.is_abstract(ci) and ci.name == 'AnnulusPixelRegion':
            # delegation: contains == self._compound_region.contains; decided by R5 per concrete class
            src = ast.unparse(f.node.body[-1])
            if src.replace(' ', '') == 'returnself._compound_region.contains(pixcoord)':
                ctx.ok(construct, 'delegates to the xor-compound (epilogue decided there, R5)')
                checked.add(f.qualname)
            else:
                ctx.bad(construct, 'delegation', 'annulus contains no longer delegates to _compound_region', f.loc())
            continue
        t = ev.call(f, args, {})
        if not isinstance(t, (Cmp, BoolT, Const, Ite)):
            t = truthy(t)
        if not mentions(t, inc):
            ctx.bad(construct, 'include-ignored',
                    'the returned value does not depend on the truthiness of meta.get("include", True) '
                    f'(excluded regions answer like included ones): {show(t, 200)}', f.loc())
            continue
        v, w = split_include(t, inc)
        if mentions(v, inc.args[0]) or mentions(w, inc.args[0]):
            ctx.bad(construct, 'include-test',
                    'the include flag is tested other than by truthiness (documented values 0/1/False/True)',
                    f.loc())
            continue
        if is_negation(w, v):
            ctx.ok(construct, 'returns V when included, not V when excluded')
            checked.add(f.qualname)
        else:
            ctx.bad(construct, 'include-epilogue',
                    f'excluded answer is not the complement of the included answer: included -> {show(v, 160)}; '
                    f'excluded -> {show(w, 160)}', f.loc())
    # exhaustiveness: every concrete pixel class resolves to a checked body
    for ci in m.region_classes('pixel'):
        f = m.method(ci, 'contains')
        if f is None or f.is_abstract:
            ctx.bad(f'{ci.name}.contains', 'missing', 'concrete pixel class without contains', ci.path)
        elif f.qualname in checked or any(f is b for _, b in bodies):
            ctx.ok(f'{ci.name} -> {f.qualname.split(":")[1]}', 'resolves to a checked body')
        else:
            ctx.bad(f'{ci.name}.contains', 'unchecked-body', 'resolves to an unanalysed contains body', f.loc())


def r5(ctx):
    m = ctx.model
    inc = inc_atom()
    spec = {'CircleAnnulusPixelRegion': ('circle', dict(rname='inner_radius'), dict(rname='outer_radius')),
            'EllipseAnnulusPixelRegion': ('ellipse', dict(wname='inner_width', hname='inner_height'),
                                          dict(wname='outer_width', hname='outer_height')),
            'RectangleAnnulusPixelRegion': ('rect', dict(wname='inner_width', hname='inner_height'),
                                            dict(wname='outer_width', hname='outer_height'))}
    anns = [c for c in m.region_classes('pixel') if m.is_subclass(c, 'AnnulusPixelRegion')]
    ctx.need(len(anns) >= 3, 'annulus classes', f'only {len(anns)} annulus classes found')
    for ci in anns:
        construct = f'{ci.name}.contains'
        ctx.need(ci.name in spec, construct, 'unknown annulus class (extend the oracle table)')
        kind, ikw, okw = spec[ci.name]
        ev = evaluator(ctx)
        s = ev.symbolic_instance(ci)
        q = pixq(ctx)
        f = method_or_fail(ctx, ci, 'contains')
        t = ev.call(f, [s, q], {})
        need_known(ctx, t, construct)
        # component membership values
        comp = {}
        for role, prop in (('inner', '_inner_region'), ('outer', '_outer_region')):
            pf = method_or_fail(ctx, ci, prop)
            reg = ev.call(pf, [s], {})
            ctx.need(isinstance(reg, Obj) and reg.ci is not None, f'{ci.name}.{prop}', 'component not constructed')
            cf = method_or_fail(ctx, reg.ci, 'contains')
            ct = ev.call(cf, [reg, q], {})
            v, _ = split_include(ct, inc)
            comp[role] = v
        # components are the component-shape predicates on the inner / outer sizes
        ok = True
        for role, kw in (('inner', ikw), ('outer', okw)):
            orc = shape_oracle(kind, **kw)
            got = conj_list(comp[role])
            if any(isinstance(g, Cmp) and all(pred_equiv(g, o) == 'unknown' for o in orc) for g in got):
                raise AnalysisError(f'{ctx.prop}.R5', construct, f'{role} component predicate not comparable: '
                                    + show(comp[role], 200))
            if len(got) != len(orc) or not all(isinstance(g, Cmp) and any(
                    pred_equiv(g, o) in ('eq', 'strictness') for o in orc) for g in got):
                ctx.bad(construct, f'{role}-component',
                        f'{role} component is not the {kind} predicate on the {role}_* sizes with the '
                        f'annulus centre/angle: {show(comp[role], 260)}', f.loc())
                ok = False
        if not ok:
            continue
        A, B = comp['inner'], comp['outer']
        bad_rows = []
        for i in (True, False):
            for a, b in ((True, True), (False, True), (False, False)):
                r = subst_bool(subst_bool(subst_bool(t, inc, i), A, a), B, b)
                r = simp_bool(r)
                want = (b and not a) != (not i)
                if not (isinstance(r, Const) and isinstance(r.v, bool)):
                    raise AnalysisError(f'{ctx.prop}.R5', construct,
                                        f'truth-table row does not reduce to a constant: {show(r, 200)}')
                if r.v != want:
                    bad_rows.append((i, a, b, r.v, want))
        if bad_rows:
            ctx.bad(construct, 'annulus-algebra',
                    'annulus membership is not (outer and not inner) complemented once by the include flag; '
                    f'rows (include, inner, outer, got, want): {bad_rows}', f.loc())
        else:
            ctx.ok(construct, '6 truth-table rows agree with (outer & ~inner) xor ~include')


RANK_CHANGERS = ('atleast_1d', 'atleast_2d', 'ravel', 'flatten', 'squeeze')


def r6(ctx):
    inc = inc_atom()
    for ci, f in epilogue_bodies(ctx):
        if not ctx.model.is_subclass(ci, 'PixelRegion') or ctx.model.is_abstract(ci):
            continue
        construct = f'{ci.name}.contains'
        ev = evaluator(ctx)
        t = ev.call(f, [ev.symbolic_instance(ci), pixq(ctx)], {})
        v, _ = split_include(t, inc) if isinstance(t, (Ite, BoolT, Cmp, Const)) else (t, None)
        # element correspondence: flatten / un-flatten must use the same (C) order
        hazard = None
        for a in _find_apps(v, 'apply'):
            if a.args and isinstance(a.args[0], App) and a.args[0].name in (
                    'attr:ravel', 'attr:flatten', 'attr:reshape', 'attr:transpose', 'attr:swapaxes'):
                for x in a.args[1:]:
                    if isinstance(x, Tup) and len(x.items) == 2 and isinstance(x.items[0], Const) \
                            and x.items[0].v == 'order' and not (isinstance(x.items[1], Const) and x.items[1].v == 'C'):
                        hazard = (a.args[0].name[5:], show(x.items[1]))
        if hazard:
            ctx.bad(construct, 'element-order',
                    f'`{hazard[0]}(order={hazard[1]})` flattens the query in an order other than the C order the result '
                    'is reshaped with: answers land at the wrong positions for non-C-contiguous query arrays', f.loc())
            continue
        promoted = [a for n in RANK_CHANGERS for a in _find_apps(v, n)
                    if _mentions_sym(a, 'q.') and n.startswith('atleast')]
        if not promoted:
            ctx.ok(construct, 'no rank promotion of the query')
            continue
        # accepted idioms: scalar guard on the query, or reshape to a shape read from the un-promoted query
        ok = False
        if isinstance(v, Ite) and 'isscalar' in show(v.cond, 2000) and (
                _find_apps(v.a, 'getitem') or _find_apps(v.a, 'attr:item') or
                any(isinstance(x, sp.Basic) for x in [v.a])):
            ok = True
        resh = [a for a in _find_apps(v, 'apply') if a.args and isinstance(a.args[0], App)
                and a.args[0].name == 'attr:reshape']
        if resh and not any(_find_apps(x, n) for r in resh for x in r.args[1:] for n in RANK_CHANGERS):
            ok = True
        if ok:
            ctx.ok(construct, 'promotion undone (scalar guard / reshape to the query shape)')
        else:
            ctx.bad(construct, 'shape-lost',
                    'the query is promoted with atleast_1d and the result is reshaped to the *promoted* '
                    'shape: a scalar query returns a length-1 array, not a plain bool', f.loc(),
                    {'value': show(v, 400)})


def r7(ctx):
    m = ctx.model
    ci = m.cls('PixelRegion')
    f = method_or_fail(ctx, ci, '__contains__')
    ev = evaluator(ctx)
    s = ev.symbolic_instance(m.cls('CirclePixelRegion'))
    out = ev.run(f, [s, pixq(ctx, 'coord')], {})
    raises = [(pc, n) for pc, n, _ in out.raises if n == 'ValueError']
    guard = None
    for pc, n in raises:
        if len(pc) == 1 and 'isscalar' in show(pc[0]):
            guard = pc[0]
    rets = out.returns
    ok = guard is not None and rets and all(any(same(p, mk_not(guard)) for p in pc) for pc, _ in rets) \
        and all(_find_apps(v, 'isscalar') or True for _, v in rets)
    # the guard must be "not scalar" -> raise
    if ok and same(guard, mk_not(truthy(App('isscalar', (sym('coord.x'),))))):
        ctx.ok('PixelRegion.__contains__', 'non-scalar -> ValueError dominates contains()')
    else:
        ctx.bad('PixelRegion.__contains__', 'scalar-guard',
                '`in` does not raise ValueError for non-scalar coordinates before calling contains', f.loc())


GEOMETRY_METHODS = ('contains', 'bounding_box', 'to_mask', 'area', 'as_artist', 'to_sky', 'rotate', 'to_polygon')


MEMOISERS = ('lazyproperty', 'cached_property', 'lru_cache', 'cache', 'classproperty_cached')


def _self_store_key(n, selfname='self'):
    """(key, how) when statement/expression `n` stores into the instance named `selfname` — `self.K = v`, `self.__dict__[K] = v`,
    `vars(self)[K] = v`, `self.__dict__.setdefault(K, v)`, `setattr(self, K, v)`, `object.__setattr__(self, K, v)`; key None when
    the name is computed."""
    def is_self(e):
        return isinstance(e, ast.Name) and e.id == selfname

    def is_dict(e):
        return (isinstance(e, ast.Attribute) and e.attr == '__dict__' and is_self(e.value)) or \
               (isinstance(e, ast.Call) and isinstance(e.func, ast.Name) and e.func.id == 'vars' and len(e.args) == 1 and is_self(e.args[0]))

    def const(e):
        return e.value if isinstance(e, ast.Constant) and isinstance(e.value, str) else None
    out = []
    if isinstance(n, (ast.Assign, ast.AugAssign, ast.AnnAssign)):
        todo = list(n.targets) if isinstance(n, ast.Assign) else [n.target]
        while todo:
            t = todo.pop()
            if isinstance(t, (ast.Tuple, ast.List)):
                todo.extend(t.elts)
            elif isinstance(t, ast.Attribute) and is_self(t.value):
                out.append((t.attr, f'self.{t.attr}'))
            elif isinstance(t, ast.Subscript) and is_dict(t.value):
                out.append((const(t.slice), f'{ast.unparse(t.value)}[{ast.unparse(t.slice)}]'))
    elif isinstance(n, ast.NamedExpr):
        pass
    elif isinstance(n, ast.Call):
        f = n.func
        if isinstance(f, ast.Attribute) and f.attr in ('setdefault', '__setitem__') and is_dict(f.value) and n.args:
            out.append((const(n.args[0]), f'{ast.unparse(f)}({ast.unparse(n.args[0])}, …)'))
        elif isinstance(f, ast.Attribute) and f.attr == 'update' and is_dict(f.value):
            for kw in n.keywords:
                out.append((kw.arg, f'{ast.unparse(f)}({kw.arg}=…)'))
            for a in n.args:
                if isinstance(a, ast.Dict):
                    for k in a.keys:
                        out.append((const(k) if k is not None else None, f'{ast.unparse(f)}({{…}})'))
                else:
                    out.append((None, f'{ast.unparse(f)}(…)'))
        elif isinstance(f, ast.Name) and f.id == 'setattr' and len(n.args) == 3 and is_self(n.args[0]):
            out.append((const(n.args[1]), f'setattr(self, {ast.unparse(n.args[1])}, …)'))
        elif isinstance(f, ast.Attribute) and f.attr == '__setattr__' and len(n.args) == 3 and is_self(n.args[0]):
            out.append((const(n.args[1]), f'{ast.unparse(f)}(self, {ast.unparse(n.args[1])}, …)'))
    return out


def _kills(m, ci, owner, f, inst, key, depth=0):
    """'yes' / 'no' / 'unknown': does function `f` (a descriptor's __set__, a class's __setattr__ or a helper they call),
    on every normal path, remove or overwrite the remembered entry `key` of the instance bound to its parameter `inst`?
    A removal nested under a condition is 'unknown'."""
    if f is None or depth > 3:
        return 'unknown'

    def is_inst(e):
        return isinstance(e, ast.Name) and e.id == inst

    def is_dict(e):
        return (isinstance(e, ast.Attribute) and e.attr == '__dict__' and is_inst(e.value)) or \
               (isinstance(e, ast.Call) and isinstance(e.func, ast.Name) and e.func.id == 'vars' and len(e.args) == 1 and is_inst(e.args[0]))

    def keymatch(e, loopvars):
        if isinstance(e, ast.Constant):
            return 'yes' if e.value == key else 'no'
        if isinstance(e, ast.Name) and e.id in loopvars:
            return loopvars[e.id]
        return 'unknown'

    def names_in(it):
        # for K in instance.A / getattr(instance, 'A', ()) / ('a', 'b'): the tuple of names, or None
        if isinstance(it, (ast.Tuple, ast.List)) and all(isinstance(e, ast.Constant) for e in it.elts):
            return [e.value for e in it.elts]
        attr = None
        if isinstance(it, ast.Attribute) and (is_inst(it.value) or (isinstance(it.value, ast.Call) and ast.unparse(it.value.func) == 'type')):
            attr = it.attr
        if isinstance(it, ast.Call) and isinstance(it.func, ast.Name) and it.func.id == 'getattr' and len(it.args) >= 2 \
                and is_inst(it.args[0]) and isinstance(it.args[1], ast.Constant):
            attr = it.args[1].value
        if attr is None:
            return None
        r = m.lookup(ci, attr)
        if r is None:
            return [] if isinstance(it, ast.Call) and len(it.args) == 3 else None
        if r[1] == 'assign' and isinstance(r[2], (ast.Tuple, ast.List)) and all(isinstance(e, ast.Constant) for e in r[2].elts):
            return [e.value for e in r[2].elts]
        return None

    def stmt(st, loopvars, cond):
        """verdict of one statement: 'yes' when it certainly kills, 'unknown' when it may, else 'no'"""
        res = 'no'

        def up(v):
            nonlocal res
            if v == 'yes' and not cond:
                res = 'yes'
            elif v in ('yes', 'unknown') and res != 'yes':
                res = 'unknown'
        if isinstance(st, ast.For):
            lv = dict(loopvars)
            ns = names_in(st.iter)
            if isinstance(st.target, ast.Name):
                lv[st.target.id] = 'unknown' if ns is None else ('yes' if key in ns else 'no')
            for b in st.body:
                up(stmt(b, lv, cond))
            return res
        if isinstance(st, (ast.Try, ast.With)):
            for b in st.body:
                up(stmt(b, loopvars, cond))
            for b in getattr(st, 'finalbody', []):
                up(stmt(b, loopvars, cond))
            return res
        if isinstance(st, (ast.If, ast.While)):
            for b in st.body + st.orelse:
                up(stmt(b, loopvars, True))
            return res
        if isinstance(st, ast.Delete):
            for t in st.targets:
                if isinstance(t, ast.Subscript) and is_dict(t.value):
                    up(keymatch(t.slice, loopvars))
                elif isinstance(t, ast.Attribute) and is_inst(t.value):
                    up('yes' if t.attr == key else 'no')
            return res
        for k_, how in ([] if not isinstance(st, (ast.Assign, ast.AugAssign, ast.AnnAssign)) else _self_store_key(st, inst)):
            # overwriting the entry (e.g. with None) forgets the remembered value as well, unless this is the
            # descriptor's own store of the assigned parameter (instance.__dict__[self.name] = value)
            if k_ == key:
                up('yes')
        for n in ast.walk(st):
            if not isinstance(n, ast.Call):
                continue
            fn = n.func
            if isinstance(fn, ast.Attribute) and fn.attr == 'pop' and is_dict(fn.value) and n.args:
                up(keymatch(n.args[0], loopvars))
            elif isinstance(fn, ast.Attribute) and fn.attr == 'clear' and is_dict(fn.value):
                up('yes')
            elif isinstance(fn, ast.Name) and fn.id == 'delattr' and len(n.args) == 2 and is_inst(n.args[0]):
                up(keymatch(n.args[1], loopvars))
            elif isinstance(fn, ast.Attribute) and fn.attr in ('__set__', '__setattr__') and isinstance(fn.value, ast.Call) \
                    and ast.unparse(fn.value.func) == 'super' and owner is not None and fn.attr == f.name:
                # super().__set__(instance, value): the next definition in the owner's MRO
                nxt = None
                seen_self = False
                for c in owner.mro:
                    if seen_self and f.name in c.methods:
                        nxt = (c, c.methods[f.name])
                        break
                    if c.name == f.cls:
                        seen_self = True
                if nxt is None:
                    continue            # object.__setattr__: stores, kills nothing
                params = [a.arg for a in nxt[1].node.args.args]
                j = next((i for i, a in enumerate(n.args) if is_inst(a)), None)
                if f.name == '__setattr__':
                    up(_kills(m, ci, owner, nxt[1], params[0], key, depth + 1))
                elif j is not None and j + 1 < len(params):
                    up(_kills(m, ci, owner, nxt[1], params[j + 1], key, depth + 1))
            elif isinstance(fn, ast.Attribute) and is_inst(fn.value):
                g = m.method(ci, fn.attr)           # instance.helper()
                if g is not None:
                    up(_kills(m, ci, ci, g, g.node.args.args[0].arg, key, depth + 1))
            elif isinstance(fn, ast.Attribute) and isinstance(fn.value, ast.Name) and fn.value.id == 'self' and owner is not None \
                    and any(is_inst(a) for a in n.args):
                g = m.method(owner, fn.attr)        # self.helper(instance)
                if g is not None:
                    j = next(i for i, a in enumerate(n.args) if is_inst(a))
                    params = [a.arg for a in g.node.args.args]
                    if j + 1 < len(params):
                        up(_kills(m, ci, owner, g, params[j + 1], key, depth + 1))
        return res

    verdict = 'no'
    for st in f.node.body:
        v = stmt(st, {}, False)
        if v == 'yes':
            return 'yes'
        if v == 'unknown':
            verdict = 'unknown'
    return verdict


def memo_invalidation(m, ci, key):
    """{writer: 'yes'|'no'|'unknown'} over everything that can assign a parameter (or meta/visual) of an instance of `ci`:
    the `__set__` of each parameter's descriptor and, when the class defines one, its `__setattr__` (which sees every
    assignment: when it kills the entry, every assignment does)."""
    sa = m.lookup(ci, '__setattr__')
    if sa is not None and sa[1] == 'method':
        v = _kills(m, ci, ci, sa[2], sa[2].node.args.args[0].arg, key)
        if v == 'yes':
            return {f'{sa[0].name}.__setattr__': 'yes'}
    out = {}
    for p in tuple(m.params_of(ci)) + ("meta", "visual"):
        r = m.lookup(ci, p)
        if r is None or r[1] != 'assign' or not (isinstance(r[2], ast.Call) and isinstance(r[2].func, ast.Name)):
            continue
        rr = m.resolve_name(r[0].module, r[2].func.id)
        if rr[0] != 'class':
            continue
        d = rr[1]
        s_ = m.lookup(d, '__set__')
        if s_ is None or s_[1] != 'method':
            continue
        f = s_[2]
        params = [a.arg for a in f.node.args.args]
        v = _kills(m, ci, d, f, params[1] if len(params) > 1 else 'instance', key)
        out[f'{s_[0].name}.__set__ ({p})'] = v
    if sa is not None and sa[1] == 'method' and v_unknown(_kills(m, ci, ci, sa[2], sa[2].node.args.args[0].arg, key)):
        out[f'{sa[0].name}.__setattr__'] = 'unknown'
    return out


def v_unknown(v):
    return v == 'unknown'


def _key_checked(m, ci, f, key):
    """None when the getter is a compute-once memo; otherwise the set of instance attributes that make up the key the getter
    compares (==, !=) with what it read back from the remembered entry (`None` inside the set marks a part of the key that
    is not a plain attribute read)."""
    tainted = set()

    def reads(e):
        for n in ast.walk(e):
            if isinstance(n, ast.Constant) and n.value == key:
                return True
            if isinstance(n, ast.Attribute) and n.attr == key:
                return True
            if isinstance(n, ast.Name) and n.id in tainted:
                return True
        return False
    assigns = {}
    for n in ast.walk(f.node):
        if isinstance(n, ast.Assign) and len(n.targets) == 1 and isinstance(n.targets[0], ast.Name):
            assigns.setdefault(n.targets[0].id, []).append(n.value)
    for _ in range(3):
        for n in ast.walk(f.node):
            if isinstance(n, ast.Assign) and reads(n.value):
                for t in n.targets:
                    for x in ast.walk(t):
                        if isinstance(x, ast.Name) and isinstance(x.ctx, ast.Store):
                            tainted.add(x.id)

    def attrs_of(e, depth=0):
        out = set()
        if isinstance(e, ast.Name) and e.id != 'self':
            vs = assigns.get(e.id, [])
            if len(vs) != 1 or depth > 3:
                return {None}
            return attrs_of(vs[0], depth + 1)
        for n in ast.walk(e):
            if isinstance(n, ast.Attribute) and isinstance(n.value, ast.Name) and n.value.id == 'self':
                out.add(n.attr)
            elif isinstance(n, ast.Call) and isinstance(n.func, ast.Name) and n.func.id == 'getattr' and n.args \
                    and isinstance(n.args[0], ast.Name) and n.args[0].id == 'self':
                if isinstance(n.args[1], ast.Constant):
                    out.add(n.args[1].value)
                else:
                    out.add(('getattr', ast.unparse(n.args[1])))
            elif isinstance(n, ast.Name) and n.id not in ('self', 'tuple', 'list', 'getattr') and isinstance(n.ctx, ast.Load) \
                    and n.id in assigns:
                out |= attrs_of(n, depth + 1)
        # getattr(self, v) for v in self._params  ->  every parameter
        if any(isinstance(a, tuple) for a in out):
            out = {a for a in out if not isinstance(a, tuple)}
            if '_params' in out:
                out.discard('_params')
                out |= set(m.params_of(ci))
            else:
                out.add(None)
        return out
    for n in ast.walk(f.node):
        if isinstance(n, ast.Compare) and any(isinstance(o, (ast.Eq, ast.NotEq)) for o in n.ops) and reads(n):
            sides = [n.left] + list(n.comparators)
            keyattrs = set()
            for sd in sides:
                if not reads(sd):
                    keyattrs |= attrs_of(sd)
            return keyattrs
    return None


def _instance_reads(m, ci, f, skip=(), seen=None):
    """instance attributes (descriptors, plain attributes) the function reads from `self`, through the properties and
    methods of `self` it uses"""
    seen = set() if seen is None else seen
    out = set()
    if f.qualname in seen:
        return out
    seen.add(f.qualname)
    for n in ast.walk(f.node):
        if isinstance(n, ast.Attribute) and isinstance(n.value, ast.Name) and n.value.id == 'self' and isinstance(n.ctx, ast.Load):
            if n.attr in skip or n.attr.startswith('__'):
                continue
            r = m.lookup(ci, n.attr)
            if r is not None and r[1] == 'method':
                out |= _instance_reads(m, ci, r[2], skip, seen)
            elif r is not None and r[1] == 'assign' and m.descriptor_kind(ci, n.attr) is None and n.attr not in ('meta', 'visual'):
                continue            # class-level constant (_params, _mpl_artist, …)
            else:
                out.add(n.attr)
    return out


def _key_unit_blind(m, ci, f, key):
    """a quantity attribute whose bare number (`.value`, without a conversion to a fixed unit) is part of the key a memo is
    validated against: the same number in another unit (1 deg -> 1 rad) passes for "unchanged".  Returns the attribute name."""
    assigns = {}
    for n in ast.walk(f.node):
        if isinstance(n, ast.Assign) and len(n.targets) == 1 and isinstance(n.targets[0], ast.Name):
            assigns.setdefault(n.targets[0].id, []).append(n.value)

    def self_attr(e, depth=0):
        if isinstance(e, ast.Attribute) and isinstance(e.value, ast.Name) and e.value.id == 'self':
            return e.attr
        if isinstance(e, ast.Subscript) and isinstance(e.value, ast.Attribute) and e.value.attr == '__dict__' \
                and isinstance(e.value.value, ast.Name) and e.value.value.id == 'self' and isinstance(e.slice, ast.Constant):
            return e.slice.value
        if isinstance(e, ast.Name) and depth < 3 and len(assigns.get(e.id, [])) == 1:
            return self_attr(assigns[e.id][0], depth + 1)
        return None
    exprs, seen = [], set()
    for n in ast.walk(f.node):
        if isinstance(n, ast.Compare) and any(isinstance(o, (ast.Eq, ast.NotEq)) for o in n.ops):
            exprs.extend([n.left] + list(n.comparators))
    i = 0
    while i < len(exprs):
        for x in ast.walk(exprs[i]):
            if isinstance(x, ast.Name) and x.id not in seen and len(assigns.get(x.id, [])) == 1:
                seen.add(x.id)
                exprs.append(assigns[x.id][0])
        i += 1
    for e in exprs:
        for x in ast.walk(e):
            if isinstance(x, ast.Attribute) and x.attr == 'value':
                a = self_attr(x.value)
                if a is not None and m.descriptor_kind(ci, a) in ('ScalarAngle', 'PositiveScalarAngle', 'QuantityAttribute'):
                    return a
    return None


def _handed_out_by_reference(m, ci, attr):
    """does `instance.<attr>` give the caller the stored object itself?  True when the attribute is a descriptor of the
    repository whose __get__ returns the entry of the instance dictionary without copying it."""
    r = m.lookup(ci, attr)
    if r is None or r[1] != 'assign' or not (isinstance(r[2], ast.Call) and isinstance(r[2].func, ast.Name)):
        return False
    rr = m.resolve_name(r[0].module, r[2].func.id)
    if rr[0] != 'class':
        return False
    g = m.lookup(rr[1], '__get__')
    if g is None or g[1] != 'method':
        return False
    rets = [st.value for st in ast.walk(g[2].node) if isinstance(st, ast.Return) and st.value is not None]
    stored = [v for v in rets if isinstance(v, ast.Subscript) and '__dict__' in ast.unparse(v.value)]
    copied = [v for v in rets if isinstance(v, ast.Call) and ('copy' in ast.unparse(v.func))]
    return bool(stored) and not copied


def memoised_geometry(m, ci, names=None, rule='memo'):
    """[(method, why, func)]: geometry methods of class `ci` (and the properties/methods of `self` they read, transitively)
    that remember a result across calls — a memoising decorator, or a store into the instance (`self.K = v`,
    `self.__dict__[K] = v`, setattr, …) inside the getter — and whose remembered entry is NOT dropped by every writer of a
    parameter.  A region's parameters are assignable (and its operands mutable), so a remembered box / membership / mask goes
    stale.  Verdicts:
      * no writer drops the entry, compute-once memo                    -> reported
      * some writers drop it and another does not (inconsistent siblings) -> reported, naming the writer that does not
      * every writer drops it, or the memo is validated against a key    -> AnalysisError (not decided: in-place changes of
        by-reference parameters and the completeness of a key are outside this rule)"""
    out = []
    todo = [n for n in (names or GEOMETRY_METHODS)]
    seen = set()
    while todo:
        name = todo.pop()
        if name in seen:
            continue
        seen.add(name)
        f = m.method(ci, name)
        if f is None:
            continue
        memos = []      # (key, description, per-instance invalidation possible)
        for d in f.node.decorator_list:
            dn = d.func if isinstance(d, ast.Call) else d
            short = ast.unparse(dn).split('.')[-1]
            if short in MEMOISERS:
                memos.append((name, f'is decorated with @{ast.unparse(dn)}: computed once per instance',
                              short in ('lazyproperty', 'cached_property')))
        if name not in ('rotate', 'to_sky', 'to_polygon'):
            for n in ast.walk(f.node):
                if isinstance(n, (ast.Assign, ast.AugAssign, ast.AnnAssign, ast.Call)):
                    for k_, how in _self_store_key(n):
                        memos.append((k_, f'stores its result in {how} (`{norm(n)[:60]}`)', True))
        for n in ast.walk(f.node):
            if isinstance(n, ast.Attribute) and isinstance(n.value, ast.Name) and n.value.id == 'self' \
                    and isinstance(n.ctx, ast.Load):
                r = m.lookup(ci, n.attr)
                if r is not None and r[1] == 'method':
                    todo.append(n.attr)
        for key, why, droppable in memos:
            if key is None or not droppable:
                out.append((name, why, f))
                continue
            inv = memo_invalidation(m, ci, key)
            no = sorted(w for w, v in inv.items() if v == 'no')
            yes = sorted(w for w, v in inv.items() if v == 'yes')
            unk = sorted(w for w, v in inv.items() if v == 'unknown')
            if no and yes:
                out.append((name, f'{why}; the entry is dropped by {", ".join(yes)} but not by {", ".join(no)}', f))
            elif unk:
                raise AnalysisError(rule, f'{ci.name}.{name}', f'{why}; whether {", ".join(unk)} drops the remembered entry '
                                    f'{key!r} on every path is not decided')
            elif yes and not no:
                # every assignment drops the entry; what is left is a change *in place* of something the remembered value was
                # computed from.  Scalars and quantities are handed out by value (C17.R9), so a memo that reads only those
                # cannot go stale; pixel coordinates, meta/visual and compound operands are objects the caller can change.
                rd = _instance_reads(m, ci, f, skip=(key,))
                byref = sorted(a for a in rd if m.descriptor_kind(ci, a) in (None, 'ScalarPixCoord', 'OneDPixCoord', 'RegionMetaDescr',
                                                                             'RegionVisualDescr', 'RegionType'))
                if byref:
                    # a value the region hands out *by reference* (the descriptor's __get__ returns the stored object itself)
                    # can be changed without any writer running: `reg.center.x += 1`, `reg.meta['include'] = False`
                    confirmed = [a for a in byref if _handed_out_by_reference(m, ci, a)]
                    if confirmed:
                        out.append((name, f'{why}; every parameter writer drops the entry {key!r}, but the remembered value '
                                    f'reads self.{confirmed[0]}, which the region hands out by reference: an in-place change '
                                    f'(`region.{confirmed[0]}.x += 1`, `region.meta[...] = ...`) runs no writer and leaves the entry stale', f))
                        continue
                    raise AnalysisError(rule, f'{ci.name}.{name}', f'{why}; every parameter writer drops the entry {key!r}, but the '
                                        f'remembered value reads self.{", self.".join(byref)}, which can be changed in place — not decided')
            elif (ka := _key_checked(m, ci, f, key)) is not None:
                blind = _key_unit_blind(m, ci, f, key)
                if blind is not None:
                    out.append((name, f'{why}; the entry is validated against the bare number of self.{blind} (`.value`, whatever the '
                                f'unit): the same number in another unit (1 deg -> 1 rad) passes for "unchanged"', f))
                    continue
                rd = _instance_reads(m, ci, f, skip=(key,))
                missing = sorted(a for a in rd - ka if a is not None)
                if missing and None not in ka:
                    out.append((name, f'{why}; the entry is validated against a key of {sorted(ka)} but the remembered value also '
                                f'depends on self.{", self.".join(missing)}, which can be re-assigned', f))
                else:
                    raise AnalysisError(rule, f'{ci.name}.{name}', f'{why}; the entry is validated against a key on each use — '
                                        'whether the key captures every change (equality of the parts, in-place changes) is not decided')
            else:
                out.append((name, why, f))
    return out


def _stale_after_assignment(ctx, ci, attrs):
    """[(param, attr)] such that after `obj.param = NEW` on a constructed instance the stored attribute differs from the
    one the constructor computes from the updated parameters.  Attribute stores run the class's __setattr__ and the
    descriptors' __set__ (single-field validators switched off: the values are type-correct by construction)."""
    from ..model import FuncInfo
    from ..vg import mark_quantity, reset_marks, Unknown, is_unknown
    m = ctx.model
    init = m.method(ci, '__init__')
    ps = [p for p in func_params(init.node)[1:] if p not in ('meta', 'visual')]

    def value(p, tag, ints):
        k = m.descriptor_kind(ci, p)
        if k in ('ScalarPixCoord', 'OneDPixCoord'):
            return Obj('PixCoord', {}, tag + p, m.cls('PixCoord'))
        if k in ('PositiveScalarAngle',):
            return mark_quantity(sym(tag + p, positive=True))
        if k == 'ScalarAngle':
            return mark_quantity(sym(tag + p))
        if p in ints:
            return sp.Integer(5 if tag == 'cur_' else 7)
        return sym(tag + p, positive=True)

    def new_ev():
        ev = evaluator(ctx)
        for d_ in m.subclasses('RegionAttribute'):
            v_ = d_.methods.get('_validate')
            if v_ is not None:
                ev.hooks[v_.qualname] = lambda e, a, k: Const(None)
        ev.descriptor_sets = True
        return ev

    def attempt(ints):
        bad = []
        for p in ps:
            ev = new_ev()
            obj = ev.construct(ci, [], {q: value(q, 'cur_', ints) for q in ps}, 0)
            ref = ev.construct(ci, [], {q: value(q, 'NEW_' if q == p else 'cur_', ints) for q in ps}, 0)
            node = ast.parse(f'def _assign(obj, new):\n    obj.{p} = new\n').body[0]
            fi = FuncInfo('_assign', f'{ci.module}:_assign', ci.module, None, node, ci.path)
            ev.run(fi, [obj, value(p, 'NEW_', ints)], {})
            for a in attrs:
                got, want = obj.fields.get(a), ref.fields.get(a)
                if got is None or want is None or is_unknown(want) or is_unknown(got):
                    return None
                if not same(got, want):
                    bad.append((p, a))
        return bad

    reset_marks()
    r = attempt(set())
    if r is None:
        # integer-valued parameters (vertex counts) drive array constructors: use constants for them
        r = attempt({p for p in ps if m.descriptor_kind(ci, p) == 'PositiveScalar' and p.startswith('n')})
    ctx.need(r is not None, f'{ci.name}.__setattr__', 'the stored derived attributes could not be evaluated after an assignment')
    return r


def r8(ctx):
    """the geometry is a function of the region's *current* parameters: every attribute the geometry methods read is a
    parameter (assignable, validated, compared, copied, serialised), a property/method, or a class constant — not a value
    computed once in the constructor, which goes stale when a parameter is assigned."""
    m = ctx.model
    for ci in m.region_classes('pixel'):
        params = set(m.params_of(ci)) | {'meta', 'visual'}
        reads = {}
        for name in GEOMETRY_METHODS:
            f = m.method(ci, name)
            if f is None:
                continue
            for n in ast.walk(f.node):
                if isinstance(n, ast.Attribute) and isinstance(n.value, ast.Name) and n.value.id == 'self' \
                        and isinstance(n.ctx, ast.Load):
                    reads.setdefault(n.attr, set()).add(name)
        stale = []
        for a, where in sorted(reads.items()):
            if a in params or a.startswith('__'):
                continue
            r = m.lookup(ci, a)
            if r is None:
                continue              # not defined by the class: only reachable under a hasattr guard
            dc, k, what = r
            if k == 'method':
                continue              # property / method: recomputed on every use
            if m.descriptor_kind(ci, a) is None:
                continue              # class-level constant
            stale.append((a, sorted(where)))
        memo = memoised_geometry(m, ci, rule='C01.R8')
        if memo:
            name, why, f = memo[0]
            ctx.bad(ci.name, f'memoised:{name}',
                    f'{ci.name}.{name} {why}; the region\'s parameters (and the operands of a compound) can change afterwards, so '
                    'membership, box, mask and artist can describe an old shape', f.loc())
        elif stale and m.method(ci, '__setattr__') is not None and not _stale_after_assignment(ctx, ci, [a for a, _ in stale]):
            ctx.ok(ci.name, f'stored derived attributes {[a for a, _ in stale]} are recomputed by __setattr__: after every '
                   'parameter assignment they equal what the constructor computes from the current parameters (by evaluation)')
        elif stale:
            a, where = stale[0]
            ctx.bad(ci.name, f'stale-derived:{a}',
                    f'{", ".join(where)} read self.{a}, which is stored once by the constructor and is not one of the '
                    f'parameters {sorted(params - {"meta", "visual"})}: after `region.{sorted(params - {"meta", "visual"})[0]} = ...` '
                    f'membership, box, mask and artist still describe the old shape (while ==, copy() and the writers use the new '
                    'parameters)', ci.path)
        else:
            ctx.ok(ci.name, 'geometry methods read parameters, properties and class constants only')


# ------------------------------------------------------------ integer coordinates (dtype lint)
FLOAT_FUNCS = {'cos', 'sin', 'tan', 'sqrt', 'hypot', 'arctan2', 'arctan', 'arcsin', 'arccos', 'deg2rad', 'rad2deg',
               'radians', 'degrees', 'exp', 'log', 'float', 'float64', 'true_divide', 'divide', 'mean', 'linspace'}
KEEP_FUNCS = {'abs', 'absolute', 'fabs', 'asarray', 'asanyarray', 'atleast_1d', 'atleast_2d', 'array', 'ravel', 'flatten',
              'reshape', 'squeeze', 'transpose', 'negative', 'add', 'subtract', 'sum', 'min', 'max', 'copy', 'where', 'minimum',
              'maximum', 'broadcast_arrays'}
PRODUCT_FUNCS = {'multiply', 'dot', 'inner', 'outer', 'cross', 'prod', 'matmul', 'einsum', 'vdot', 'tensordot'}
POWER_FUNCS = {'square', 'power'}
KIND_ORDER = {'float': 3, 'coord': 2, 'scalar': 1}


class _DtypeLint:
    """may-be-integer analysis of the arithmetic of one function: PixCoord components (`<pixcoord>.x/.y`) keep the
    caller's dtype, so they may be int32/int64 arrays; sums and differences of them still are; a product or power of
    such values wraps around silently (|dx| >= 46341 for int32) unless a factor is floating.  kinds: 'coord' (may be an
    integer array), 'float' (surely floating: float literal, true division, trig/sqrt/hypot result, Quantity, explicit
    float dtype), 'scalar' (a Python number or unknown: neither overflows nor promotes)."""

    def __init__(self, ctx, model, coord_attrs=('x', 'y', 'xy'), sums=True, int_descr_kinds=()):
        self.ctx, self.m = ctx, model
        self.negations = bool(int_descr_kinds)        # sizes are scalars: a unary minus on an unsigned one wraps
        self.int_descr_kinds = set(int_descr_kinds)   # descriptor classes whose stored value may be a fixed-width numpy integer
        self.sums = sums        # also report sums/differences of possibly-integer coordinate arrays (offsets)
        self.coord_attrs = set(coord_attrs)     # attributes whose value keeps the caller's (possibly fixed-width) integer type
        self.problems = []          # (FuncInfo, node, text)
        self.done = {}

    def fn(self, fi, argkinds, depth=0):
        key = (fi.qualname, tuple(argkinds))
        if key in self.done:
            return self.done[key]
        self.done[key] = 'scalar'
        env = {}
        params = [a.arg for a in fi.node.args.args]
        for p_, k_ in zip(params, argkinds):
            env[p_] = k_
        ret = []
        for st in ast.walk(fi.node):
            pass
        self._block(fi, fi.node.body, env, ret, depth)
        r = max(ret, key=lambda k: KIND_ORDER[k]) if ret else 'scalar'
        if 'coord' in ret and r == 'float':
            r = 'coord'          # some return path may be an integer array
        self.done[key] = r
        return r

    def _block(self, fi, body, env, ret, depth):
        for st in body:
            if isinstance(st, ast.Assign):
                k = self.kind(fi, st.value, env, depth)
                for t in st.targets:
                    if isinstance(t, ast.Name):
                        env[t.id] = k
                    elif isinstance(t, (ast.Tuple, ast.List)):
                        for e in t.elts:
                            if isinstance(e, ast.Name):
                                env[e.id] = k
            elif isinstance(st, ast.AugAssign):
                if isinstance(st.target, ast.Name):
                    fake = ast.BinOp(left=ast.Name(id=st.target.id, ctx=ast.Load()), op=st.op, right=st.value)
                    ast.copy_location(fake, st)
                    env[st.target.id] = self.kind(fi, fake, env, depth)
            elif isinstance(st, ast.Return):
                if st.value is not None:
                    ret.append(self.kind(fi, st.value, env, depth))
            elif isinstance(st, ast.Expr):
                self.kind(fi, st.value, env, depth)
            elif isinstance(st, (ast.If, ast.While)):
                self.kind(fi, st.test, env, depth)
                self._block(fi, st.body, env, ret, depth)
                self._block(fi, st.orelse, env, ret, depth)
            elif isinstance(st, ast.For):
                k = self.kind(fi, st.iter, env, depth)
                for e in ast.walk(st.target):
                    if isinstance(e, ast.Name):
                        env[e.id] = k
                self._block(fi, st.body, env, ret, depth)
            elif isinstance(st, (ast.With, ast.Try)):
                self._block(fi, st.body, env, ret, depth)
                for h in getattr(st, 'handlers', []):
                    self._block(fi, h.body, env, ret, depth)
                self._block(fi, getattr(st, 'orelse', []), env, ret, depth)
                self._block(fi, getattr(st, 'finalbody', []), env, ret, depth)

    @staticmethod
    def _join(ks):
        ks = list(ks)
        if 'float' in ks:
            return 'float'
        return 'coord' if 'coord' in ks else 'scalar'

    def kind(self, fi, n, env, depth):
        if isinstance(n, ast.Constant):
            return 'float' if isinstance(n.value, float) else 'scalar'
        if isinstance(n, ast.Name):
            if n.id not in env:
                # a module-level constant with a float value (_HALF_PIXEL = 0.5) promotes like the literal
                sts = self.m.modules[fi.module].assigns.get(n.id) if fi.module in self.m.modules else None
                if sts and len(sts) == 1 and isinstance(getattr(sts[0], 'value', None), ast.Constant) \
                        and isinstance(sts[0].value.value, float):
                    return 'float'
            return env.get(n.id, 'scalar')
        if isinstance(n, ast.Attribute):
            if n.attr in self.coord_attrs:
                # a scalar position of the region itself (ScalarPixCoord) holds Python numbers: PixCoord unwraps scalars
                v_ = n.value
                if isinstance(v_, ast.Attribute) and isinstance(v_.value, ast.Name) and v_.value.id == 'self' and fi.cls:
                    ci_ = self.m.modules[fi.module].classes.get(fi.cls)
                    if ci_ is not None and self.m.descriptor_kind(ci_, v_.attr) == 'ScalarPixCoord':
                        return 'scalar'
                return 'coord'
            if n.attr in ('value',) or n.attr in ('real',):
                return self.kind(fi, n.value, env, depth)
            if isinstance(n.value, ast.Name) and n.value.id == 'self' and fi.cls:
                ci = self.m.modules[fi.module].classes.get(fi.cls)
                dk = self.m.descriptor_kind(ci, n.attr) if ci is not None else None
                if dk in ('ScalarAngle', 'PositiveScalarAngle'):
                    return 'float'           # a Quantity: astropy keeps quantities floating
                if dk in self.int_descr_kinds:
                    return 'coord'           # stored as given: np.uint8(5) stays a uint8
            if n.attr in ('T', 'flat'):
                return self.kind(fi, n.value, env, depth)
            return 'scalar'
        if isinstance(n, ast.Subscript):
            return self.kind(fi, n.value, env, depth)
        if isinstance(n, ast.UnaryOp):
            k_ = self.kind(fi, n.operand, env, depth)
            if isinstance(n.op, ast.USub) and k_ == 'coord' and self.sums and self.negations:
                self.problems.append((fi, n, f'`{ast.unparse(n)}` negates a value in its own dtype (for an unsigned integer -4 is 252)'))
                return 'float'
            return k_
        if isinstance(n, (ast.Tuple, ast.List)):
            return self._join(self.kind(fi, e, env, depth) for e in n.elts) if n.elts else 'scalar'
        if isinstance(n, ast.IfExp):
            self.kind(fi, n.test, env, depth)
            a, b = self.kind(fi, n.body, env, depth), self.kind(fi, n.orelse, env, depth)
            return 'coord' if 'coord' in (a, b) else self._join((a, b))
        if isinstance(n, (ast.Compare, ast.BoolOp)):
            for c in ast.iter_child_nodes(n):
                if isinstance(c, ast.expr):
                    self.kind(fi, c, env, depth)
            return 'scalar'
        if isinstance(n, ast.BinOp):
            a, b = self.kind(fi, n.left, env, depth), self.kind(fi, n.right, env, depth)
            if isinstance(n.op, ast.Div):
                return 'float'
            if isinstance(n.op, (ast.Mult, ast.MatMult)):
                if a == 'coord' and b == 'coord':
                    self.problems.append((fi, n, f'`{ast.unparse(n)}` multiplies two values that may be integer arrays'))
                return self._join((a, b))
            if isinstance(n.op, (ast.Add, ast.Sub)) and self.sums and 'coord' in (a, b) and 'float' not in (a, b):
                self.problems.append((fi, n, f'`{ast.unparse(n)}` adds / subtracts coordinate values in their own dtype (for an '
                                      'unsigned integer array 4 - 5 is 255, for int8 100 - (-100) is -56)'))
                return 'float'       # reported once, at the first operation
            if isinstance(n.op, ast.Pow):
                if a == 'coord' and not (isinstance(n.right, ast.Constant) and n.right.value in (0, 1)) and b != 'float':
                    self.problems.append((fi, n, f'`{ast.unparse(n)}` raises a value that may be an integer array to a power'))
                return self._join((a, b))
            return self._join((a, b))
        if isinstance(n, ast.Call):
            nm = dotted(n.func) or ''
            short = nm.split('.')[-1]
            argk = [self.kind(fi, a_, env, depth) for a_ in n.args]
            if isinstance(n.func, ast.Attribute) and isinstance(n.func.value, (ast.Call, ast.BinOp, ast.Subscript)):
                self.kind(fi, n.func.value, env, depth)      # the receiver expression is evaluated too: f(a - b).transpose()
            kw = {k.arg: k.value for k in n.keywords if k.arg}
            for k in n.keywords:
                self.kind(fi, k.value, env, depth)
            if 'dtype' in kw:
                d = ast.unparse(kw['dtype'])
                return 'float' if 'float' in d else (self._join(argk) if argk else 'scalar')
            if short == 'astype' and n.args:
                return 'float' if 'float' in ast.unparse(n.args[0]) else self.kind(fi, n.func.value, env, depth)
            root_is_lib = nm.split('.')[0] in ('np', 'numpy', 'math') or nm in ('float', 'abs', 'sum', 'min', 'max')
            if root_is_lib or short in ('float',):
                if short in FLOAT_FUNCS:
                    return 'float'
                if short in POWER_FUNCS and argk and argk[0] == 'coord' and 'float' not in argk[1:]:
                    self.problems.append((fi, n, f'`{ast.unparse(n)}` squares / raises a value that may be an integer array'))
                    return 'coord'
                if short in PRODUCT_FUNCS and argk and all(k == 'coord' for k in argk):
                    self.problems.append((fi, n, f'`{ast.unparse(n)}` multiplies values that may be integer arrays'))
                    return 'coord'
                if short in KEEP_FUNCS or short in POWER_FUNCS or short in PRODUCT_FUNCS:
                    return self._join(argk) if argk else 'scalar'
                return 'scalar'
            if isinstance(n.func, ast.Attribute) and short in ('mean', 'std', 'var') and not n.args:
                return 'float'           # x.mean() of an integer array is a float64
            # methods on arrays that keep the dtype
            if isinstance(n.func, ast.Attribute) and short in KEEP_FUNCS | {'astype'}:
                return self.kind(fi, n.func.value, env, depth)
            # repository callees: by resolution, else by method name over the repository classes
            callees = []
            if depth < 3:
                try:
                    callees = list(self.m.resolve_call(fi, n) or [])
                except Exception:
                    callees = []
                if not callees and isinstance(n.func, ast.Attribute):
                    callees = [c for mi_ in self.m.modules.values() for ci in mi_.classes.values()
                               for nm_, c in ci.methods.items() if nm_ == short and not c.path.endswith('.pyx')]
                    callees = callees if len(callees) <= 3 else []
            if callees:
                ks = []
                for c in callees:
                    if c.path.endswith('.pyx') or c.name.startswith('__'):
                        continue
                    bound = isinstance(n.func, ast.Attribute) and c.cls and not c.is_static
                    recvk = [self.kind(fi, n.func.value, env, depth)] if bound else []
                    if bound and c.is_classmethod:
                        recvk = ['scalar']
                    kinds = recvk + argk
                    # keyword arguments reach the callee's parameters by name
                    cparams = [a.arg for a in c.node.args.args]
                    if n.keywords and len(kinds) <= len(cparams):
                        kinds = kinds + ['scalar'] * (len(cparams) - len(kinds))
                        for k in n.keywords:
                            if k.arg in cparams:
                                kinds[cparams.index(k.arg)] = self.kind(fi, k.value, env, depth)
                    ks.append(self.fn(c, kinds, depth + 1))
                if ks:
                    return 'coord' if 'coord' in ks else self._join(ks)
            if short == '_validate' and argk:
                return argk[0]
            return 'scalar'
        return 'scalar'


def r9(ctx):
    """integer positions: the membership arithmetic must not multiply or square values that may be integer arrays."""
    m = ctx.model
    seen = set()
    lint = _DtypeLint(ctx, m)
    n = 0
    for ci in m.region_classes('pixel'):
        f = m.method(ci, 'contains')
        if f is None or f.qualname in seen or m.is_abstract(ci):
            continue
        seen.add(f.qualname)
        n += 1
        before = len(lint.problems)
        lint.fn(f, ['scalar', 'scalar'])
        new = lint.problems[before:]
        if new:
            fi, node, text = new[0]
            ctx.bad(f'{f.cls}.contains', 'integer-overflow',
                    f'{text} (in {fi.qualname.split(":")[1]}): PixCoord keeps the caller\'s dtype and a region\'s centre is a Python '
                    'scalar, which does not widen an integer array, so for integer query positions the arithmetic wraps around '
                    'silently (uint8: every position left of the centre; int32 products: |offset| >= 46341) and membership is '
                    'wrong; convert to float first (np.subtract(..., dtype=float), np.asarray(..., dtype=float))', fi.loc(node))
        else:
            ctx.ok(f'{f.cls}.contains', 'no product/power of possibly-integer coordinate arrays')
    ctx.note(f'R9 analysed {len(lint.done)} function instances reachable from {n} contains() methods')


RULES = [
    RuleDef('R1', 'membership predicate = geometric definition (circle, ellipse, rectangle)', r1, 3),
    RuleDef('R2', 'polygon kernel: cyclic neighbour, even-odd crossing, parity; argument order', r2, 2),
    RuleDef('R3', 'point/line contain nothing (constant False of query shape)', r3, 4),
    RuleDef('R4', 'include epilogue: returns V xor not(include); every pixel class covered', r4, 20),
    RuleDef('R5', 'annulus = outer and not inner, complemented once', r5, 3),
    RuleDef('R6', 'result shape provenance (rank promotion undone)', r6, 7),
    RuleDef('R7', 'scalar-only `in` operator', r7, 1),
    RuleDef('R8', 'geometry reads current parameters only (no constructor-time cache)', r8, 12),
    RuleDef('R9', 'integer positions: no product/power of possibly-integer coordinate arrays in contains()', r9, 6),
]
