"""C07 — a sky region's pixel image has the size and orientation the WCS dictates."""
import sympy as sp

from ..report import RuleDef
from ..src import AnalysisError
from ..vg import (ANG, DEG, PIX, UNIT, App, Const, Evaluator, Obj, Tup,
                  contains_unknown, is_num, num_equal, show, sym, unq)
from .c06 import WCS, WorldModel, _sky_instance, pairs
from .common import method_or_fail

EXPLANATION = (
    'Decides from source (absolute, not only inverse-consistent): (R1) the helper pixel_scale_angle_at_skycoord takes the '
    'offset point at position angle 0 (north) and separation `offset`, returns scale = offset[arcsec]/(hypot(dx,dy) pix) and '
    'angle = atan2(dy, dx) in degrees with d = offset pixel − centre pixel, tuple order (pixcoord, scale, angle), pixcoord = '
    'world_to_pixel(centre); (R2) every to_pixel/to_pixel_args puts the centre at the helper\'s pixel coordinate, lengths = '
    'size/scale in pixels and angle_pix = angle_sky + (north − 90°) — the statement\'s "lengths divided by the local scale; '
    'width axis at the stated angle from local east". Not decided: that astropy\'s directional_offset_by/world_to_pixel mean '
    'what the table says; distortion; the numerics.')
EXPLANATION_ADDED = (' (R3) the conversion does not write through the region or the WCS (C13.R1 restricted to the sky->pixel path), so the second conversion of the same region is the first.')
EXPLANATION += EXPLANATION_ADDED
TRUSTED = ['SkyCoord.directional_offset_by(position_angle, separation): angle measured from north',
           'wcs.world_to_pixel returns (x, y)', 'np.arctan2(y, x), np.hypot']
ASSUMPTIONS = ['undistorted WCS: a 1-arcsec northward step fixes the local scale and the north direction']

HELPER = 'regions._utils.wcs_helpers'


def _offset_by_idiom(off, offq):
    """SkyCoord(*offset_by(lon=<lon of skycoord>, lat=<lat of skycoord>, posang=0, distance=offset), frame=<the frame object
    of skycoord>): what SkyCoord.directional_offset_by does itself (trusted: astropy's own definition)."""
    from ..vg import walk_terms
    if not (isinstance(off, App) and off.name.endswith('SkyCoord')):
        return False
    kw = {a.items[0].v: a.items[1] for a in off.args if isinstance(a, Tup) and len(a.items) == 2
          and isinstance(a.items[0], Const)}
    fr = kw.get('frame')
    frs = show(fr, 200) if fr is not None else ''
    if frs not in ('attr:frame(skycoord)', 'skycoord') and not frs.startswith('apply(attr:replicate_without_data(skycoord)'):
        return False
    obs = [x for x in walk_terms(off) if isinstance(x, App) and x.name.endswith('offset_by')]
    if len({show(x, 2000) for x in obs}) != 1:
        return False
    okw = {a.items[0].v: a.items[1] for a in obs[0].args if isinstance(a, Tup) and len(a.items) == 2
           and isinstance(a.items[0], Const)}
    if set(okw) != {'lon', 'lat', 'posang', 'distance'}:
        return False
    pa, dist = unq(okw['posang']), unq(okw['distance'])
    if not (is_num(pa) and pa == 0 and is_num(dist) and num_equal(dist, offq)):
        return False
    lon, lat = show(okw['lon'], 300), show(okw['lat'], 300)
    if not (lon.startswith('attr:lon(') and lat.startswith('attr:lat(') and 'skycoord' in lon and 'skycoord' in lat):
        return False
    # the two positional arguments are the two results of that one offset_by call, in order
    pos = [a for a in off.args if not (isinstance(a, Tup) and len(a.items) == 2 and isinstance(a.items[0], Const))]
    return len(pos) == 2 and all(isinstance(p_, App) and p_.name == 'getitem' and p_.args[1] == k
                                 for k, p_ in enumerate(pos))


def r1(ctx):
    m = ctx.model
    fi = m.func(HELPER, 'pixel_scale_angle_at_skycoord')
    calls = []

    def w2p(ev, args, kwargs):
        base, sky = args[0], args[1]
        calls.append(sky)
        i = len(calls)
        return Tup((sym(f'X{i}'), sym(f'Y{i}')))
    ev = Evaluator(m, hooks={'method:world_to_pixel': w2p})
    sc = Obj('SkyCoord', {}, 'skycoord')
    t = ev.call(fi, [sc, WCS], {})
    construct = 'pixel_scale_angle_at_skycoord'
    ctx.need(isinstance(t, Tup) and len(t.items) == 3, construct, f'does not return a 3-tuple: {show(t, 200)}')
    pc, scale, angle = t.items
    probs = []
    if len(calls) != 2 or not (isinstance(calls[0], Obj) and calls[0].path == 'skycoord'):
        probs.append(f'expected world_to_pixel(centre) then world_to_pixel(offset point); saw {[show(c, 80) for c in calls]}')
    else:
        off = calls[1]
        offq = UNIT['arcsec']          # default offset = 1 arcsec
        ok_off = isinstance(off, App) and off.name == 'apply' and 'attr:directional_offset_by(skycoord)' in show(off.args[0]) \
            and len(off.args) >= 3 and is_num(off.args[1]) and off.args[1] == 0 and is_num(unq(off.args[2])) \
            and num_equal(unq(off.args[2]), offq)
        if not ok_off:
            ok_off = _offset_by_idiom(off, offq)
        if not ok_off:
            probs.append(f'offset point is {show(off, 200)}; expected skycoord.directional_offset_by(0 [north], offset) (or the '
                         'same point built with offset_by() from the coordinate\'s own lon/lat in the coordinate\'s own frame '
                         'object — a frame *name* drops equinox/obstime)')
        X1, Y1, X2, Y2 = sym('X1'), sym('Y1'), sym('X2'), sym('Y2')
        dx, dy = X2 - X1, Y2 - Y1
        want_scale = offq / (sp.sqrt(dx ** 2 + dy ** 2) * PIX)
        if not (is_num(unq(scale)) and num_equal(unq(scale), want_scale)):
            probs.append(f'scale is {show(scale, 200)}; expected offset[arcsec] / (hypot(dx, dy) pix)')
        want_ang = sp.Function('atan2')(dy, dx) * ANG
        a = angle
        deg_ok = isinstance(a, App) and a.name == 'to' and num_equal(a.args[1], DEG)
        if not (is_num(unq(a)) and num_equal(unq(a), want_ang)):
            probs.append(f'angle is {show(a, 200)}; expected atan2(dy, dx) of (offset pixel − centre pixel)')
        elif not deg_ok:
            probs.append('angle is not converted to degrees')
        if not (isinstance(pc, Obj) and pc.cls == 'PixCoord' and pc.fields.get('x') == X1 and pc.fields.get('y') == Y1):
            probs.append(f'first element is {show(pc, 120)}, not PixCoord(world_to_pixel(centre))')
    if probs:
        ctx.bad(construct, 'formula', '; '.join(probs), fi.loc())
    else:
        ctx.ok(construct, 'north offset, scale = offset/(hypot pix), angle = atan2(dy, dx) in deg, order (pix, scale, angle)')


def r2(ctx):
    m = ctx.model
    n = 0
    for pci, sci in pairs(m):
        kinds = {p: m.descriptor_kind(sci, p) for p in m.params_of(sci)}
        if not any(k in ('PositiveScalarAngle', 'ScalarAngle') for k in kinds.values()):
            continue
        wm = WorldModel(m)
        ev = wm.ev
        s0 = _sky_instance(wm, sci)
        f = method_or_fail(ctx, sci, 'to_pixel')
        r = ev.call(f, [s0, WCS], {})
        construct = f'{sci.name}.to_pixel'
        ctx.need(isinstance(r, Obj), construct, 'no region built')
        center = ev.attr(s0, 'center', None)
        sig = wm.scale(center)
        nu = wm.north(center)
        cx, cy = wm.w2p_pair(center)
        probs = []
        for p, k in kinds.items():
            got = r.fields.get(p)
            if k == 'PositiveScalarAngle':
                want = (s0.fields[p] / sig / PIX)
                if not (is_num(unq(got)) and num_equal(unq(got), want)):
                    probs.append(f'{p} is {show(got, 160)}; expected {p}/scale in pixels')
            elif k == 'ScalarAngle':
                want = s0.fields[p] + (nu - 90 * DEG)
                if not (is_num(unq(got)) and num_equal(unq(got), want)):
                    probs.append(f'{p} is {show(got, 160)}; expected sky angle + (north_angle − 90°)')
            elif k == 'ScalarSkyCoord':
                if not (isinstance(got, Obj) and got.cls == 'PixCoord' and got.fields.get('x') == cx
                        and got.fields.get('y') == cy):
                    probs.append(f'{p} is {show(got, 120)}; expected the WCS image of the sky centre')
        n += 1
        if probs:
            ctx.bad(construct, 'absolute-geometry', '; '.join(probs), f.loc())
        else:
            ctx.ok(construct, 'centre = WCS image, lengths / scale, angle + (north − 90°)')
    ctx.need(n >= 6, 'sky classes with sizes', f'only {n}')


def r3(ctx):
    """a conversion leaves the sky region as it was (C13.R1 restricted to the sky -> pixel path): the pixel image of the
    same region on the same WCS is the same the second time — a conversion that updates the region's own angle or
    sizes in place (`angle = self.angle; angle += ...`) makes every later image wrong."""
    from .c09 import _SubCtx
    from .c13 import r1 as c13r1
    sub = _SubCtx(ctx, lambda c: any(k in c for k in ('to_pixel', 'wcs_helpers', 'SkyRegion.contains')))
    c13r1(sub)
    sub.flush('no write reaches the region or the WCS on the sky -> pixel path', 'sky -> pixel conversion')


RULES = [
    RuleDef('R1', 'helper: north offset, scale and angle formulas, tuple order', r1, 1),
    RuleDef('R2', 'to_pixel uses centre/scale/angle as the statement dictates', r2, 6),
    RuleDef('R3', 'the conversion does not modify the region it converts (C13.R1 on the sky -> pixel path)', r3, 1),
]
