"""C15 — membership, area, boxes and masks follow the region under rigid motions."""
import sympy as sp

from ..report import RuleDef
from ..src import AnalysisError
from ..vg import (App, Const, DictV, Evaluator, Obj, Tup, contains_unknown,
                  is_num, num_equal, same, show, sym, term_equal)
from .common import evaluator, method_or_fail

EXPLANATION = (
    'Decides from source, for every pivot, angle and parameter value: (R1) PixCoord.rotate is centre + R(angle)(p − centre) '
    'with R = [[cos, −sin], [sin, cos]] — an isometry fixing the pivot (|Rv|²−|v|² normalises to 0 modulo cos²+sin²=1); '
    '(R2) every concrete pixel class rotates each PixCoord-valued field about the *caller\'s* pivot by the caller\'s angle, adds '
    'the angle to its own angle field, rotates component regions recursively, keeps every other field, class and a copy of '
    'meta/visual, all through Region.copy (the original is untouched, with C13.R1); (R3) translation invariance of the mask '
    'construction is C02.R2 (grid extents relative to the centre/integer box) and C04.R1 (extents = centre ± f(sizes, angle)). '
    'Not decided: numerical area equality for polygons; exactness of integer translations in floating point.')
TRUSTED = ['np.matmul of a 2x2 matrix and a 2-vector', 'np.cos/np.sin', 'copy.deepcopy yields an equal independent value']
ASSUMPTIONS = ['real arithmetic']


def rotate_oracle(px, py, cx, cy, a):
    c, s = sp.cos(a), sp.sin(a)
    return cx + c * (px - cx) - s * (py - cy), cy + s * (px - cx) + c * (py - cy)


def r1(ctx):
    m = ctx.model
    ci = m.cls('PixCoord')
    f = method_or_fail(ctx, ci, 'rotate')
    ev = evaluator(ctx)
    p = Obj('PixCoord', {}, 'p', ci)
    c = Obj('PixCoord', {}, 'c', ci)
    a = sym('a')
    r = ev.call(f, [p, c, a], {})
    ctx.need(isinstance(r, Obj) and r.cls == 'PixCoord', 'PixCoord.rotate', f'returns {show(r, 120)}')
    px, py, cx, cy = sym('p.x'), sym('p.y'), sym('c.x'), sym('c.y')
    wx, wy = rotate_oracle(px, py, cx, cy, a)
    gx, gy = r.fields.get('x'), r.fields.get('y')
    if is_num(gx) and is_num(gy) and num_equal(gx, wx) and num_equal(gy, wy):
        iso = num_equal((gx - cx) ** 2 + (gy - cy) ** 2, (px - cx) ** 2 + (py - cy) ** 2)
        fix = num_equal(gx.subs({px: cx, py: cy}), cx) and num_equal(gy.subs({px: cx, py: cy}), cy)
        if iso and fix:
            ctx.ok('PixCoord.rotate', 'centre + R(angle)(p − centre); isometry; pivot fixed')
            return
    ctx.bad('PixCoord.rotate', 'matrix',
            f'rotated coordinate is ({show(gx, 160)}, {show(gy, 160)}); expected the counter-clockwise rotation about the '
            'given centre', f.loc())


def r2(ctx):
    m = ctx.model
    pix = m.cls('PixCoord')
    n = 0
    for ci in m.region_classes('pixel'):
        f = m.method(ci, 'rotate')
        construct = f'{ci.name}.rotate'
        if f is None:
            ctx.bad(construct, 'missing', 'no rotate method', ci.path)
            continue
        ev = evaluator(ctx)
        s = ev.symbolic_instance(ci)
        c = Obj('PixCoord', {}, 'c', pix)
        a = sym('a')
        r = ev.call(f, [s, c, a], {})
        n += 1
        if not (isinstance(r, Obj) and r.cls == ci.name):
            ctx.bad(construct, 'class', f'rotate returns {show(r, 120)}, not a {ci.name}', f.loc())
            continue
        probs = []
        for p in m.params_of(ci):
            kind = m.descriptor_kind(ci, p)
            got = r.fields.get(p)
            orig = ev.attr(s, p, None)
            if p == 'operator':
                got = r.fields.get('_operator')
                if got is None or 'attr:_operator(self)' not in show(got):
                    probs.append('operator not kept')
                continue
            if got is None:
                probs.append(f'{p} not supplied')
                continue
            if kind in ('ScalarPixCoord', 'OneDPixCoord'):
                wx, wy = rotate_oracle(sym(f'self.{p}.x'), sym(f'self.{p}.y'), sym('c.x'), sym('c.y'), a)
                gx = got.fields.get('x') if isinstance(got, Obj) else None
                gy = got.fields.get('y') if isinstance(got, Obj) else None
                if not (is_num(gx) and is_num(gy) and num_equal(gx, wx) and num_equal(gy, wy)):
                    probs.append(f'{p} becomes {show(got, 200)}, not its rotation about the caller\'s centre by the caller\'s angle')
            elif p == 'angle':
                if not (is_num(got) and num_equal(got, sym('self.angle') + a)):
                    probs.append(f'angle becomes {show(got, 120)}, not self.angle + angle')
            elif kind == 'RegionType':
                want = App('method:rotate', (orig, c, a))
                want2 = App('apply', (App('attr:rotate', (orig,)), c, a))
                if not (same(got, want) or same(got, want2)):
                    probs.append(f'{p} becomes {show(got, 160)}, not self.{p}.rotate(center, angle)')
            else:
                if term_equal(got, orig) != 'eq':
                    probs.append(f'{p} changes to {show(got, 120)}')
        for which in ('meta', 'visual'):
            v = r.fields.get(which)
            if not (isinstance(v, App) and v.name == 'copy' and isinstance(v.args[0], Obj)
                    and v.args[0].path == f'self.{which}'):
                probs.append(f'{which} of the rotated region is {show(v, 100)}, not a copy of self.{which}')
        if probs:
            ctx.bad(construct, 'rotate-completeness', '; '.join(probs), f.loc())
        else:
            ctx.ok(construct, 'coordinates rotated about the pivot, angle added, rest copied')
    ctx.need(n >= 12, 'pixel classes', f'only {n}')


RULES = [
    RuleDef('R1', 'PixCoord.rotate is the rotation matrix about the pivot (isometry)', r1, 1),
    RuleDef('R2', 'region.rotate completeness for every concrete pixel class', r2, 12),
]
