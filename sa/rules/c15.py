"""C15 — membership, area, boxes and masks follow the region under rigid motions."""
import sympy as sp

from ..report import RuleDef
from ..src import AnalysisError
from ..vg import (App, Const, DictV, Evaluator, Obj, Tup, contains_unknown,
                  is_num, num_equal, same, show, sym, term_equal)
from .common import evaluator, method_or_fail

EXPLANATION = (
    'Decides from source, for every pivot, angle and parameter value: (R1) PixCoord.rotate is centre + R(angle)(p − centre) '
    'with R = [[cos, −sin], [sin, cos]] — an isometry fixing the pivot (|Rv|²−|v|² normalises to 0 modulo cos²+sin²=1); '
    '(R2) every concrete pixel class rotates each PixCoord-valued field about the *caller\'s* pivot by the caller\'s angle, adds '
    'the angle to its own angle field, rotates component regions recursively, keeps every other field, class and a copy of '
    'meta/visual, all through Region.copy (the original is untouched, with C13.R1); (R3) translating a region by integer (Nx, Ny) '
    '— substituted symbolically into the evaluated bounding_box and to_mask — moves each of the four integer box fields by exactly '
    'N (floor/ceil/min/max commute with integer shifts) and leaves every argument handed to the circular/elliptical/rectangular '
    'mask kernels unchanged; the polygon kernel is absolute: its extents and vertex arrays move together and the even-odd crossing '
    'test (the form C01.R2 pins) is translation covariant; (R4) the area of every pixel class is a term in the size parameters only '
    '(no centre, angle, vertices, start, end), and the polygon area is |shoelace|/2 for n = 3, 4, 5 symbolic vertices and invariant '
    'under R1\'s rotation about any pivot. Not decided: exactness of integer translations in floating point; polygons beyond n = 5 '
    '(the code is uniform in n).')
EXPLANATION_ADDED2 = (' (R4b) the area is computed in floating point: no product / power of size attributes in their own (possibly fixed-width integer) dtype (dataflow of C01.R9).')
EXPLANATION += EXPLANATION_ADDED2
TRUSTED = ['np.matmul of a 2x2 matrix and a 2-vector', 'np.cos/np.sin', 'copy.deepcopy yields an equal independent value']
ASSUMPTIONS = ['real arithmetic']


def rotate_oracle(px, py, cx, cy, a):
    c, s = sp.cos(a), sp.sin(a)
    return cx + c * (px - cx) - s * (py - cy), cy + s * (px - cx) + c * (py - cy)


def r1(ctx):
    m = ctx.model
    ci = m.cls('PixCoord')
    f = method_or_fail(ctx, ci, 'rotate')
    ev = evaluator(ctx)
    p = Obj('PixCoord', {}, 'p', ci)
    c = Obj('PixCoord', {}, 'c', ci)
    a = sym('a')
    r = ev.call(f, [p, c, a], {})
    ctx.need(isinstance(r, Obj) and r.cls == 'PixCoord', 'PixCoord.rotate', f'returns {show(r, 120)}')
    # rank: coordinates may be arrays of any shape; np.matmul / @ / np.dot treat a stacked (2, n, m) operand as a
    # stack of matrices, so they rotate per point only for scalars and 1-D arrays
    import ast as _ast
    from ..astutil import call_name
    for n in _ast.walk(f.node):
        nm = (call_name(n) or '') if isinstance(n, _ast.Call) else ''
        if (isinstance(n, _ast.BinOp) and isinstance(n.op, _ast.MatMult)) or nm.split('.')[-1] in ('matmul', 'dot'):
            ctx.bad('PixCoord.rotate', 'rank',
                    f'`{_ast.unparse(n)[:70]}` contracts the rotation matrix with the stacked (x, y) array by matmul/dot '
                    'broadcasting rules: for coordinate arrays with 2 or more dimensions (e.g. shape (2, 3)) the result is not '
                    'the per-point rotation (np.tensordot(R, v, axes=1), einsum or the component formula are rank-generic)',
                    f.loc(n))
            return
    px, py, cx, cy = sym('p.x'), sym('p.y'), sym('c.x'), sym('c.y')
    wx, wy = rotate_oracle(px, py, cx, cy, a)
    gx, gy = r.fields.get('x'), r.fields.get('y')
    if is_num(gx) and is_num(gy) and num_equal(gx, wx) and num_equal(gy, wy):
        iso = num_equal((gx - cx) ** 2 + (gy - cy) ** 2, (px - cx) ** 2 + (py - cy) ** 2)
        fix = num_equal(gx.subs({px: cx, py: cy}), cx) and num_equal(gy.subs({px: cx, py: cy}), cy)
        if iso and fix:
            ctx.ok('PixCoord.rotate', 'centre + R(angle)(p − centre); isometry; pivot fixed')
            return
    ctx.bad('PixCoord.rotate', 'matrix',
            f'rotated coordinate is ({show(gx, 160)}, {show(gy, 160)}); expected the counter-clockwise rotation about the '
            'given centre', f.loc())


def r2(ctx):
    m = ctx.model
    pix = m.cls('PixCoord')
    n = 0
    for ci in m.region_classes('pixel'):
        f = m.method(ci, 'rotate')
        construct = f'{ci.name}.rotate'
        if f is None:
            ctx.bad(construct, 'missing', 'no rotate method', ci.path)
            continue
        ev = evaluator(ctx)
        s = ev.symbolic_instance(ci)
        c = Obj('PixCoord', {}, 'c', pix)
        a = sym('a')
        r = ev.call(f, [s, c, a], {})
        n += 1
        if not (isinstance(r, Obj) and r.cls == ci.name):
            ctx.bad(construct, 'class', f'rotate returns {show(r, 120)}, not a {ci.name}', f.loc())
            continue
        probs = []
        for p in m.params_of(ci):
            kind = m.descriptor_kind(ci, p)
            got = r.fields.get(p)
            orig = ev.attr(s, p, None)
            if p == 'operator':
                got = r.fields.get('_operator')
                if got is None or 'attr:_operator(self)' not in show(got):
                    probs.append('operator not kept')
                continue
            if got is None:
                probs.append(f'{p} not supplied')
                continue
            if kind in ('ScalarPixCoord', 'OneDPixCoord'):
                wx, wy = rotate_oracle(sym(f'self.{p}.x'), sym(f'self.{p}.y'), sym('c.x'), sym('c.y'), a)
                gx = got.fields.get('x') if isinstance(got, Obj) else None
                gy = got.fields.get('y') if isinstance(got, Obj) else None
                if not (is_num(gx) and is_num(gy) and num_equal(gx, wx) and num_equal(gy, wy)):
                    probs.append(f'{p} becomes {show(got, 200)}, not its rotation about the caller\'s centre by the caller\'s angle')
            elif p == 'angle':
                if not (is_num(got) and num_equal(got, sym('self.angle') + a)):
                    probs.append(f'angle becomes {show(got, 120)}, not self.angle + angle')
            elif kind == 'RegionType':
                want = App('method:rotate', (orig, c, a))
                want2 = App('apply', (App('attr:rotate', (orig,)), c, a))
                if not (same(got, want) or same(got, want2)):
                    probs.append(f'{p} becomes {show(got, 160)}, not self.{p}.rotate(center, angle)')
            else:
                if term_equal(got, orig) != 'eq':
                    probs.append(f'{p} changes to {show(got, 120)}')
        for which in ('meta', 'visual'):
            v = r.fields.get(which)
            if not (isinstance(v, App) and v.name == 'copy' and isinstance(v.args[0], Obj)
                    and v.args[0].path == f'self.{which}'):
                probs.append(f'{which} of the rotated region is {show(v, 100)}, not a copy of self.{which}')
        if probs:
            ctx.bad(construct, 'rotate-completeness', '; '.join(probs), f.loc())
        else:
            ctx.ok(construct, 'coordinates rotated about the pivot, angle added, rest copied')
    ctx.need(n >= 12, 'pixel classes', f'only {n}')


# ---------------------------------------------------------------- translations
BOXED = ('CirclePixelRegion', 'EllipsePixelRegion', 'RectanglePixelRegion', 'PolygonPixelRegion',
         'LinePixelRegion', 'PointPixelRegion')
NX, NY = sp.Symbol('Nx', integer=True), sp.Symbol('Ny', integer=True)


def _pull_int(e):
    """arr_min(v + n) -> arr_min(v) + n (same for arr_max) for integer symbols n: the extreme of a
    translated array is the translated extreme."""
    def fix(fn):
        def rw(arg):
            ints = [t for t in sp.Add.make_args(arg) if t in (NX, NY)]
            rest = arg - sum(ints, sp.Integer(0))
            return fn(rest) + sum(ints, sp.Integer(0))
        return rw
    for nm in ('arr_min', 'arr_max'):
        f = sp.Function(nm)
        e = e.replace(f, fix(f))

    def common(fn):
        def rw(*args):
            out = sp.Integer(0)
            for n_ in (NX, NY):
                if all(n_ in sp.Add.make_args(sp.expand(a)) for a in args):
                    out += n_
            return fn(*[sp.expand(a) - out for a in args]) + out
        return rw
    e = e.replace(sp.Min, common(sp.Min)).replace(sp.Max, common(sp.Max))
    return e


def _shift_map(cname):
    S = sym
    if cname == 'PolygonPixelRegion':
        return {S('self.vertices.x'): S('self.vertices.x') + NX, S('self.vertices.y'): S('self.vertices.y') + NY}
    if cname == 'LinePixelRegion':
        return {S('self.start.x'): S('self.start.x') + NX, S('self.end.x'): S('self.end.x') + NX,
                S('self.start.y'): S('self.start.y') + NY, S('self.end.y'): S('self.end.y') + NY}
    return {S('self.center.x'): S('self.center.x') + NX, S('self.center.y'): S('self.center.y') + NY}


def _shifted(e, mp):
    return _pull_int(e.subs(mp, simultaneous=True))


def r3(ctx):
    """bounding box follows an integer translation; the mask kernel's inputs do not see it."""
    from .c02 import _grid_args
    from .c04 import _bbox
    for cname in BOXED:
        ci, f, box = _bbox(ctx, cname)
        construct = f'{cname}.bounding_box'
        ctx.need(isinstance(box, Obj) and box.cls == 'RegionBoundingBox', construct, 'no box value')
        mp = _shift_map(cname)
        bad = None
        for fld, n_ in (('ixmin', NX), ('ixmax', NX), ('iymin', NY), ('iymax', NY)):
            v = box.fields.get(fld)
            ctx.need(v is not None and is_num(v) and not contains_unknown(v), construct, f'{fld} not understood')
            d = sp.simplify(_shifted(v, mp) - v - n_)
            if d != 0:
                bad = (fld, v, d)
                break
        if bad:
            ctx.bad(construct, 'translation',
                    f'{bad[0]} = {show(bad[1], 160)} does not move by N when the region is translated by N whole pixels '
                    f'(residual {bad[2]})', f.loc())
        else:
            ctx.ok(construct, 'box(region + N) = box(region) + N for integer N')
    for cname in ('CirclePixelRegion', 'EllipsePixelRegion', 'RectanglePixelRegion', 'PolygonPixelRegion'):
        ci, f, s, t, ev, a = _grid_args(ctx, cname)
        construct = f'{cname}.to_mask'
        mp = _shift_map(cname)
        names = ['xmin', 'xmax', 'ymin', 'ymax', 'nx', 'ny']
        shift = [0, 0, 0, 0, 0, 0] if cname != 'PolygonPixelRegion' else [NX, NX, NY, NY, 0, 0]
        bad = None
        for nm, g, sh in zip(names, a[:6], shift):
            ctx.need(is_num(g) and not contains_unknown(g), construct, f'kernel argument {nm} not understood')
            d = sp.simplify(_shifted(g, mp) - g - sh)
            if d != 0:
                bad = (nm, g, d)
                break
        # the remaining (size/angle/sampling) arguments must not mention the position at all
        for k, g in enumerate(a[6:]):
            if cname == 'PolygonPixelRegion' and k < 2:
                continue          # the vertex arrays themselves: absolute, shifted with the extents (below)
            if is_num(g) and (g.free_symbols & set(mp)):
                bad = (f'arg{6 + k}', g, 'mentions the position')
        if bad:
            ctx.bad(construct, 'translation',
                    f'kernel argument {bad[0]} = {show(bad[1], 160)} changes under a whole-pixel translation of the region '
                    f'({bad[2]}): the mask array would depend on where the region sits', f.loc())
            continue
        if cname == 'PolygonPixelRegion':
            # absolute kernel: extents and vertices both move by N; the even-odd crossing test is translation covariant
            x, y, vxi, vxj, vyi, vyj = (sp.Symbol(n_) for n_ in ('x', 'y', 'vxi', 'vxj', 'vyi', 'vyj'))
            cross = x - ((vxj - vxi) * (y - vyi) / (vyj - vyi) + vxi)
            mv = {x: x + NX, vxi: vxi + NX, vxj: vxj + NX, y: y + NY, vyi: vyi + NY, vyj: vyj + NY}
            ok = sp.simplify(cross.subs(mv, simultaneous=True) - cross) == 0 and \
                sp.simplify((y - vyi).subs(mv, simultaneous=True) - (y - vyi)) == 0
            ctx.need(ok, construct, 'crossing predicate not translation covariant (oracle)')
            ctx.ok(construct, 'extents and vertices move together; crossing test (C01.R2 form) is translation covariant')
        else:
            ctx.ok(construct, 'every kernel input is invariant under a whole-pixel translation')


def r4(ctx):
    """area is a function of the size parameters only (circle, ellipse, rectangle, annuli) or the shoelace
    form (polygon): rotation, which changes centre/angle/vertices only (R2), keeps it."""
    m = ctx.model
    rot = {'center', 'angle', 'vertices', 'start', 'end'}
    for ci in m.region_classes('pixel'):
        f = m.method(ci, 'area')
        construct = f'{ci.name}.area'
        if f is None:
            ctx.bad(construct, 'missing', 'no area', ci.path)
            continue
        if ci.name == 'PolygonPixelRegion' or m.is_subclass(ci, 'PolygonPixelRegion'):
            _polygon_area(ctx, ci, f)
            continue
        ev = evaluator(ctx)
        s = ev.symbolic_instance(ci)
        try:
            v = ev.call(f, [s], {})
        except Exception as exc:  # abstract / NotImplementedError
            v = None
        if v is None or (isinstance(v, Const) and v.v is None):
            ctx.ok(construct, 'no area defined (raises NotImplementedError)')
            continue
        ctx.need(contains_unknown(v) is None, construct, 'area value not understood')
        txt = show(v, 2000)
        hit = [p for p in rot if f'self.{p}' in txt or f'.{p}' in txt.replace('self.', '.')]
        if hit:
            ctx.bad(construct, 'depends-on-pose', f'area {show(v, 200)} depends on {hit}: not invariant under rotation',
                    f.loc())
        else:
            ctx.ok(construct, f'area = {show(v, 80)}: no dependence on position or orientation')


def _polygon_area(ctx, ci, f):
    """shoelace: for n = 3, 4, 5 symbolic vertices the area term equals 1/2 |sum x_i y_{i+1} - x_{i+1} y_i| and is
    unchanged by R1's rotation about any pivot."""
    m = ctx.model
    pc = m.cls('PixCoord')
    construct = f'{ci.name}.area'
    for n in (3, 4, 5):
        ev = evaluator(ctx)
        xs = [sym(f'x{i}') for i in range(n)]
        ys = [sym(f'y{i}') for i in range(n)]
        v = Obj('PixCoord', {'x': Tup(tuple(xs), 'array'), 'y': Tup(tuple(ys), 'array')}, None, pc)
        s = Obj(ci.name, {'vertices': v}, 'self', ci)
        a = ev.call(f, [s], {})
        ctx.need(is_num(a) and contains_unknown(a) is None, construct, f'area value not understood: {show(a, 200)}')
        shoelace = sum(xs[i] * ys[(i + 1) % n] - xs[(i + 1) % n] * ys[i] for i in range(n)) / 2
        inner = a.args[0] if isinstance(a, sp.Abs) else None
        coef = sp.Integer(1)
        if inner is None and isinstance(a, sp.Mul):
            abss = [t for t in a.args if isinstance(t, sp.Abs)]
            if len(abss) == 1:
                inner = abss[0].args[0]
                coef = a / abss[0]
        if inner is None or not (sp.expand(coef * inner - shoelace) == 0 or sp.expand(coef * inner + shoelace) == 0):
            ctx.bad(construct, 'shoelace', f'area for {n} vertices is {show(a, 200)}, not |shoelace|/2', f.loc())
            return
        cx, cy, th = sym('c.x'), sym('c.y'), sym('a')
        mv = {}
        for i in range(n):
            rx, ry = rotate_oracle(xs[i], ys[i], cx, cy, th)
            mv[xs[i]], mv[ys[i]] = rx, ry
        if not num_equal((coef * inner).subs(mv, simultaneous=True), coef * inner):
            ctx.bad(construct, 'rotation', f'signed area for {n} vertices changes under rotation', f.loc())
            return
    ctx.ok(construct, 'shoelace form for n = 3, 4, 5 symbolic vertices; invariant under rotation about any pivot')


def r4b(ctx):
    """the area is the real-number area whatever type the sizes were given in: PositiveScalar stores np.int16(200) as it is,
    and `radius ** 2` / `width * height` in that dtype wrap around (a negative area) — the may-be-integer dataflow of C01.R9
    over every `area`, with the size attributes and vertex arrays as possibly-integer sources."""
    from .c01 import _DtypeLint
    m = ctx.model
    n = 0
    for ci in m.region_classes('pixel'):
        f = ci.methods.get('area')
        if f is None:
            continue
        n += 1
        lint = _DtypeLint(ctx, m, sums=False, int_descr_kinds=('PositiveScalar',))
        lint.fn(f, ['scalar'])
        if lint.problems:
            fi, node, text = lint.problems[0]
            ctx.bad(f'{ci.name}.area', 'fixed-width-size',
                    f'{text}: with sizes given as fixed-width numpy integers the product wraps around (np.int16(200) ** 2 is '
                    '-25536); convert to float first', fi.loc(node))
        else:
            ctx.ok(f'{ci.name}.area', 'no product / power of possibly-integer sizes')
    ctx.need(n >= 6, 'area properties', f'only {n} found')


RULES = [
    RuleDef('R1', 'PixCoord.rotate is the rotation matrix about the pivot (isometry)', r1, 1),
    RuleDef('R2', 'region.rotate completeness for every concrete pixel class', r2, 12),
    RuleDef('R3', 'whole-pixel translation: box moves by N, mask kernel inputs do not change', r3, 10),
    RuleDef('R4', 'area does not depend on position or orientation (shoelace for polygons)', r4, 12),
    RuleDef('R4b', 'area is computed in floating point (sizes given as fixed-width integers cannot wrap)', r4b, 6),
]
