"""C13 — operations never mutate their inputs nor depend on call history."""
import ast

from ..astutil import (call_name, calls_in, dotted, enclosing_tests, norm,
                       parents, stmts_of)
from ..fx import FX, param_name
from ..report import RuleDef
from ..src import AnalysisError

EXPLANATION = (
    'Decides from source, for every call history at once, a sufficient condition for history independence: '
    '(R1) no store / del / augmented assignment / mutator call reachable from a public entry (registered I/O '
    'functions; public and special methods of Region subclasses, Regions, PixCoord, RegionMask, RegionBoundingBox, '
    'Meta) can write through a reference rooted in a parameter of that entry (documented self-mutators excepted); '
    '(R2) no function body writes module- or class-level objects (registry writes happen only in the import-time '
    'decorator); (R3) no shared default-argument object is written; (R4) module/class-level iterator objects are '
    'consumed only where they are stateless (one-element cycles) — the stateful ds9 templates are unreachable at '
    'the consuming lookup by key-domain refinement; (R5) nothing that reaches output iterates a set without '
    'sorting. Interprocedural may-alias analysis with allocation-site heap and call-site-instantiated summaries. '
    'Not decided: mutations performed inside numpy/astropy/matplotlib by calls the table believes pure.')
EXPLANATION_ADDED = (" (R6) no shared default-argument object is stored in an instance un-copied (the store is followed into the descriptor's __set__).")
EXPLANATION += EXPLANATION_ADDED
EXPLANATION_ADDED2 = (" (R7) objects that live across the iterations of a reader's loop reach the per-line results only through copy.deepcopy: a may-hold-a-reference dataflow (sources: the names bound before the main loop of the DS9 raw parser and changed inside it, followed into the module functions they are handed to; propagators: assignment, .copy(), dict(), .items(), repository classes such as RegionMeta(x); sanitizer: copy.deepcopy) must find no return of such an object from a helper whose value leaves towards a result, and no attribute store `result.attr = <object made before the loop>` in a function that builds several regions per call.")
EXPLANATION += EXPLANATION_ADDED2
TRUSTED = ['known-mutator table of container methods; alias-returning externals table (np.asarray, slicing, '
           'dict.get/items/values, getattr...); every other external call returns a fresh value and mutates nothing',
           'ndarray <<= astropy unit rebinds (numpy declines, unit.__rlshift__ builds a new Quantity)']
ASSUMPTIONS = ['no setattr/__dict__ tricks outside the descriptor (C17.R3)']

DOCUMENTED_SELF_MUTATORS = {
    'Regions': {'append', 'extend', 'insert', 'pop', 'reverse', '__init__', '__setitem__', '__delitem__'},
    'Meta': {'__init__', '__setitem__', 'update', 'setdefault', '__ior__', '__delitem__', 'pop', 'clear'},
}
SELECTOR = {'as_mpl_selector', '_update_from_mpl_selector'}

# reviewed exceptions: (function qualname, normalised statement) -> reason
REVIEWED = {
    ('regions.io.fits.write:_serialize_region_fits', 'value /= 2.0'):
        'value is getattr(region, <PositiveScalar field>): an immutable Python/numpy scalar, so /= rebinds',
    ('regions.io.fits.write:_make_column', 'arr <<= u.pix'):
        'ndarray.__ilshift__ declines an astropy unit; unit.__rlshift__ builds a new Quantity: rebinds arr',
    ('regions.core.mask:RegionMask.cutout', 'cutout <<= data.unit'):
        'cutout is a freshly allocated array on this path (np.zeros)',
}


# the same reviewed statements, keyed by module: the reason given is about the statement's operands (an ndarray and an
# astropy unit), not about the function it stands in, so moving the statement into a helper of the same module keeps it
REVIEWED_IN_MODULE = {(fq.split(':')[0], st) for (fq, st) in REVIEWED if st in ('arr <<= u.pix',)}


def entries(model):
    out = []
    seen = set()
    for k, fi in sorted(model.registry.items(), key=lambda kv: kv[1].qualname):
        if fi.qualname not in seen:
            seen.add(fi.qualname)
            out.append((fi, 'registered I/O function', set()))
    pub = list(model.subclasses('Region')) + [model.cls(n) for n in (
        'Regions', 'PixCoord', 'RegionMask', 'RegionBoundingBox', 'Meta', 'RegionMeta', 'RegionVisual')]
    for ci in pub:
        for name, fi in sorted(ci.methods.items()):
            base = name.split('.')[0]
            if base.startswith('_') and not (base.startswith('__') and base.endswith('__')):
                continue
            if fi.qualname in seen:
                continue
            seen.add(fi.qualname)
            allowed_self = False
            if base in ('__init__', '__setattr__', '__delattr__') or base in SELECTOR or name.endswith('.setter'):
                # (__setattr__ *is* the assignment: writing self is its meaning; a call that assigns is charged
                # with the store at its own site)
                allowed_self = True
            for cname, ms in DOCUMENTED_SELF_MUTATORS.items():
                if model.is_subclass(ci, cname) and base in ms:
                    allowed_self = True
            out.append((fi, f'public method of {ci.name}', {0} if allowed_self else set()))
    return out


def _fx(ctx):
    if not hasattr(ctx, '_fx'):
        ctx._fx = FX(ctx.model)
        ctx._entries = entries(ctx.model)
        ctx._events = []
        for fi, why, allowed in ctx._entries:
            s = ctx._fx.summary(fi)
            for ev in s.muts:
                ctx._events.append((fi, allowed, ev))
        ctx.note(f'FX: {len(ctx._entries)} public entries, {ctx._fx.ncalls} call sites seen, '
                 f'{ctx._fx.nresolved} resolved to repository callees, {ctx._fx.nsites} allocation sites')
    return ctx._fx


def _ev_key(ev):
    return f'{ev.func.split(":")[1]}:{" ".join(ev.stmt.split())[:90]}'


def r1(ctx):
    _fx(ctx)
    ctx.need(len(ctx._entries) >= 150, 'public entries', f'only {len(ctx._entries)} entries found')
    bad = {}
    for fi, allowed, ev in ctx._events:
        if ev.target[0] != 'param' or ev.via.startswith('iteration'):
            continue
        if ev.target[1] in allowed:
            continue
        if fi.name == '__deepcopy__' and ev.func == fi.qualname and len(fi.node.args.args) == 2 \
                and ev.target[1] in (1, fi.node.args.args[1].arg):
            continue        # the memo dictionary of the copy protocol is there to be written (memo[id(self)] = result)
        # self-stores inside selector callbacks etc. reached through an allowed entry are allowed;
        if (ev.func, ' '.join(ev.stmt.split())) in REVIEWED or \
                (ev.func.split(':')[0], ' '.join(ev.stmt.split())) in REVIEWED_IN_MODULE:
            continue
        bad.setdefault(_ev_key(ev), []).append((fi, ev))
    reported = set()
    for fi, why, allowed in ctx._entries:
        mine = [k for k, lst in bad.items() if any(f is fi for f, _ in lst)]
        if not mine:
            ctx.ok(fi.qualname.split(':')[1] + f' [{fi.path}]', 'no write reaches a parameter')
    for k, lst in sorted(bad.items()):
        fi, ev = lst[0]
        pn = param_name(fi, ev.target[1])
        path = '.'.join(ev.target[2])
        ents = sorted({f.qualname.split(':')[1] for f, _ in lst})
        ctx.bad(ev.func.split(':')[1], ' '.join(ev.stmt.split())[:90],
                f'`{ev.stmt}` ({ev.via}) writes through `{pn}{"." + path if path else ""}` of the public entry '
                f'{ents[0]}' + (f' (and {len(ents) - 1} more entries)' if len(ents) > 1 else '') +
                ': the caller\'s object is modified' +
                (f'; call chain {" -> ".join(ev.chain)}' if ev.chain else ''),
                f'{ev.path}:{ev.func.split(":")[1]}:{ev.line}',
                {'entries': ents, 'target': str(ev.target), 'chain': list(ev.chain)})
    for (fn, st), why in REVIEWED.items():
        ctx.note(f'reviewed exception {fn}: `{st}` — {why}')


def _global_objects(model):
    out = []
    for mi in model.modules.values():
        for name, sts in mi.assigns.items():
            if name.startswith('__'):
                continue
            for st in sts:
                v = getattr(st, 'value', None)
                if isinstance(v, (ast.Dict, ast.List, ast.Set, ast.DictComp, ast.ListComp)) or (
                        isinstance(v, ast.Call) and (call_name(v) or '').split('.')[-1] in (
                            'dict', 'list', 'set', 'cycle', 'chain', 'OrderedDict', 'zip')):
                    out.append(f'{mi.name}.{name}')
                    break
        for ci in mi.classes.values():
            for name, v in ci.assigns.items():
                if isinstance(v, (ast.Dict, ast.List, ast.Set)) or (isinstance(v, ast.Call) and (
                        call_name(v) or '').split('.')[-1] in ('dict', 'list', 'set', 'RegionMeta', 'RegionVisual',
                                                                'cycle', 'chain', 'zip')):
                    out.append(f'{mi.name}.{ci.name}.{name}')
    return sorted(set(out))


def r2(ctx):
    fx = _fx(ctx)
    m = ctx.model
    objs = _global_objects(m)
    ctx.need(len(objs) >= 15, 'module/class-level mutable objects', f'only {len(objs)} found')
    hits = {}
    # every function of the package (not only the public entries)
    for fi in m.all_functions():
        if fi.path.endswith('.pyx'):
            continue
        s = fx.summary(fi)
        for ev in s.muts:
            if ev.target[0] == 'global' and not ev.via.startswith('iteration'):
                hits.setdefault((ev.target[1], ev.func, ' '.join(ev.stmt.split())), ev)
    allowed = {('regions.core.registry.RegionsRegistry.registry', 'regions.core.registry:RegionsRegistry.register')}
    # the register wrapper is a closure: find stores into cls.registry inside nested defs
    reg = m.method(m.cls('RegionsRegistry'), 'register')
    ctx.need(reg is not None, 'RegionsRegistry.register', 'missing')
    writers = []
    for fi in m.all_functions():
        for n in ast.walk(fi.node):
            if isinstance(n, (ast.Assign, ast.AugAssign)):
                tg = n.targets if isinstance(n, ast.Assign) else [n.target]
                for t in tg:
                    if isinstance(t, ast.Subscript) and (dotted(t.value) or '').endswith('.registry'):
                        writers.append(fi.qualname)
    if set(writers) <= {reg.qualname}:
        ctx.ok('RegionsRegistry.registry', 'written only by the register() decorator')
    else:
        ctx.bad('RegionsRegistry.registry', 'extra-writer',
                f'registry written outside register(): {sorted(set(writers) - {reg.qualname})}', reg.loc())
    # register() is used only as a decorator (import time)
    uses = 0
    for fi in m.all_functions():
        for c in calls_in(fi.node):
            if (call_name(c) or '').endswith('RegionsRegistry.register'):
                if not any(c is d for d in fi.node.decorator_list):
                    ctx.bad(fi.qualname.split(':')[1], 'runtime-register',
                            'RegionsRegistry.register called at run time (registry would depend on history)',
                            fi.loc(c))
                else:
                    uses += 1
    touched = {h[0] for h in hits}
    for o in objs:
        mine = [h for h in hits if h[0] == o or h[0].startswith(o)]
        if not mine:
            ctx.ok(o, 'never written by a function body')
    def immutable_elements(g):
        """the module-level object is a literal container whose elements are all immutable constants: nothing can be
        written *through* one of its elements."""
        mod, _, name = g.rpartition('.')
        mi = m.modules.get(mod)
        if mi is None or name not in mi.assigns or len(mi.assigns[name]) != 1:
            return False
        v = mi.assigns[name][0].value

        def const(e):
            return isinstance(e, ast.Constant) or (isinstance(e, ast.Tuple) and all(const(x) for x in e.elts))
        if isinstance(v, ast.Dict):
            return all(const(x) for x in v.values)
        if isinstance(v, (ast.List, ast.Tuple, ast.Set)):
            return all(const(x) for x in v.elts)
        return False
    for (g, fn, st), ev in sorted(hits.items()):
        if len(ev.target) > 2 and ev.target[2] and immutable_elements(g) and ev.via.startswith('augmented'):
            continue      # `x op= y` on a string/number taken from a constant table rebinds the local name
        ctx.bad(fn.split(':')[1], f'global:{g.split(".")[-1]}:{st[:70]}',
                f'`{ev.stmt}` ({ev.via}) writes the module/class-level object {g}: later calls see the change',
                f'{ev.path}:{fn.split(":")[1]}:{ev.line}')


def r3(ctx):
    fx = _fx(ctx)
    m = ctx.model
    n = 0
    hits = {}
    for fi in m.all_functions():
        if fi.path.endswith('.pyx'):
            continue
        a = fi.node.args
        for d in list(a.defaults) + [x for x in a.kw_defaults if x is not None]:
            if not isinstance(d, (ast.Constant, ast.Name, ast.UnaryOp)) and not (
                    isinstance(d, ast.Tuple) and not d.elts):
                n += 1
        s = fx.summary(fi)
        for ev in s.muts:
            if ev.target[0] == 'default':
                hits[(ev.func, ' '.join(ev.stmt.split()))] = ev
    ctx.need(n >= 8, 'shared default objects', f'only {n} mutable default-argument objects found')
    if not hits:
        ctx.ok(f'{n} shared default-argument objects', 'none is the target of an in-place operation')
    for (fn, st), ev in sorted(hits.items()):
        ctx.bad(fn.split(':')[1], f'default:{st[:70]}',
                f'`{ev.stmt}` may write the shared default object of parameter `{ev.target[2]}` of {ev.target[1]}',
                f'{ev.path}:{fn.split(":")[1]}:{ev.line}')


def r4(ctx):
    fx = _fx(ctx)
    m = ctx.model
    its = fx.iterator_globals()
    ctx.need(len(its) >= 2, 'shared iterators', f'only {len(its)} iterator-valued globals found')
    # consumption sites
    cons = {}
    for fi in m.all_functions():
        if fi.path.endswith('.pyx'):
            continue
        s = fx.summary(fi)
        for ev in s.muts:
            if ev.target[0] == 'global' and ev.via.startswith('iteration') and ev.func == fi.qualname:
                cons[(ev.func, ev.line, ev.target[1])] = (fi, ev)
    for g, info in sorted(its.items()):
        stateful_keys = {k for k, v in info['elems'].items() if v == 'stateful'}
        mine = [(fi, ev) for (fn, ln, gg), (fi, ev) in cons.items() if gg == g]
        if info['self'] == 'stateful':
            if mine:
                fi, ev = mine[0]
                ctx.bad(g.split('.', 2)[-1], 'stateful-iterator-consumed',
                        f'module-level stateful iterator {g} is consumed at `{ev.stmt}`: the second call sees it '
                        'exhausted/advanced', f'{ev.path}:{ev.func.split(":")[1]}:{ev.line}')
            else:
                ctx.ok(g, 'stateful iterator object never consumed by a function')
            continue
        if not stateful_keys:
            ctx.ok(g, 'only stateless one-element cycles (consuming them leaves no trace)')
            continue
        if not mine:
            ctx.ok(g, f'stateful entries {sorted(stateful_keys)} never consumed')
            continue
        for fi, ev in mine:
            reach = _reachable_keys(fi, g, set(info['elems']) | _table_keys(m, g), m)
            hot = reach & stateful_keys if reach is not None else stateful_keys
            if hot:
                ctx.bad(fi.qualname.split(':')[1], f'iterator:{g.split(".")[-1]}',
                        f'the shared stateful iterators {g}[{sorted(hot)}] can reach the consuming site `{ev.stmt}`: '
                        'parsing would depend on what was parsed before',
                        f'{ev.path}:{ev.func.split(":")[1]}:{ev.line}')
            else:
                ctx.ok(f'{g} @ {fi.qualname.split(":")[1]}',
                       f'lookup only reachable for keys {sorted(reach)}; stateful keys {sorted(stateful_keys)} excluded')


def _table_keys(m, g):
    mod, name = g.rsplit('.', 1)
    mi = m.modules.get(mod)
    keys = set()
    if mi and name in mi.assigns:
        v = mi.assigns[name][0].value
        if isinstance(v, ast.Dict):
            keys = {k.value for k in v.keys if isinstance(k, ast.Constant)}
    return keys


def _key_test(t, keyvar, key, local_defs, depth=0, consts=None):
    """truth of test `t` when keyvar == key: True / False / None (does not depend on the key or not understood)."""
    if depth > 4:
        return None
    if isinstance(t, ast.Name) and t.id in local_defs:
        return _key_test(local_defs[t.id], keyvar, key, local_defs, depth + 1, consts)
    if isinstance(t, ast.UnaryOp) and isinstance(t.op, ast.Not):
        v = _key_test(t.operand, keyvar, key, local_defs, depth + 1, consts)
        return None if v is None else (not v)
    if isinstance(t, ast.BoolOp):
        vs = [_key_test(x, keyvar, key, local_defs, depth + 1, consts) for x in t.values]
        if isinstance(t.op, ast.And):
            return False if any(v is False for v in vs) else (True if all(v is True for v in vs) else None)
        return True if any(v is True for v in vs) else (False if all(v is False for v in vs) else None)
    if isinstance(t, ast.Compare) and len(t.ops) == 1 and isinstance(t.left, ast.Name) and t.left.id == keyvar:
        op, c = t.ops[0], t.comparators[0]
        if isinstance(op, (ast.In, ast.NotIn)) and isinstance(c, (ast.Tuple, ast.List, ast.Set)) \
                and all(isinstance(e, ast.Constant) for e in c.elts):
            r = key in {e.value for e in c.elts}
            return r if isinstance(op, ast.In) else not r
        if isinstance(op, (ast.In, ast.NotIn)) and isinstance(c, ast.Name) and consts and c.id in consts:
            r = key in consts[c.id]            # a module-level constant table
            return r if isinstance(op, ast.In) else not r
        if isinstance(op, (ast.Eq, ast.NotEq)) and isinstance(c, ast.Constant):
            r = key == c.value
            return r if isinstance(op, ast.Eq) else not r
    return None


def _module_const_sets(model, fi):
    """{name: set of constants} for the module-level tuples/lists/sets/frozensets of constants of fi's module."""
    out = {}
    mi = model.modules.get(fi.module)
    if mi is None:
        return out
    for name, sts in mi.assigns.items():
        if len(sts) != 1 or not isinstance(sts[0], ast.Assign):
            continue
        v = sts[0].value
        if isinstance(v, ast.Call) and (call_name(v) or '') in ('frozenset', 'set', 'tuple') and len(v.args) == 1:
            v = v.args[0]
        if isinstance(v, (ast.Tuple, ast.List, ast.Set)) and v.elts and all(isinstance(e, ast.Constant) for e in v.elts):
            out[name] = {e.value for e in v.elts}
        elif isinstance(v, ast.Dict) and v.keys and all(isinstance(k, ast.Constant) for k in v.keys):
            out[name] = {k.value for k in v.keys}        # `key in TABLE` tests the keys of a dictionary
    return out


def _reachable_keys(fi, g, all_keys, model=None):
    """Keys of table g that can reach the `g[key]` lookup in fi: the enclosing tests (through local boolean names,
    and/or/not, `in (...)`, `==`) are evaluated per key; a key is excluded when some enclosing test is definitely
    against it."""
    name = g.rsplit('.', 1)[1]
    pm = parents(fi.node)
    local_defs = {}
    counts = {}
    for st in ast.walk(fi.node):
        if isinstance(st, ast.Assign) and len(st.targets) == 1 and isinstance(st.targets[0], ast.Name):
            counts[st.targets[0].id] = counts.get(st.targets[0].id, 0) + 1
            local_defs[st.targets[0].id] = st.value
    local_defs = {k: v for k, v in local_defs.items() if counts[k] == 1}
    res = None
    for n in ast.walk(fi.node):
        if isinstance(n, ast.Subscript) and isinstance(n.value, ast.Name) and n.value.id == name \
                and isinstance(n.slice, ast.Name):
            keyvar = n.slice.id
            dom = set()
            tests = enclosing_tests(fi.node, n, pm)
            for key in all_keys:
                ok = True
                for t, pol in tests:
                    v = _key_test(t, keyvar, key, {k: v for k, v in local_defs.items() if k != keyvar}, 0,
                                  _module_const_sets(model, fi) if model is not None else None)
                    if v is not None and v != pol:
                        ok = False
                        break
                if ok:
                    dom.add(key)
            res = dom if res is None else (res | dom)
    return res


SET_MAKERS = {'set', 'frozenset'}
SET_METHODS = {'intersection', 'union', 'difference', 'symmetric_difference'}
ORDER_SAFE_CONSUMERS = {'sorted', 'len', 'min', 'max', 'sum', 'any', 'all', 'set', 'frozenset', 'bool'}


def _is_set_expr(n, setvars):
    if isinstance(n, (ast.Set, ast.SetComp)):
        return True
    if isinstance(n, ast.Name) and n.id in setvars:
        return True
    if isinstance(n, ast.Call):
        nm = call_name(n) or ''
        short = nm.split('.')[-1]
        if nm in SET_MAKERS:
            return True
        if short in SET_METHODS and (nm.startswith('set.') or (
                isinstance(n.func, ast.Attribute) and _is_set_expr(n.func.value, setvars))):
            return True
    if isinstance(n, ast.BinOp) and isinstance(n.op, (ast.BitAnd, ast.BitOr, ast.Sub, ast.BitXor)):
        return _is_set_expr(n.left, setvars) and _is_set_expr(n.right, setvars)
    return False


def r5(ctx):
    m = ctx.model
    nsets = 0
    for fi in m.all_functions():
        if fi.path.endswith('.pyx'):
            continue
        fn = fi.node
        pm = parents(fn)
        setvars = set()
        for st in stmts_of(fn):
            if isinstance(st, ast.Assign) and isinstance(st.targets[0], ast.Name) and \
                    _is_set_expr(st.value, setvars):
                setvars.add(st.targets[0].id)
        for n in ast.walk(fn):
            if not _is_set_expr(n, setvars) or isinstance(n, ast.Name) and isinstance(n.ctx, ast.Store):
                continue
            par = pm.get(n)
            if isinstance(n, ast.Name) and not isinstance(n.ctx, ast.Load):
                continue
            nsets += 1
            why = None
            if isinstance(par, ast.Call) and n in par.args:
                cn = (call_name(par) or '').split('.')[-1]
                if cn in ORDER_SAFE_CONSUMERS or cn in SET_METHODS or _is_set_expr(par, setvars):
                    continue
                if cn in ('dict', 'list', 'tuple', 'join', 'enumerate', 'zip', 'iter', 'next', 'array'):
                    why = f'{cn}() of a set fixes an order that depends on PYTHONHASHSEED'
                    gp = pm.get(par)
                    if cn in ('list', 'tuple') and isinstance(gp, ast.Assign) and \
                            isinstance(gp.targets[0], ast.Name):
                        v = gp.targets[0].id
                        loads = [x for x in ast.walk(fn) if isinstance(x, ast.Name) and x.id == v
                                 and isinstance(x.ctx, ast.Load)]
                        if loads and all(isinstance(pm.get(x), ast.Call) and (
                                call_name(pm.get(x)) or '').split('.')[-1] in ORDER_SAFE_CONSUMERS
                                for x in loads):
                            why = None   # the sequence is only ever sorted / measured
            elif isinstance(par, ast.Starred):
                gp = pm.get(par)
                if isinstance(gp, ast.Call) and _is_set_expr(gp, setvars):
                    continue
                why = 'a set is unpacked positionally'
            elif isinstance(par, (ast.For, ast.comprehension)) and getattr(par, 'iter', None) is n:
                # iteration order leaks unless the loop only builds another set / tests membership
                owner = par if isinstance(par, ast.For) else pm.get(par)
                if isinstance(owner, (ast.SetComp,)):
                    continue
                why = 'iteration over a set'
            elif isinstance(par, ast.Attribute) and par.attr == 'pop':
                # accepted idiom: pop() of a set proven to have exactly one element
                tests = enclosing_tests(fn, n, pm)
                if any(norm(t).replace(' ', '') == f'len({norm(n)})==1' and pol for t, pol in tests):
                    continue
                why = 'set.pop() returns an arbitrary element'
            if why:
                ctx.bad(fi.qualname.split(':')[1], f'set-order:{norm(n)[:50]}',
                        f'`{norm(par)[:120]}`: {why}; output/order would differ between interpreter runs',
                        fi.loc(n))
    ctx.need(nsets >= 3, 'set-valued expressions', f'only {nsets} found (rule lost its targets)')
    if not any(i['status'] != 'ok' for i in ctx.instances.get('R5', [])):
        ctx.ok(f'{nsets} set-valued expressions', 'each is sorted, measured, tested for membership or popped when singleton')


def positive_controls():
    """Zero-expected rules must fire on a tiny in-memory example."""
    from ..model import Model
    from ..src import SourceTree
    base = SourceTree()
    rel = 'regions/io/ds9/meta.py'
    txt = base.text(rel) + '''

def _positive_control(region):
    meta = region.meta
    meta.pop('include', None)
    return meta
'''
    m = Model(base.with_overlay({rel: txt}))
    fx = FX(m)
    s = fx.summary(m.modules['regions.io.ds9.meta'].functions['_positive_control'])
    if not any(ev.target[0] == 'param' and ev.target[2] == ('meta',) for ev in s.muts):
        raise AnalysisError('C13.R1', 'positive-control', 'FX did not report a pop() on a parameter\'s meta')


def _descriptor_store_is_copy(m, ci, attr):
    """(True/False/None, where): does assigning `obj.<attr> = v` on class ci store v itself (False) or a copy of it (True)?
    None when the attribute is a plain instance attribute (stores v itself) — reported as False by the caller."""
    r = m.lookup(ci, attr)
    kind = m.descriptor_kind(ci, attr)
    if kind is None:
        return None, None
    dci = m.cls(kind)
    if dci is None:
        return None, None
    f = m.method(dci, '__set__')
    if f is None:
        return None, None
    names = [a.arg for a in f.node.args.args]
    vname = names[2] if len(names) > 2 else None
    last = None
    # stores into the instance dictionary, in program order; a repository `super().__set__` is followed
    def stores(fn_info, seen=()):
        out = []
        for st in ast.walk(fn_info.node):
            if isinstance(st, ast.Assign) and isinstance(st.targets[0], ast.Subscript) and '__dict__' in norm(st.targets[0].value):
                out.append((st.lineno, st.value, fn_info))
            if isinstance(st, ast.Expr) and isinstance(st.value, ast.Call) and norm(st.value.func).endswith('super().__set__'):
                for c in fn_info and m.cls(fn_info.cls).mro[1:] if fn_info.cls and m.cls(fn_info.cls) else []:
                    if '__set__' in c.methods and c.methods['__set__'].qualname not in seen:
                        out += [(st.lineno, v, g) for _, v, g in stores(c.methods['__set__'], seen + (fn_info.qualname,))]
                        break
        return sorted(out, key=lambda x: x[0])
    sts = stores(f)
    if not sts:
        return None, f
    _, val, g = sts[-1]
    pname = [a.arg for a in g.node.args.args][2] if len(g.node.args.args) > 2 else vname
    bare = isinstance(val, ast.Name) and val.id == pname
    return (not bare), g


def r6(ctx):
    """a default-argument object is created once, when the function is defined: if a constructor stores it in the instance
    un-copied, every region built with the default shares it, and an in-place update through one region
    (`reg.angle += 10 * u.deg`) changes all the others and every later construction — results then depend on call history."""
    m = ctx.model
    n = 0
    for fi in m.all_functions():
        if fi.path.endswith('.pyx') or not fi.cls:
            continue
        ci = m.cls(fi.cls)
        if ci is None:
            continue
        a = fi.node.args
        pos = a.posonlyargs + a.args
        pairs = list(zip(pos[len(pos) - len(a.defaults):], a.defaults)) + [(k, d) for k, d in zip(a.kwonlyargs, a.kw_defaults) if d is not None]
        for arg, d in pairs:
            if isinstance(d, (ast.Constant, ast.Name, ast.UnaryOp, ast.Attribute)) or (isinstance(d, ast.Tuple) and not d.elts):
                continue
            n += 1
            construct = f'{fi.qualname.split(":")[1]}({arg.arg}={norm(d)})'
            escapes = []
            for st in ast.walk(fi.node):
                if isinstance(st, ast.Assign) and isinstance(st.value, ast.Name) and st.value.id == arg.arg:
                    for t in st.targets:
                        if isinstance(t, ast.Attribute) and isinstance(t.value, ast.Name) and t.value.id == 'self':
                            copied, where = _descriptor_store_is_copy(m, ci, t.attr)
                            if not copied:
                                escapes.append((t.attr, st, where))
            if escapes:
                attr, st, where = escapes[0]
                via = f' (through {where.qualname.split(":")[1]}, which stores the object it is given)' if where else ''
                ctx.bad(construct, 'default-escapes',
                        f'the default object `{norm(d)}` of parameter `{arg.arg}` is stored as self.{attr}{via}: all regions built '
                        f'with the default share one object, so `region.{attr} += ...` (an in-place update of a Quantity) on one of '
                        'them changes the others and the default of every later construction', fi.loc())
            else:
                ctx.ok(construct, 'the default object is not stored in the instance un-copied')
    ctx.need(n >= 8, 'mutable default-argument objects', f'only {n} found')


# ---------------------------------------------------------------------------------------------------------------
# R7: objects that live across the iterations of a reader's loop must not become part of two results un-copied
# ---------------------------------------------------------------------------------------------------------------
FRESH_CALLS = ('copy.deepcopy', 'deepcopy')
SHALLOW_METHODS = ('copy', 'items', 'values', 'get', 'pop', 'setdefault')
SHALLOW_FUNCS = ('dict', 'list', 'tuple', 'set', 'sorted', 'reversed', 'zip', 'enumerate', 'iter', 'next')
ABSORBING = ('update', 'append', 'extend', 'insert', 'add', 'setdefault', '__setitem__')


class _Shared:
    """may-hold-a-reference analysis of one function: which local names may hold (or contain) an object out of the set
    `tainted` — the mutable objects that are shared between the results the caller builds.  copy.deepcopy() is the only
    way out; dict(x), x.copy(), RegionMeta(x) and friends copy the container and keep the members; calls of anything else
    are taken to build fresh objects."""

    def __init__(self, m, fi, tainted, depth=0):
        self.m, self.fi, self.t = m, fi, set(tainted)
        self.depth = depth
        self.returns = []       # return statements handing out a shared object
        self.stores = []        # (statement, target text) attribute stores of a shared object

    def callee(self, call):
        """(sub-analysis, {callee parameter: caller argument expression}) for a call of a function of the same module whose
        arguments hold shared objects; None otherwise"""
        if self.depth >= 2:
            return None
        try:
            gs = self.m.resolve_call(self.fi, call) or ()
        except Exception:
            gs = ()
        gs = [g for g in gs if g.cls is None and g.module == self.fi.module and g.qualname != self.fi.qualname]
        if len(gs) != 1:
            return None
        g = gs[0]
        params = [a.arg for a in g.node.args.args]
        bind = dict(zip(params, call.args))
        bind.update({k.arg: k.value for k in call.keywords if k.arg in params})
        tainted = {p_ for p_, a in bind.items() if self.expr(a)}
        if not tainted:
            return None
        sub = _Shared(self.m, g, tainted, self.depth + 1)
        sub.block(g.node.body)
        return sub, bind

    def expr(self, e):
        if e is None:
            return False
        if isinstance(e, ast.Name):
            return e.id in self.t
        if isinstance(e, (ast.Attribute, ast.Subscript, ast.Starred)):
            return ast.unparse(e) in self.t or self.expr(e.value)
        if isinstance(e, ast.IfExp):
            return self.expr(e.body) or self.expr(e.orelse)
        if isinstance(e, (ast.Tuple, ast.List, ast.Set)):
            return any(self.expr(x) for x in e.elts)
        if isinstance(e, ast.Dict):
            return any(self.expr(x) for x in e.values if x is not None)
        if isinstance(e, ast.BoolOp):
            return any(self.expr(x) for x in e.values)
        if isinstance(e, ast.NamedExpr):
            return self.expr(e.value)
        if isinstance(e, ast.Call):
            nm = dotted(e.func) or ''
            if nm in FRESH_CALLS or nm.split('.')[-1] == 'deepcopy':
                return False
            if isinstance(e.func, ast.Attribute) and e.func.attr in SHALLOW_METHODS and self.expr(e.func.value):
                return True
            args = list(e.args) + [k.value for k in e.keywords]
            if nm in SHALLOW_FUNCS and any(self.expr(a) for a in args):
                return True
            if any(self.expr(a) for a in args):
                # a class of the repository (RegionMeta(meta), _RegionData(...)) keeps what it is given
                r = self.m.resolve_name(self.fi.module, nm) if nm and '.' not in nm else (None,)
                if r and r[0] == 'class':
                    return True
                # a function of the module: what it returns may hold what it was given
                sub = self.callee(e)
                if sub is not None and sub[0].returns:
                    return True
            return False
        return False

    def block(self, body, cond=False):
        for st in body:
            if isinstance(st, (ast.Assign, ast.AnnAssign, ast.AugAssign)):
                val = st.value
                tgts = st.targets if isinstance(st, ast.Assign) else [st.target]
                tv = self.expr(val)
                for t in tgts:
                    for x in ([t] if not isinstance(t, (ast.Tuple, ast.List)) else t.elts):
                        if isinstance(x, ast.Name):
                            if tv:
                                self.t.add(x.id)
                            elif not cond and isinstance(st, ast.Assign):
                                self.t.discard(x.id)      # re-bound, on every path through this block, to a fresh object
                        elif isinstance(x, ast.Subscript) and tv:
                            if isinstance(x.value, ast.Name):
                                self.t.add(x.value.id)
                        elif isinstance(x, ast.Attribute) and tv:
                            self.stores.append((st, ast.unparse(x)))
            elif isinstance(st, ast.Expr) and isinstance(st.value, ast.Call) and self.callee(st.value) is not None:
                sub, bind = self.callee(st.value)
                for sst, tgt in sub.stores:
                    root = tgt.split('.')[0]
                    if root in bind and isinstance(bind[root], ast.Name):
                        self.stores.append((st, bind[root].id + tgt[len(root):]))
            elif isinstance(st, ast.Expr) and isinstance(st.value, ast.Call):
                c = st.value
                if isinstance(c.func, ast.Attribute) and c.func.attr in ABSORBING and isinstance(c.func.value, ast.Name) \
                        and any(self.expr(a) for a in list(c.args) + [k.value for k in c.keywords]):
                    if c.func.value.id in ('dict', 'list', 'object', 'set') and c.args and isinstance(c.args[0], ast.Name):
                        if any(self.expr(a) for a in c.args[1:]):
                            self.t.add(c.args[0].id)        # dict.__setitem__(x, k, v): x absorbs
                    else:
                        self.t.add(c.func.value.id)
            elif isinstance(st, ast.Return):
                if self.expr(st.value):
                    self.returns.append(st)
            elif isinstance(st, (ast.For, ast.AsyncFor)):
                if self.expr(st.iter):
                    names = [x for x in ast.walk(st.target) if isinstance(x, ast.Name)]
                    # `for key, value in d.items()`: the keys of a dictionary are hashable, i.e. not changeable in place
                    if isinstance(st.iter, ast.Call) and isinstance(st.iter.func, ast.Attribute) and st.iter.func.attr == 'items' \
                            and isinstance(st.target, ast.Tuple) and len(st.target.elts) == 2 and isinstance(st.target.elts[0], ast.Name):
                        names = [x for x in names if x is not st.target.elts[0]]
                    for x in names:
                        self.t.add(x.id)
                for _ in range(2):
                    self.block(st.body, cond)
                self.block(st.orelse, True)
            elif isinstance(st, (ast.If, ast.While)):
                self.block(st.body, True)
                self.block(st.orelse, True)
            elif isinstance(st, ast.With):
                self.block(st.body, cond)
            elif isinstance(st, ast.Try):
                self.block(st.body, True)
                for h in st.handlers:
                    self.block(h.body, True)
                self.block(st.orelse, True)
                self.block(st.finalbody, cond)


def _loop_carried(fn):
    """(the main loop of a reader function, names bound before it that are re-bound or changed in place inside it)"""
    loops = [st for st in fn.body if isinstance(st, ast.For)]
    if not loops:
        return None, set()
    loop = max(loops, key=lambda l_: len(list(ast.walk(l_))))
    before = set()
    for st in fn.body:
        if st is loop:
            break
        if isinstance(st, ast.Assign):
            for t in st.targets:
                if isinstance(t, ast.Name):
                    before.add(t.id)
    inside = set()
    for n in ast.walk(loop):
        if isinstance(n, ast.Assign):
            for t in n.targets:
                if isinstance(t, ast.Name):
                    inside.add(t.id)
        if isinstance(n, ast.Call) and isinstance(n.func, ast.Attribute) and n.func.attr in ABSORBING + ('pop', 'clear') \
                and isinstance(n.func.value, ast.Name):
            inside.add(n.func.value.id)
    return loop, before & inside


def shared_between_results(ctx, entries):
    """For each reader entry (module, function): the objects that survive an iteration of its main loop (a dictionary of
    global defaults updated line by line) must reach the per-iteration results only through copy.deepcopy — followed into
    the repository functions the loop hands them to; and a function that builds several results in a loop must not give
    them one and the same mutable object."""
    m = ctx.model
    n = 0
    for modname, fname in entries:
        fi = m.func(modname, fname)
        loop, carried = _loop_carried(fi.node)
        ctx.need(loop is not None, f'{fname}', 'no loop found in the reader')
        # (a) objects carried across iterations, handed to helpers inside the loop
        # a call whose value goes back into a carried name (composite_meta = _end_composite(composite_meta, ...)) updates the
        # state; only values that leave towards a per-line result matter
        back = {id(st.value) for st in ast.walk(loop) if isinstance(st, ast.Assign) and isinstance(st.value, ast.Call)
                and all(isinstance(t, ast.Name) and t.id in carried for t in st.targets)}
        for c in [x for x in ast.walk(loop) if isinstance(x, ast.Call) and id(x) not in back]:
            for g in m.resolve_call(fi, c) or ():
                if g.cls is not None or g.module != fi.module:
                    continue
                params = [a.arg for a in g.node.args.args]
                tainted = {p_ for p_, a in zip(params, c.args) if isinstance(a, ast.Name) and a.id in carried}
                tainted |= {k.arg for k in c.keywords if isinstance(k.value, ast.Name) and k.value.id in carried}
                if not tainted:
                    continue
                n += 1
                an = _Shared(m, g, tainted)
                an.block(g.node.body)
                if an.returns:
                    ctx.bad(f'{g.name}', 'shared-between-results',
                            f'{g.name} is called once per line by {fname} with {sorted(tainted)}, which live across the lines, '
                            f'and returns an object holding their members (`{norm(an.returns[0])[:70]}`) without a deep copy: '
                            'list-valued entries (tag) are one object in every region read from the text, so changing one '
                            'region\'s metadata changes the others', g.loc(an.returns[0]))
                else:
                    ctx.ok(f'{g.name}', f'{sorted(tainted)} reach the result only through copy.deepcopy')
    # (b) a builder of several results per call
    for modname, fname in entries:
        mi = m.modules[modname]
        for g in mi.functions.values():
            loops = [st for st in ast.walk(g.node) if isinstance(st, ast.For)]
            for lp in loops:
                made = {t.id for st in ast.walk(lp) if isinstance(st, ast.Assign) and isinstance(st.value, ast.Call)
                        for t in st.targets if isinstance(t, ast.Name)}
                stores = [st for st in ast.walk(lp) if isinstance(st, ast.Assign) and any(
                    isinstance(t, ast.Attribute) and isinstance(t.value, ast.Name) and t.value.id in made for t in st.targets)]
                # ... or hands the object it made, together with other objects, to a function of the module that stores them
                stores += [st for st in ast.walk(lp) if isinstance(st, ast.Expr) and isinstance(st.value, ast.Call)
                           and any(isinstance(a, ast.Name) and a.id in made for a in st.value.args)
                           and any(h.cls is None and h.module == g.module for h in (m.resolve_call(g, st.value) or ()))]
                if not stores:
                    continue
                bound_in = {t.id for st in ast.walk(lp) if isinstance(st, (ast.Assign, ast.For))
                            for t in ast.walk(st.targets[0] if isinstance(st, ast.Assign) else st.target) if isinstance(t, ast.Name)}
                outer = {x.id for st in stores for x in ast.walk(st.value) if isinstance(x, ast.Name)} - bound_in
                outer |= {ast.unparse(x) for st in stores for x in ast.walk(st.value)
                          if isinstance(x, ast.Attribute) and isinstance(x.value, ast.Name) and x.value.id not in bound_in
                          and x.value.id in [a.arg for a in g.node.args.args]}
                # names of plain functions / classes / modules are not data
                local = {a.arg for a in g.node.args.args} | {
                    x.id for st in ast.walk(g.node) if isinstance(st, (ast.Assign, ast.For, ast.AnnAssign))
                    for tg in (st.targets if isinstance(st, ast.Assign) else [st.target]) for x in ast.walk(tg)
                    if isinstance(x, ast.Name)}
                outer = {o for o in outer if o.split('.')[0] in local}
                an = _Shared(m, g, outer)
                an.block(lp.body)
                n += 1
                bad = [s_ for s_ in an.stores if s_[1].split('.')[0] in made]
                if bad:
                    ctx.bad(f'{g.name}', 'shared-between-results',
                            f'{g.name} builds one result per iteration and stores `{norm(bad[0][0])[:70]}`: the value is (or holds the '
                            'members of) one object made before the loop, so the regions made from one line share it', g.loc(bad[0][0]))
                else:
                    ctx.ok(f'{g.name}', 'per-result attributes are deep copies of what was made before the loop')
    return n


def r7(ctx):
    """regions read from one text are independent objects (parsing keeps no object alive that two results share): in the
    DS9 reader the dictionary of global/composite metadata lives across the lines, and a multi-radius line makes several
    regions from one parsed metadata dictionary — both must be deep-copied on the way into a region."""
    n = shared_between_results(ctx, [('regions.io.ds9.read', '_parse_raw_data')])
    ctx.need(n >= 2, 'ds9 reader', f'only {n} hand-over sites of loop-carried metadata found')


RULES = [
    RuleDef('R1', 'no write through a reference rooted in a parameter of a public entry', r1, 150),
    RuleDef('R2', 'no function writes module/class-level objects; registry only via decorator', r2, 15),
    RuleDef('R3', 'no shared default-argument object is written', r3, 1),
    RuleDef('R4', 'shared iterators consumed only when stateless / unreachable', r4, 2),
    RuleDef('R5', 'no order-revealing use of a set', r5, 1),
    RuleDef('R6', 'no shared default-argument object becomes part of an instance un-copied', r6, 8),
    RuleDef('R7', 'regions read from one DS9 text share no mutable metadata object (loop-carried state reaches results only through deepcopy)', r7, 2),
]
