"""FX — ownership / effect analysis.

Flow-sensitive may-alias analysis per function over access paths rooted at
parameters, module-level objects and shared default-argument objects, with
field-sensitive abstract objects for allocation sites, and interprocedural
summaries (mutated roots, aliases of the return value, heap shape of returned
fresh objects) instantiated at call sites.  A *mutation event* is a store /
del / augmented assignment / known-mutator call whose target may be rooted in a
parameter, a module-level object or a default object."""
import ast
from dataclasses import dataclass, field

from .astutil import dotted, norm
from .model import ClassInfo, FuncInfo, Model

MUTATORS = {'append', 'extend', 'insert', 'pop', 'remove', 'clear', 'update', 'setdefault',
            'sort', 'reverse', 'popitem', 'add', 'discard', 'fill', 'put', 'resize',
            'itemset', '__setitem__', '__delitem__', 'partition', 'setflags'}
# external callables whose result may alias (be a view of) their first argument
ALIAS_RET = {'asarray', 'asanyarray', 'atleast_1d', 'atleast_2d', 'ravel', 'reshape', 'transpose',
             'squeeze', 'view', 'iter', 'reversed', 'broadcast_arrays', 'broadcast_to', 'getattr',
             'next', 'enumerate', 'zip', 'sorted_view', 'diagonal', 'swapaxes', 'T'}
ELEM_RET = {'get', 'items', 'values', 'keys', '__getitem__', 'pop', 'popitem', 'setdefault'}
SHALLOW = {'dict', 'list', 'tuple', 'set', 'frozenset', 'copy', 'sorted', 'OrderedDict'}
DEEP = {'deepcopy'}
SCALAR_FUNCS = {'float', 'int', 'len', 'str', 'bool', 'abs', 'round', 'repr', 'format', 'max', 'min', 'sum'}
STR_METHODS = {'lower', 'upper', 'strip', 'lstrip', 'rstrip', 'replace', 'split', 'join', 'format',
               'startswith', 'endswith', 'find', 'count', 'to_string', 'is_integer', 'isdigit'}
# attributes whose value is an immutable int / tuple of ints / dtype on every array-like the repository handles
# (numpy arrays, Quantities, the repository's BoundingBox and RegionMask): an augmented assignment to a local bound
# to one of them rebinds the local
IMMUTABLE_ATTRS = {'size', 'ndim', 'shape', 'nbytes', 'itemsize'}
MAXPATH = 4


def P(i, path=()):
    return ('param', i, tuple(path)[:MAXPATH])


def ext_path(src, step):
    k = src[0]
    if k in ('param', 'global'):
        return (k, src[1], (src[2] + (step,))[:MAXPATH])
    return src


@dataclass
class Event:
    target: tuple          # abstract source written through
    func: str              # qualname where the write happens
    path: str
    line: int
    stmt: str
    via: str               # how (store / augassign / mutator call)
    chain: tuple = ()      # call chain from the entry

    def key(self):
        return (self.func, self.stmt)


@dataclass
class Summary:
    muts: list = field(default_factory=list)        # Events with param/global/default targets
    rets: set = field(default_factory=set)          # sources
    heap: dict = field(default_factory=dict)        # site -> {field: set(sources)}
    kinds_ret: str = 'unknown'
    param_stores: dict = field(default_factory=dict)  # (param source, field) -> set(sources)


class FX:
    def __init__(self, model: Model, exceptions=None):
        self.m = model
        self.sums = {}
        self.in_progress = set()
        self.exceptions = exceptions or {}
        self.by_name = {}
        for fi in model.all_functions():
            if fi.cls:
                self.by_name.setdefault(fi.name, []).append(fi)
        self.ncalls = 0
        self.nresolved = 0
        self.nsites = 0

    # ---------------------------------------------------- shared iterators
    def iterator_globals(self):
        """{global qual: {'self': kind|None, 'elems': {key: kind}}} with kind in
        {'stateful', 'stateless-cycle'} for module/class-level iterator objects."""
        if hasattr(self, '_itglob'):
            return self._itglob
        out = {}

        def kind_of_expr(v, mi, depth=0):
            if isinstance(v, ast.Call):
                nm = dotted(v.func) or ''
                short = nm.split('.')[-1]
                if nm.startswith('itertools.') or short in ('iter', 'cycle', 'chain', 'count', 'repeat'):
                    if short == 'cycle' and v.args:
                        a0 = v.args[0]
                        n_el = None
                        if isinstance(a0, (ast.Tuple, ast.List)):
                            n_el = len(a0.elts)
                        elif isinstance(a0, ast.Constant) and isinstance(a0.value, str):
                            n_el = len(a0.value)
                        if n_el == 1:
                            return 'stateless-cycle'
                    return 'stateful'
                if isinstance(v.func, ast.Name) and depth < 3:
                    r = self.m.resolve_name(mi.name, v.func.id)
                    if r[0] == 'func':
                        ks = [kind_of_expr(x.value, self.m.modules[r[1].module], depth + 1)
                              for x in ast.walk(r[1].node) if isinstance(x, ast.Return) and x.value is not None]
                        ks = [k for k in ks if k]
                        if ks:
                            return 'stateful' if 'stateful' in ks else ks[0]
            if isinstance(v, ast.GeneratorExp):
                return 'stateful'
            return None

        def scan(qual, v, mi):
            info = {'self': kind_of_expr(v, mi), 'elems': {}}
            if isinstance(v, ast.Dict):
                for k, x in zip(v.keys, v.values):
                    kk = kind_of_expr(x, mi)
                    if kk and isinstance(k, ast.Constant):
                        info['elems'][k.value] = kk
            if info['self'] or info['elems']:
                out[qual] = info

        for mi in self.m.modules.values():
            for name, sts in mi.assigns.items():
                for st in sts:
                    if isinstance(st, ast.Assign) and isinstance(st.targets[0], ast.Name):
                        scan(f'{mi.name}.{name}', st.value, mi)
            for ci in mi.classes.values():
                for name, v in ci.assigns.items():
                    scan(f'{mi.name}.{ci.name}.{name}', v, mi)
        self._itglob = out
        return out

    def is_iterator_global(self, src):
        info = self.iterator_globals().get(src[1])
        if not info:
            return False
        if not src[2]:
            return info['self'] is not None
        return bool(info['elems'])

    # ------------------------------------------------------------ summary
    def summary(self, fi: FuncInfo) -> Summary:
        q = fi.qualname
        if q in self.sums:
            return self.sums[q]
        if q in self.in_progress:
            return Summary()
        self.in_progress.add(q)
        s = _FuncAnalysis(self, fi).run()
        self.in_progress.discard(q)
        self.sums[q] = s
        return s


class _FuncAnalysis:
    def __init__(self, fx: FX, fi: FuncInfo):
        self.fx = fx
        self.m = fx.m
        self.fi = fi
        self.sum = Summary()
        self.heap = {}       # site -> {field: set(sources)}
        self.kind = {}       # var -> 'scalar' | 'unknown'
        self.site_n = 0
        a = fi.node.args
        self.params = [x.arg for x in a.posonlyargs + a.args] + \
            ([a.vararg.arg] if a.vararg else []) + [x.arg for x in a.kwonlyargs] + \
            ([a.kwarg.arg] if a.kwarg else [])
        self.kwarg = a.kwarg.arg if a.kwarg else None
        self.vararg = a.vararg.arg if a.vararg else None

    # -------------------------------------------------------------- setup
    def run(self):
        env = {}
        a = self.fi.node.args
        pos = a.posonlyargs + a.args
        defaults = [None] * (len(pos) - len(a.defaults)) + list(a.defaults)
        allp = list(zip(pos, defaults)) + list(zip(a.kwonlyargs, a.kw_defaults))
        for i, name in enumerate(self.params):
            if name == self.kwarg or name == self.vararg:
                env[name] = {self.new_site(('kwargs', name))}
                continue
            if i == 0 and self.fi.is_classmethod and self.fi.cls:
                # the class object is shared state: a write through cls.<attr> changes what every later call sees
                env[name] = {('global', f'{self.fi.module}.{self.fi.cls}', ())}
            else:
                env[name] = {P(i)}
        for p, d in allp:
            if d is not None and not isinstance(d, ast.Constant) and not (
                    isinstance(d, ast.Name)) and not (isinstance(d, ast.Tuple) and not d.elts) \
                    and not (isinstance(d, ast.UnaryOp)):
                env[p.arg] = env[p.arg] | {('default', self.fi.qualname, p.arg)}
        self.block(self.fi.node.body, env)
        self.sum.heap = self.heap
        return self.sum

    def new_site(self, tag):
        self.site_n += 1
        self.fx.nsites += 1
        s = ('fresh', (self.fi.qualname, tag if isinstance(tag, tuple) else (tag,)))
        self.heap.setdefault(s, {})
        return s

    def site_for(self, node, tag='alloc'):
        return self.new_site((tag, getattr(node, 'lineno', 0), getattr(node, 'col_offset', 0)))

    # --------------------------------------------------------- statements
    def block(self, stmts, env):
        for st in stmts:
            self.stmt(st, env)

    def join(self, e1, e2):
        out = {}
        for k in set(e1) | set(e2):
            out[k] = set(e1.get(k, ())) | set(e2.get(k, ()))
        return out

    def stmt(self, st, env):
        if isinstance(st, ast.Expr):
            self.vals(st.value, env)
        elif isinstance(st, ast.Assign):
            v = self.vals(st.value, env)
            k = self.kind_of(st.value, env)
            for t in st.targets:
                self.assign(t, v, env, st, k)
        elif isinstance(st, ast.AnnAssign):
            if st.value is not None:
                self.assign(st.target, self.vals(st.value, env), env, st, self.kind_of(st.value, env))
        elif isinstance(st, ast.AugAssign):
            rhs = self.vals(st.value, env)
            t = st.target
            if isinstance(t, ast.Name):
                if self.kind.get(t.id) == 'scalar' or self.kind_of(t, env) == 'scalar':
                    env[t.id] = set()
                    self.kind[t.id] = 'scalar'
                else:
                    tg = env.get(t.id, set())
                    if tg and all(x[0] == 'global' and not x[2] and self._immutable_global(x[1]) for x in tg):
                        # the local is bound to a module-level tuple / str / number / frozenset: `+=` builds a new object
                        env[t.id] = set()
                    else:
                        self.mutate(tg, st, 'augmented assignment (in-place for arrays, '
                                    'Quantities, lists, dicts)')
            else:
                base = self.vals(t.value, env)
                self.mutate(base, st, 'augmented store')
        elif isinstance(st, ast.Delete):
            for t in st.targets:
                if isinstance(t, (ast.Subscript, ast.Attribute)):
                    self.mutate(self.vals(t.value, env), st, 'del')
        elif isinstance(st, ast.Return):
            if st.value is not None:
                self.sum.rets |= self.vals(st.value, env)
                if self.kind_of(st.value, env) == 'scalar' and self.sum.kinds_ret != 'mixed':
                    self.sum.kinds_ret = 'scalar' if self.sum.kinds_ret in ('unknown', 'scalar') and \
                        not getattr(self, '_nonscalar_ret', False) else 'mixed'
                else:
                    self._nonscalar_ret = True
                    self.sum.kinds_ret = 'mixed'
        elif isinstance(st, ast.If):
            self.vals(st.test, env)
            e1, e2 = dict(env), dict(env)
            k1, k2 = dict(self.kind), dict(self.kind)
            self.kind = k1
            self.block(st.body, e1)
            k1 = self.kind
            self.kind = k2
            self.block(st.orelse, e2)
            k2 = self.kind
            t1, t2 = _terminates(st.body), _terminates(st.orelse)
            if t1 and not t2:
                res, self.kind = e2, k2
            elif t2 and not t1:
                res, self.kind = e1, k1
            else:
                res = self.join(e1, e2)
                self.kind = {k: ('scalar' if k1.get(k) == 'scalar' and k2.get(k) == 'scalar' else 'unknown')
                             for k in set(k1) | set(k2)}
            env.clear()
            env.update(res)
        elif isinstance(st, (ast.For, ast.While)):
            if isinstance(st, ast.For):
                it = self.vals(st.iter, env)
                elem = self.elems(it)
                # iterating a shared iterator consumes it
                self.consume(st.iter, it, st, env)
            for _ in range(3):
                before = {k: set(v) for k, v in env.items()}
                if isinstance(st, ast.For):
                    self.assign(st.target, elem, env, st, 'unknown', unpack_elem=True)
                else:
                    self.vals(st.test, env)
                e2 = dict(env)
                self.block(st.body, e2)
                new = self.join(env, e2)
                env.clear()
                env.update(new)
                if all(env.get(k) == before.get(k) for k in set(env) | set(before)):
                    break
            self.block(st.orelse, env)
        elif isinstance(st, ast.With):
            for it in st.items:
                v = self.vals(it.context_expr, env)
                if it.optional_vars is not None:
                    self.assign(it.optional_vars, v, env, st, 'unknown')
            self.block(st.body, env)
        elif isinstance(st, ast.Try):
            self.block(st.body, env)
            for h in st.handlers:
                e2 = dict(env)
                if h.name:
                    e2[h.name] = set()
                self.block(h.body, e2)
                new = self.join(env, e2)
                env.clear(); env.update(new)
            self.block(st.orelse, env)
            self.block(st.finalbody, env)
        elif isinstance(st, ast.Raise):
            if st.exc is not None:
                self.vals(st.exc, env)
        elif isinstance(st, ast.FunctionDef):
            env[st.name] = set()
        elif isinstance(st, (ast.Import, ast.ImportFrom)):
            for a in st.names:
                env.pop((a.asname or a.name).split('.')[0], None)
                self._local_imports = getattr(self, '_local_imports', set()) | {(a.asname or a.name).split('.')[0]}

    def assign(self, t, v, env, st, kind='unknown', unpack_elem=False):
        if isinstance(t, ast.Name):
            env[t.id] = set(v)
            self.kind[t.id] = kind
        elif isinstance(t, (ast.Tuple, ast.List)):
            ev = self.elems(v) if not unpack_elem else self.elems(v) | set(v)
            for e in t.elts:
                self.assign(e.value if isinstance(e, ast.Starred) else e, ev, env, st, 'unknown')
        elif isinstance(t, ast.Attribute):
            base = self.vals(t.value, env)
            self.mutate(base, st, f'attribute store .{t.attr}')
            for b in base:
                if b[0] == 'fresh':
                    self.heap.setdefault(b, {}).setdefault(t.attr, set()).update(v)
                elif b[0] == 'param':
                    self.sum.param_stores.setdefault((b, t.attr), set()).update(v)
        elif isinstance(t, ast.Subscript):
            base = self.vals(t.value, env)
            self.vals(t.slice, env)
            self.mutate(base, st, 'item store')
            fld = '[*]'
            if isinstance(t.slice, ast.Constant) and isinstance(t.slice.value, str):
                fld = '[k:' + t.slice.value + ']'
            for b in base:
                if b[0] == 'fresh':
                    self.heap.setdefault(b, {}).setdefault(fld, set()).update(v)
                elif b[0] == 'param':
                    self.sum.param_stores.setdefault((b, '[*]'), set()).update(v)

    # ---------------------------------------------------------- mutation
    def mutate(self, targets, node, via, chain=()):
        for t in targets:
            if t[0] in ('param', 'global', 'default'):
                ev = Event(t, self.fi.qualname, self.fi.path, getattr(node, 'lineno', 0),
                           _stmt_text(node), via, chain)
                self.sum.muts.append(ev)

    def _immutable_global(self, qual):
        """is the module-level name bound (by its only assignment) to an immutable literal: tuple/str/number/frozenset?"""
        modname, _, name = qual.rpartition('.')
        mi = self.m.modules.get(modname)
        if mi is None:
            return False
        sts = mi.assigns.get(name, [])
        if len(sts) != 1 or not isinstance(sts[0], ast.Assign):
            return False
        v = sts[0].value

        def imm(n):
            if isinstance(n, ast.Constant):
                return True
            if isinstance(n, ast.Tuple):
                return all(imm(e) for e in n.elts)
            if isinstance(n, ast.Call) and dotted(n.func) == 'frozenset':
                return True
            if isinstance(n, ast.BinOp):
                return imm(n.left) and imm(n.right)
            if isinstance(n, ast.Name):
                return self._immutable_global(f'{modname}.{n.id}')
            return False
        return imm(v)

    def consume(self, iter_node, sources, st, env):
        """Iterating (zip/for/next) over a module-level iterator object advances shared state."""
        for s in sources:
            if s[0] == 'global' and self.fx.is_iterator_global(s):
                self.mutate({s}, st, 'iteration consumes a shared iterator')

    # ------------------------------------------------------------ values
    def elems(self, srcs):
        out = set()
        for s in srcs:
            if s[0] in ('param', 'global'):
                out.add(ext_path(s, '[*]'))
            elif s[0] == 'fresh':
                for fld, vs in self.heap.get(s, {}).items():
                    if fld == '[*]' or fld.startswith('[k:'):
                        out |= vs
            elif s[0] == 'default':
                out.add(s)
        return out

    def kind_of(self, n, env):
        if isinstance(n, ast.Constant):
            return 'scalar'
        if isinstance(n, ast.JoinedStr):
            return 'scalar'
        if isinstance(n, ast.Name):
            return self.kind.get(n.id, 'unknown')
        if isinstance(n, ast.BinOp):
            return 'scalar' if self.kind_of(n.left, env) == 'scalar' and self.kind_of(n.right, env) == 'scalar' else 'unknown'
        if isinstance(n, ast.UnaryOp):
            return self.kind_of(n.operand, env)
        if isinstance(n, (ast.Compare,)):
            return 'unknown'
        if isinstance(n, ast.Call):
            nm = dotted(n.func) or ''
            short = nm.split('.')[-1]
            if nm in SCALAR_FUNCS and not (nm in ('max', 'min', 'sum', 'abs') and not all(
                    self.kind_of(a, env) == 'scalar' for a in n.args)):
                return 'scalar'
            if isinstance(n.func, ast.Attribute) and short in STR_METHODS:
                return 'scalar'
            callees = self.m.resolve_call(self.fi, n)
            if callees and all(self.fx.summary(c).kinds_ret == 'scalar' for c in callees):
                return 'scalar'
        if isinstance(n, ast.Subscript) and self.kind_of(n.value, env) == 'scalar':
            return 'scalar'   # slice / index of a str
        if isinstance(n, ast.Attribute) and n.attr in IMMUTABLE_ATTRS and \
                not (isinstance(n.value, ast.Name) and n.value.id == 'self'):
            # (`self.shape` of a repository class may be anything, e.g. the CRTF parser's _Shape record)
            return 'scalar'
        if isinstance(n, ast.IfExp):
            return 'scalar' if self.kind_of(n.body, env) == 'scalar' and self.kind_of(n.orelse, env) == 'scalar' else 'unknown'
        return 'unknown'

    def vals(self, n, env):
        if n is None:
            return set()
        if isinstance(n, ast.Constant):
            return set()
        if isinstance(n, ast.Name):
            if n.id in env:
                return set(env[n.id])
            if n.id in getattr(self, '_local_imports', ()):
                return set()
            r = self.m.resolve_name(self.fi.module, n.id)
            if r[0] == 'const':
                mi, name = r[1]
                return {('global', f'{mi.name}.{name}', ())}
            return set()
        if isinstance(n, ast.Attribute):
            base = self.vals(n.value, env)
            # Class.attr / module.attr : class-level or module-level state
            d = dotted(n)
            if d and isinstance(n.value, ast.Name) and n.value.id not in env:
                r = self.m.resolve_name(self.fi.module, n.value.id)
                if r[0] == 'class':
                    lk = self.m.lookup(r[1], n.attr)
                    if lk and lk[1] == 'assign':
                        return {('global', f'{lk[0].module}.{lk[0].name}.{n.attr}', ())}
                    return set()
                if r[0] == 'module' and r[1] in self.m.modules:
                    rr = self.m.resolve_name(r[1], n.attr)
                    if rr[0] == 'const':
                        return {('global', f'{rr[1][0].name}.{rr[1][1]}', ())}
                    return set()
            out = set()
            for b in base:
                if b[0] in ('param', 'global'):
                    out.add(ext_path(b, n.attr))
                elif b[0] == 'fresh':
                    out |= self.heap.get(b, {}).get(n.attr, set())
                    if n.attr in ('T', 'real', 'imag', 'flat', 'value'):
                        out.add(b)
                elif b[0] == 'default':
                    out.add(b)
            return out
        if isinstance(n, ast.Subscript):
            base = self.vals(n.value, env)
            self.vals(n.slice, env)
            if isinstance(n.slice, ast.Constant) and isinstance(n.slice.value, str):
                out = set()
                for b in base:
                    if b[0] == 'fresh' and ('[k:' + n.slice.value + ']') in self.heap.get(b, {}):
                        out |= self.heap[b]['[k:' + n.slice.value + ']'] | self.heap[b].get('[*]', set())
                    elif b[0] in ('param', 'global'):
                        out.add(ext_path(b, '[k:' + n.slice.value + ']'))     # constant-key access path
                    else:
                        out |= self.elems({b})
                return out
            if isinstance(n.slice, ast.Slice) and base and all(
                    b[0] == 'fresh' and isinstance(b[1][1], tuple) and b[1][1][0] in ('literal', 'comp', 'slice') for b in base):
                # a slice of a list built here (a display or a comprehension) is a NEW list holding the same members:
                # storing into it (sizes[:-1] = ...) changes neither the list it was cut from nor the members
                s2 = self.site_for(n, 'slice')
                self.heap[s2].setdefault('[*]', set()).update(self.elems(base))
                return {s2}
            out = self.elems(base)
            if isinstance(n.slice, ast.Slice) or (isinstance(n.slice, ast.Tuple) and any(
                    isinstance(e, ast.Slice) for e in n.slice.elts)) or isinstance(n.slice, ast.Name):
                out |= base      # a slice of an array is a view of it; of a list a shallow copy
            return out
        if isinstance(n, (ast.Tuple, ast.List, ast.Set)):
            s = self.site_for(n, 'literal')
            for e in n.elts:
                v = self.vals(e.value if isinstance(e, ast.Starred) else e, env)
                if isinstance(e, ast.Starred):
                    v = self.elems(v)
                self.heap[s].setdefault('[*]', set()).update(v)
            return {s}
        if isinstance(n, ast.Dict):
            s = self.site_for(n, 'literal')
            for k, v in zip(n.keys, n.values):
                vv = self.vals(v, env)
                if k is None:
                    vv = self.elems(vv)
                if isinstance(k, ast.Constant) and isinstance(k.value, str):
                    self.heap[s].setdefault('[k:' + k.value + ']', set()).update(vv)
                else:
                    self.heap[s].setdefault('[*]', set()).update(vv)
            return {s}
        if isinstance(n, (ast.ListComp, ast.SetComp, ast.GeneratorExp, ast.DictComp)):
            e2 = dict(env)
            for g in n.generators:
                it = self.vals(g.iter, e2)
                self.consume(g.iter, it, n, e2)
                self.assign(g.target, self.elems(it), e2, n, 'unknown', unpack_elem=True)
                for c in g.ifs:
                    self.vals(c, e2)
            s = self.site_for(n, 'comp')
            if isinstance(n, ast.DictComp):
                self.vals(n.key, e2)
                ev = self.vals(n.value, e2)
            else:
                ev = self.vals(n.elt, e2)
            self.heap[s].setdefault('[*]', set()).update(ev)
            return {s}
        if isinstance(n, ast.BoolOp):
            out = set()
            for v in n.values:
                out |= self.vals(v, env)
            return out
        if isinstance(n, ast.IfExp):
            self.vals(n.test, env)
            return self.vals(n.body, env) | self.vals(n.orelse, env)
        if isinstance(n, (ast.BinOp,)):
            self.vals(n.left, env)
            self.vals(n.right, env)
            return set()
        if isinstance(n, ast.UnaryOp):
            self.vals(n.operand, env)
            return set()
        if isinstance(n, ast.Compare):
            self.vals(n.left, env)
            for c in n.comparators:
                self.vals(c, env)
            return set()
        if isinstance(n, ast.JoinedStr):
            for v in n.values:
                if isinstance(v, ast.FormattedValue):
                    self.vals(v.value, env)
            return set()
        if isinstance(n, ast.Starred):
            return self.vals(n.value, env)
        if isinstance(n, ast.Call):
            return self.call(n, env)
        if isinstance(n, ast.Lambda):
            return set()
        if isinstance(n, ast.Slice):
            for x in (n.lower, n.upper, n.step):
                self.vals(x, env)
            return set()
        return set()

    # -------------------------------------------------------------- calls
    def call(self, n, env):
        fx = self.fx
        fx.ncalls += 1
        argv = [self.vals(a.value if isinstance(a, ast.Starred) else a, env) for a in n.args]
        for i, a in enumerate(n.args):
            if isinstance(a, ast.Starred):
                argv[i] = self.elems(argv[i])
        kwv = {}
        for k in n.keywords:
            v = self.vals(k.value, env)
            if k.arg is None:
                kwv['**'] = self.elems(v)
            else:
                kwv[k.arg] = v
        f = n.func
        name = dotted(f) or ''
        short = name.split('.')[-1] if name else (f.attr if isinstance(f, ast.Attribute) else '')
        recv = None
        if isinstance(f, ast.Attribute):
            recv = self.vals(f.value, env)
        # ---- repo callees
        callees = []
        bound_self = None
        if isinstance(f, ast.Name) or (isinstance(f, ast.Attribute) and isinstance(f.value, ast.Name)
                                       and f.value.id not in env):
            callees = self.m.resolve_call(self.fi, n)
            if callees and isinstance(f, ast.Attribute) and callees[0].cls and \
                    not callees[0].is_static and not callees[0].is_classmethod and f.value.id not in ('self', 'cls'):
                # Class.method(obj, ...) explicit self: args already positional
                pass
        if isinstance(f, ast.Attribute) and isinstance(f.value, ast.Name) and f.value.id in ('self', 'cls') \
                and f.value.id in env and self.fi.cls:
            scls = self.m.modules[self.fi.module].classes.get(self.fi.cls)
            cands = []
            if scls is not None:
                m0 = self.m.method(scls, f.attr)
                if m0 is not None:
                    cands.append(m0)
                for sub in self.m.subclasses(scls.name):
                    if f.attr in sub.methods and sub.methods[f.attr] not in cands:
                        cands.append(sub.methods[f.attr])
            callees = [c for c in cands if not c.is_property]
            bound_self = recv if callees and not callees[0].is_static else None
            if callees and callees[0].is_classmethod:
                bound_self = set()
        if isinstance(f, ast.Attribute) and isinstance(f.value, ast.Call) and dotted(f.value.func) == 'super':
            callees = self.m.resolve_call(self.fi, n)
            bound_self = env.get('self', set())
        is_ctor = False
        if callees:
            r = None
            if isinstance(f, ast.Name):
                r = self.m.resolve_name(self.fi.module, f.id)
            elif isinstance(f, ast.Attribute) and isinstance(f.value, ast.Name) and f.value.id not in env:
                rr = self.m.resolve_name(self.fi.module, f.value.id)
                if rr[0] == 'module' and rr[1] in self.m.modules:
                    r = self.m.resolve_name(rr[1], f.attr)
            if r and r[0] == 'class':
                is_ctor = True
        if not callees and isinstance(f, ast.Name):
            r = self.m.resolve_name(self.fi.module, f.id)
            if r[0] == 'class' and f.id not in env:
                # class without __init__ in repo (dataclass / dict subclass without init)
                s = self.site_for(n, 'new:' + r[1].name)
                flds = [b.target.id for b in r[1].node.body if isinstance(b, ast.AnnAssign)
                        and isinstance(b.target, ast.Name)]
                for fld, av in zip(flds, argv):
                    self.heap[s].setdefault(fld, set()).update(av)
                for k, av in kwv.items():
                    self.heap[s].setdefault(k, set()).update(av)
                for av in argv:
                    self.heap[s].setdefault('[*]', set()).update(self.elems(av) | set())
                fx.nresolved += 1
                return {s}
        # dynamic attribute-call on a value: CHA by method name over repo classes
        if not callees and isinstance(f, ast.Attribute) and recv is not None and \
                short not in MUTATORS and short not in ELEM_RET and short not in ('copy',):
            cands = [c for c in fx.by_name.get(short, []) if not c.is_property and not c.is_static]
            if cands and not (isinstance(f.value, ast.Name) and f.value.id not in env and
                              self.m.resolve_name(self.fi.module, f.value.id)[0] in ('module', 'ext')):
                callees = cands
                bound_self = recv
        if callees:
            fx.nresolved += 1
            out = set()
            for c in callees:
                if is_ctor:
                    s = self.site_for(n, 'new:' + (c.cls or '?'))
                    out |= self.apply(c, [{s}] + argv, kwv, n)
                    out = {x for x in out if x[0] == 'fresh'} | {s}
                    out = {s}
                elif bound_self is not None:
                    out |= self.apply(c, [bound_self] + argv, kwv, n)
                else:
                    out |= self.apply(c, argv, kwv, n)
            return out
        # ---- generic containers / external
        is_module_func = isinstance(f, ast.Attribute) and isinstance(f.value, ast.Name) and \
            f.value.id not in env and self.m.resolve_name(self.fi.module, f.value.id)[0] in ('module', 'ext')
        if isinstance(f, ast.Attribute) and not is_module_func:
            if short == 'partition' and n.args and isinstance(n.args[0], ast.Constant) and \
                    isinstance(n.args[0].value, str):
                # str.partition(sep) returns a tuple of new strings; ndarray.partition takes an integer kth
                return set()
            if short in MUTATORS:
                self.mutate(recv, n, f'.{short}() mutates its receiver')
                allv = set()
                # what the call stores in the receiver: the value argument(s), never a dictionary key or an index
                if short in ('setdefault', 'insert'):
                    stored_args = argv[1:2]
                elif short in ('pop', 'remove', 'clear', 'popitem', 'discard', 'sort', 'reverse'):
                    stored_args = []
                else:
                    stored_args = argv
                for av in stored_args:
                    allv |= av
                for b in recv:
                    if b[0] in ('fresh', 'param'):
                        if b[0] == 'fresh':
                            h = self.heap.setdefault(b, {}).setdefault('[*]', set())
                        else:
                            h = self.sum.param_stores.setdefault((b, '[*]'), set())
                        if short in ('update', 'extend'):
                            h |= self.elems(allv)
                            for kv in kwv.values():
                                h |= kv
                        else:
                            h |= allv
                if short in ('pop', 'setdefault', 'popitem'):
                    return self.elems(recv) | (argv[1] if len(argv) > 1 else set())
                return set()
            if short in ELEM_RET:
                out = self.elems(recv)
                if short == 'get' and len(argv) > 1:
                    out |= argv[1]
                return out
            if short == 'copy':
                s = self.site_for(n, 'copy')
                self.heap[s]['[*]'] = self.elems(recv)
                for b in recv:
                    if b[0] == 'fresh':
                        for k2, v2 in self.heap.get(b, {}).items():
                            self.heap[s].setdefault(k2, set()).update(v2)
                return {s}
            if short in ALIAS_RET or short in ('reshape', 'view', 'ravel', 'squeeze', 'transpose'):
                return set(recv)
            if short in ('format', 'join') or short in STR_METHODS:
                return set()
            # unknown external method on a value: pure, fresh
            return set()
        if name in DEEP or short in DEEP:
            return {self.site_for(n, 'deepcopy')}
        if short in SHALLOW and (name in SHALLOW or name.startswith(('copy.', 'np.', 'numpy.'))) :
            s = self.site_for(n, 'shallow')
            allv = set()
            for av in argv:
                allv |= av
            self.heap[s]['[*]'] = self.elems(allv)
            if short == 'copy' and name.startswith(('np.', 'numpy.')):
                self.heap[s]['[*]'] = set()
            return {s}
        if short in ALIAS_RET:
            out = set()
            for av in argv[:1]:
                out |= av
            if short in ('zip', 'enumerate'):
                s = self.site_for(n, 'zip')
                for a_node, av in zip(n.args, argv):
                    self.consume(a_node, av, n, env)
                    self.heap[s].setdefault('[*]', set()).update(self.elems(av))
                # elements are tuples of elements
                t = self.site_for(n, 'zipitem')
                self.heap[t]['[*]'] = set(self.heap[s].get('[*]', set()))
                self.heap[s]['[*]'] = {t} | self.heap[t]['[*]']
                return {s}
            if short == 'next':
                for a_node, av in zip(n.args, argv):
                    self.consume(a_node, av, n, env)
                return self.elems(out)
            if short == 'getattr':
                return {ext_path(s0, '*') if s0[0] in ('param', 'global') else s0 for s0 in out} | \
                    {x for s0 in out if s0[0] == 'fresh' for fs in self.heap.get(s0, {}).values() for x in fs}
            return out
        if name in ('setattr',) and argv:
            self.mutate(argv[0], n, 'setattr')
        # np.<ufunc>(..., out=x)
        if 'out' in kwv:
            self.mutate(kwv['out'], n, 'out= argument')
        return set()

    def apply(self, callee: FuncInfo, argv, kwv, node):
        """Instantiate the callee summary at this call site."""
        if callee.qualname in self.fx.exceptions.get('opaque', ()):
            return set()
        s = self.fx.summary(callee)
        a = callee.node.args
        pnames = [x.arg for x in a.posonlyargs + a.args] + \
            ([a.vararg.arg] if a.vararg else []) + [x.arg for x in a.kwonlyargs] + \
            ([a.kwarg.arg] if a.kwarg else [])
        npos = len(a.posonlyargs + a.args)
        actual = {}
        for i in range(min(len(argv), npos)):
            actual[i] = argv[i]
        extra_pos = set()
        for av in argv[npos:]:
            extra_pos |= av
        for k, v in kwv.items():
            if k in pnames:
                actual[pnames.index(k)] = actual.get(pnames.index(k), set()) | v
            elif k == '**':
                for i in range(len(pnames)):
                    if i not in actual:
                        actual[i] = set(v)

        site_map = {}

        def inst_site(src):
            if src not in site_map:
                ns = ('fresh', (self.fi.qualname, ('call', getattr(node, 'lineno', 0),
                                                   getattr(node, 'col_offset', 0)) + src[1][1][:6] + (src[1][0],)))
                site_map[src] = ns
                self.heap.setdefault(ns, {})
                for fld, vs in s.heap.get(src, {}).items():
                    self.heap[ns].setdefault(fld, set()).update(inst_set(vs))
            return site_map[src]

        def inst(src):
            if src[0] == 'param':
                base = actual.get(src[1], set())
                out = set()
                for b in base:
                    cur = {b}
                    for step in src[2]:
                        nxt = set()
                        for c in cur:
                            if c[0] in ('param', 'global'):
                                nxt.add(ext_path(c, step))
                            elif c[0] == 'fresh':
                                if step.startswith('[k:'):
                                    h_ = self.heap.get(c, {})
                                    nxt |= h_.get(step, set()) | h_.get('[*]', set())
                                elif step == '[*]':
                                    for fld_, fs_ in self.heap.get(c, {}).items():
                                        if fld_ == '[*]' or fld_.startswith('[k:'):
                                            nxt |= fs_
                                elif step == '*':
                                    for fs in self.heap.get(c, {}).values():
                                        nxt |= fs
                                else:
                                    nxt |= self.heap.get(c, {}).get(step, set())
                            else:
                                nxt.add(c)
                        cur = nxt
                    out |= cur
                return out
            if src[0] == 'fresh':
                return {inst_site(src)}
            return {src}

        def inst_set(vs):
            out = set()
            for v in vs:
                out |= inst(v)
            return out

        # heap effects of the callee on objects reachable from the arguments (fresh receivers)
        for ev in s.muts:
            tg = inst(ev.target) if ev.target[0] == 'param' else {ev.target}
            for t in tg:
                if t[0] in ('param', 'global', 'default'):
                    self.sum.muts.append(Event(t, ev.func, ev.path, ev.line, ev.stmt, ev.via,
                                               (f'{self.fi.qualname}:{getattr(node, "lineno", 0)}',) + ev.chain))
        # stores into fresh receivers: replay attribute stores recorded in the callee heap for params
        for (psrc, fld), vs in list(s.param_stores.items()):
            for t in inst(psrc):
                if t[0] == 'fresh':
                    self.heap.setdefault(t, {}).setdefault(fld, set()).update(inst_set(vs))
                elif t[0] == 'param':
                    self.sum.param_stores.setdefault((t, fld), set()).update(inst_set(vs))
        if any(d.split('.')[-1] in ('lru_cache', 'cache', 'cached_property') for d in callee.decorators):
            # a memoised function hands the same object to every caller: it is process-wide state
            return {('global', f'{callee.qualname}:<memoised result>', ())}
        return inst_set(s.rets)


def _terminates(block):
    if not block:
        return False
    last = block[-1]
    if isinstance(last, (ast.Return, ast.Raise, ast.Continue, ast.Break)):
        return True
    if isinstance(last, ast.If) and last.orelse:
        return _terminates(last.body) and _terminates(last.orelse)
    return False


def _stmt_text(node):
    try:
        if isinstance(node, (ast.For, ast.While, ast.If, ast.With)):
            return ast.unparse(node).split('\n')[0]
        return ast.unparse(node)[:160]
    except Exception:
        return type(node).__name__


# ------------------------------------------------------------------ helpers
def param_name(fi: FuncInfo, idx):
    a = fi.node.args
    names = [x.arg for x in a.posonlyargs + a.args] + \
        ([a.vararg.arg] if a.vararg else []) + [x.arg for x in a.kwonlyargs] + \
        ([a.kwarg.arg] if a.kwarg else [])
    return names[idx] if idx < len(names) else f'#{idx}'


def analyse_module_params(model, modname, clsname, protect):
    """{method: [writes through protected parameters]} for the methods of one class."""
    fx = FX(model)
    ci = model.modules[modname].classes[clsname]
    out = {}
    for name, fi in sorted(ci.methods.items()):
        if name.startswith('__') and name != '__init__':
            continue
        s = fx.summary(fi)
        ws = []
        for ev in s.muts:
            if ev.target[0] == 'param' and param_name(fi, ev.target[1]) in protect:
                ws.append({'param': param_name(fi, ev.target[1]), 'stmt': ev.stmt, 'line': ev.line,
                           'via': ev.via, 'func': ev.func})
        if any(p in protect for p in [param_name(fi, i) for i in range(len(fi.node.args.args))]):
            out[name] = ws
    return out
