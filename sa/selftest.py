"""Self-test: apply single-site mutants to an in-memory overlay of the parsed
tree (nothing is executed, so no scratch copy is needed), re-run the property's
rules and require a *new* finding.  A mutant whose anchor text no longer exists
is skipped and listed."""
import json
import os
import random
from concurrent.futures import ProcessPoolExecutor

from .src import AnalysisError, SourceTree

HERE = os.path.dirname(os.path.abspath(__file__))


def load_mutants(prop=None):
    with open(os.path.join(HERE, 'mutants.json')) as fh:
        ms = json.load(fh)['mutants']
    if prop:
        ms = [m for m in ms if prop in m['props']]
    return [m for m in ms if m.get('status') != 'equivalent']


def _one(args):
    prop, m, base_keys = args
    from .check import load_prop
    from .model import Model
    from .report import run_rules
    tree = SourceTree()
    try:
        txt = tree.text(m['file'])
    except AnalysisError:
        return (m['id'], 'skipped', 'file missing')
    if txt.count(m['old']) < 1:
        return (m['id'], 'skipped', 'anchor text not present')
    ov = tree.with_overlay({m['file']: txt.replace(m['old'], m['new'], 1)})
    try:
        ctx, _ = run_rules(prop, load_prop(prop).RULES, Model(ov), 'thorough')
    except AnalysisError as exc:
        return (m['id'], 'analysis-error', str(exc))
    except Exception as exc:  # engine bug on mutated input: fail closed
        return (m['id'], 'analysis-error', f'internal: {exc!r}')
    new = [f.key for f in ctx.findings if f.key not in base_keys]
    if new:
        return (m['id'], 'caught', new[:3])
    return (m['id'], 'missed', '')


def run(prop, seed=0, jobs=16, base_keys=None):
    from .check import load_prop
    from .model import Model
    from .report import run_rules
    ms = load_mutants(prop)
    random.Random(seed).shuffle(ms)
    if base_keys is None:
        ctx, _ = run_rules(prop, load_prop(prop).RULES, Model(SourceTree()), 'thorough')
        base_keys = {f.key for f in ctx.findings}
    res = []
    if ms:
        with ProcessPoolExecutor(max_workers=min(jobs, len(ms))) as ex:
            res = list(ex.map(_one, [(prop, m, base_keys) for m in ms]))
    out = {'mutants': len(ms),
           'caught': sorted(r[0] for r in res if r[1] == 'caught'),
           'fail_closed': sorted(r[0] for r in res if r[1] == 'analysis-error'),
           'skipped': sorted(r[0] for r in res if r[1] == 'skipped'),
           'missed': sorted(r[0] for r in res if r[1] == 'missed'),
           'detail': {r[0]: r[2] for r in res}}
    return out


if __name__ == '__main__':
    import sys
    sys.path.insert(0, os.path.dirname(HERE))
    props = sys.argv[1:] or sorted({p for m in load_mutants() for p in m['props']})
    for p in props:
        try:
            r = run(p)
        except ModuleNotFoundError:
            print(p, 'no rules module')
            continue
        print(p, {k: r[k] for k in ('mutants', 'caught', 'fail_closed', 'skipped', 'missed')})
        for k in r['fail_closed']:
            print('   ', k, r['detail'][k])
