"""Self-test: apply single-site mutants to an in-memory overlay of the parsed
tree (nothing is executed, so no scratch copy is needed), re-run the property's
rules and require a *new* finding.  A mutant whose anchor text no longer exists
is skipped and listed."""
import json
import os
import random
from concurrent.futures import ProcessPoolExecutor

from .src import AnalysisError, SourceTree

HERE = os.path.dirname(os.path.abspath(__file__))


def load_mutants(prop=None):
    with open(os.path.join(HERE, 'mutants.json')) as fh:
        ms = json.load(fh)['mutants']
    own = os.path.join(HERE, 'mutants_own.json')
    if os.path.exists(own):
        with open(own) as fh:
            ms += json.load(fh)['mutants']
    if prop:
        ms = [m for m in ms if prop in m['props']]
    return [m for m in ms if m.get('status') not in ('equivalent', 'pending-rule')]


def apply_unified_diff(tree, diff_text):
    """{path: new text} for a `git diff` patch applied to the tree's current texts (in memory);
    None if a hunk does not apply."""
    import re
    files = {}
    cur = None
    hunks = []
    for line in diff_text.splitlines():
        if line.startswith('diff --git'):
            cur = None
        elif line.startswith('+++ '):
            path = line[4:].strip()
            cur = path[2:] if path.startswith('b/') else path
            files[cur] = []
        elif line.startswith('@@') and cur is not None:
            mm = re.match(r'@@ -(\d+)(?:,(\d+))? \+(\d+)(?:,(\d+))? @@', line)
            files[cur].append({'start': int(mm.group(1)), 'lines': []})
        elif cur is not None and files[cur] and (line[:1] in ' +-' or line == ''):
            files[cur][-1]['lines'].append(line if line else ' ')
    out = {}
    for path, hs in files.items():
        if path == '/dev/null':
            continue
        try:
            src = tree.text(path).split('\n')
        except AnalysisError:
            src = []
        res = []
        pos = 0
        for h in hs:
            old = [l[1:] for l in h['lines'] if l[:1] in ' -']
            new = [l[1:] for l in h['lines'] if l[:1] in ' +']
            # locate the old block near its stated position
            want = h['start'] - 1
            found = None
            for delta in sorted(range(-60, 61), key=abs):
                i = want + delta
                if i >= pos and src[i:i + len(old)] == old:
                    found = i
                    break
            if found is None:
                return None
            res += src[pos:found] + new
            pos = found + len(old)
        res += src[pos:]
        out[path] = '\n'.join(res)
    return out


EXPECT_FILE = os.path.join(HERE, 'selftest_expect.json')


def expected_caught(prop):
    """ids recorded (tools: python3-vt -m sa.selftest --record) as caught with a finding."""
    if not os.path.exists(EXPECT_FILE):
        return []
    with open(EXPECT_FILE) as fh:
        return json.load(fh).get(prop, [])


def seeded(prop=None):
    base = os.path.join(os.path.dirname(HERE), 'seeded')
    out = []
    if not os.path.isdir(base):
        return out
    for d in sorted(os.listdir(base)):
        mp = os.path.join(base, d, 'meta.json')
        pp = os.path.join(base, d, 'patch.diff')
        if os.path.exists(mp) and os.path.exists(pp):
            with open(mp) as fh:
                meta = json.load(fh)
            if meta.get('undecided_by_design'):
                continue      # documented miss: the breakage lies outside what the static family decides (DESIGN II.5)
            if prop is None or meta.get('property') == prop:
                out.append({'id': 'seed:' + d, 'patch': pp, 'props': [meta.get('property')]})
    return out


def refactors():
    """behaviour-preserving refactorings of /repo (tools/refactor_prompt.py): every check must stay silent on them."""
    base = os.path.join(os.path.dirname(HERE), 'refactors')
    out = []
    if os.path.isdir(base):
        for d in sorted(os.listdir(base)):
            pp = os.path.join(base, d, 'patch.diff')
            if os.path.exists(pp):
                out.append({'id': 'refactor:' + d, 'patch': pp, 'props': None, 'silent': True})
    return out


def repairs():
    """repairs of known findings written by independent agents (tools/repair_prompt.py): the checks must accept them —
    no new finding, no fail-closed rule, and the known finding they address is no longer reported."""
    base = os.path.join(os.path.dirname(HERE), 'repairs')
    out = []
    if os.path.isdir(base):
        for d in sorted(os.listdir(base)):
            pp, mp = os.path.join(base, d, 'patch.diff'), os.path.join(base, d, 'meta.json')
            if os.path.exists(pp) and os.path.exists(mp):
                with open(mp) as fh:
                    meta = json.load(fh)
                if meta.get('accepted_by_checks') is True:
                    out.append({'id': 'repair:' + d, 'patch': pp, 'props': None, 'silent': True, 'clears': meta.get('clears', [])})
    return out


def _one(args):
    prop, m, base_keys = args
    from .check import load_prop
    from .model import Model
    from .report import run_rules
    tree = SourceTree()
    if 'patch' in m:
        with open(m['patch']) as fh:
            texts = apply_unified_diff(tree, fh.read())
        if texts is None:
            return (m['id'], 'skipped', 'patch no longer applies')
        ov = tree.with_overlay(texts)
    else:
        try:
            txt = tree.text(m['file'])
        except AnalysisError:
            return (m['id'], 'skipped', 'file missing')
        if txt.count(m['old']) < 1:
            return (m['id'], 'skipped', 'anchor text not present')
        ov = tree.with_overlay({m['file']: txt.replace(m['old'], m['new'], 1)})
    import signal

    def _timeout(signum, frame):
        # the rule that is running fails closed; the rules after it (run_rules goes on) get a short budget each, so that one
        # variant cannot occupy a worker for good
        signal.alarm(20)
        raise AnalysisError(prop, 'engine', 'analysis time limit exceeded on this variant (term blow-up); fail closed')
    try:
        signal.signal(signal.SIGALRM, _timeout)
        signal.alarm(int(os.environ.get('VERIF_VARIANT_TIME_LIMIT', '180')))
    except ValueError:
        pass
    try:
        try:
            ctx, _ = run_rules(prop, load_prop(prop).RULES, Model(ov), 'selftest')
        finally:
            try:
                signal.alarm(0)
            except ValueError:
                pass
    except AnalysisError as exc:
        return (m['id'], 'false-alarm' if m.get('silent') else 'analysis-error', str(exc))
    except Exception as exc:  # engine bug on mutated input: fail closed
        return (m['id'], 'false-alarm' if m.get('silent') else 'analysis-error', f'internal: {exc!r}')
    new = [f.key for f in ctx.findings if f.key not in base_keys]
    if m.get('silent'):
        if new or ctx.errors:
            return (m['id'], 'false-alarm', new[:3] or [str(e) for e in ctx.errors[:2]])
        still = [k for k in m.get('clears', []) if k.startswith(prop + '.') and k in {f.key for f in ctx.findings}]
        if still:
            return (m['id'], 'false-alarm', ['still reported after the repair: ' + still[0]])
        return (m['id'], 'silent', '')
    if new:
        return (m['id'], 'caught', new[:3])
    return (m['id'], 'missed', '')


def run(prop, seed=0, jobs=16, base_keys=None):
    from .check import load_prop
    from .model import Model
    from .report import run_rules
    ms = load_mutants(prop) + seeded(prop) + refactors() + repairs()
    random.Random(seed).shuffle(ms)
    if base_keys is None:
        ctx, _ = run_rules(prop, load_prop(prop).RULES, Model(SourceTree()), 'selftest')
        base_keys = {f.key for f in ctx.findings}
    res = []
    if ms:
        with ProcessPoolExecutor(max_workers=min(jobs, len(ms))) as ex:
            res = list(ex.map(_one, [(prop, m, base_keys) for m in ms]))
    out = {'mutants': sum(1 for m in ms if not m.get('silent')),
           'refactors_silent': sorted(r[0] for r in res if r[1] == 'silent'),
           'false_alarms': sorted(r[0] for r in res if r[1] == 'false-alarm'),
           'caught': sorted(r[0] for r in res if r[1] == 'caught'),
           'fail_closed': sorted(r[0] for r in res if r[1] == 'analysis-error'),
           'skipped': sorted(r[0] for r in res if r[1] == 'skipped'),
           'missed': sorted(r[0] for r in res if r[1] == 'missed'),
           'detail': {r[0]: r[2] for r in res}}
    return out


if __name__ == '__main__':
    import sys
    sys.path.insert(0, os.path.dirname(HERE))
    record = '--record' in sys.argv
    argv = [a for a in sys.argv[1:] if a != '--record']
    props = argv or sorted({p for m in load_mutants() + seeded() for p in m['props'] if p})
    rec = {}
    if record and os.path.exists(EXPECT_FILE):
        with open(EXPECT_FILE) as fh:
            rec = json.load(fh)
    for p in props:
        try:
            r = run(p)
        except ModuleNotFoundError:
            print(p, 'no rules module')
            continue
        print(p, {k: r[k] for k in ('mutants', 'caught', 'fail_closed', 'skipped', 'missed', 'false_alarms')})
        for k in r['false_alarms']:
            print('   FALSE ALARM', k, r['detail'][k])
        for k in r['fail_closed']:
            print('   ', k, r['detail'][k])
        if record:
            rec[p] = sorted(set(r['caught']))
    if record:
        with open(EXPECT_FILE, 'w') as fh:
            json.dump(rec, fh, indent=1, sort_keys=True)
