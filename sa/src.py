"""Source tree access (with in-memory overlay for self-test mutants) and the
Cython-to-Python stripper (engine part PX)."""
import ast
import hashlib
import os
import re

REPO = os.environ.get('VERIF_REPO', '/repo')
PKG = 'regions'

EXCLUDE_DIRS = {'tests', '__pycache__'}
EXCLUDE_FILES = {'conftest.py', 'version.py', '_version.py'}


class AnalysisError(Exception):
    """The engine could not analyse something it must (exit 2)."""

    def __init__(self, rule, construct, reason):
        super().__init__(f'rule={rule} construct={construct} reason={reason}')
        self.rule = rule
        self.construct = construct
        self.reason = reason


class SourceTree:
    """Text of every analysed file, keyed by repo-relative path."""

    def __init__(self, root=None, overlay=None):
        self.root = root or REPO
        self.overlay = dict(overlay or {})
        self._cache = {}
        self._ast = {}

    def with_overlay(self, overlay):
        ov = dict(self.overlay)
        ov.update(overlay)
        return SourceTree(self.root, ov)

    def py_files(self):
        out = []
        base = os.path.join(self.root, PKG)
        for dp, dns, fns in os.walk(base):
            dns[:] = sorted(d for d in dns if d not in EXCLUDE_DIRS)
            for fn in sorted(fns):
                if fn.endswith('.py') and fn not in EXCLUDE_FILES:
                    out.append(os.path.relpath(os.path.join(dp, fn), self.root))
        # files that exist only in the overlay (a patch replayed in memory that adds a module)
        for rel in sorted(self.overlay):
            if rel.endswith('.py') and rel.startswith(PKG + '/') and rel not in out \
                    and os.path.basename(rel) not in EXCLUDE_FILES and not any(
                        part in EXCLUDE_DIRS for part in rel.split('/')[:-1]):
                out.append(rel)
        return out

    def pyx_files(self):
        base = os.path.join(self.root, PKG, '_geometry')
        if not os.path.isdir(base):
            return []
        return sorted(os.path.join(PKG, '_geometry', f)
                      for f in os.listdir(base) if f.endswith('.pyx'))

    def exists(self, rel):
        return rel in self.overlay or os.path.exists(os.path.join(self.root, rel))

    def text(self, rel):
        if rel in self.overlay:
            return self.overlay[rel]
        if rel not in self._cache:
            p = os.path.join(self.root, rel)
            try:
                with open(p, encoding='utf-8') as fh:
                    self._cache[rel] = fh.read()
            except OSError as exc:
                raise AnalysisError('M', rel, f'anchor file missing: {exc}')
        return self._cache[rel]

    def parse(self, rel):
        if rel not in self._ast:
            txt = self.text(rel)
            try:
                if rel.endswith('.pyx'):
                    txt = strip_cython(txt)
                self._ast[rel] = ast.parse(txt, filename=rel)
            except SyntaxError as exc:
                raise AnalysisError('M', rel, f'does not parse: {exc}')
        return self._ast[rel]

    def digest(self, rels):
        h = hashlib.sha256()
        for r in sorted(rels):
            h.update(r.encode())
            h.update(self.text(r).encode())
        return h.hexdigest()[:16]


# --------------------------------------------------------------------------
# PX: Cython stripper.  Line-oriented; line numbers are preserved.

_CTYPE = (r'(?:unsigned\s+)?(?:double|int|float|long|bool|DTYPE_t|DTYPE_BOOL_t|'
          r'np\.ndarray(?:\[[^\]]*\])?|point|intersections)')


def _strip_param_types(sig):
    # "double x, int nx, np.ndarray[DTYPE_t, ndim=1] vx" -> "x, nx, vx"
    out = []
    depth = 0
    cur = ''
    for ch in sig:
        if ch in '[(':
            depth += 1
        elif ch in '])':
            depth -= 1
        if ch == ',' and depth == 0:
            out.append(cur)
            cur = ''
        else:
            cur += ch
    if cur.strip():
        out.append(cur)
    names = []
    for p in out:
        p = re.sub(r'\[[^\]]*\]', '', p.strip())
        if not p:
            continue
        m = re.match(r'^(.*?)([A-Za-z_]\w*)\s*(=.*)?$', p, re.S)
        if not m:
            names.append(p)
            continue
        names.append(m.group(2) + (m.group(3) or ''))
    return ', '.join(names)


def strip_cython(text):
    lines = text.split('\n')
    out = []
    i = 0
    n = len(lines)
    skip_indent = None  # inside a "cdef extern"/"ctypedef struct" block
    while i < n:
        ln = lines[i]
        stripped = ln.strip()
        indent = len(ln) - len(ln.lstrip())
        if skip_indent is not None:
            if stripped == '' or indent > skip_indent:
                out.append('')
                i += 1
                continue
            skip_indent = None
        if re.match(r'^\s*(cdef\s+extern\b|ctypedef\s+struct\b|cdef\s+struct\b)', ln):
            skip_indent = indent
            out.append('')
            i += 1
            continue
        if re.match(r'^\s*(cimport\b|from\s+\S+\s+cimport\b|ctypedef\b)', ln):
            # may continue over several lines with a trailing comma / backslash
            out.append('')
            while lines[i].rstrip().endswith((',', '\\')) and i + 1 < n:
                i += 1
                out.append('')
            i += 1
            continue
        m = re.match(r'^(\s*)(?:cdef|cpdef|def)\s+(?:inline\s+)?(?:' + _CTYPE +
                     r'\s+)?([A-Za-z_]\w*)\s*\((.*)$', ln)
        if m and (stripped.startswith('def ') or re.match(
                r'^\s*c?p?def\s+(?:inline\s+)?' + _CTYPE + r'\s+[A-Za-z_]\w*\s*\(', ln)):
            # function header, possibly multi-line up to the closing "):"
            hdr = m.group(3)
            nlines = 1
            j = i
            while not re.search(r'\)\s*(?:nogil\s*)?(?:except\s*\S+\s*)?:\s*$', hdr) and j + 1 < n:
                j += 1
                hdr += ' ' + lines[j].strip()
                nlines += 1
            hm = re.match(r'^(.*)\)\s*(?:nogil\s*)?(?:except\s*\S+\s*)?:\s*$', hdr, re.S)
            if not hm:
                out.append(ln)
                i += 1
                continue
            params = _strip_param_types(hm.group(1))
            out.append(f'{m.group(1)}def {m.group(2)}({params}):')
            out.extend([''] * (nlines - 1))
            i = j + 1
            continue
        m = re.match(r'^(\s*)cdef\s+' + _CTYPE + r'\s+(.*)$', ln)
        if m:
            rest = m.group(2)
            # "cdef double a = e" -> "a = e"; "cdef double a, b" -> "pass"
            if '=' in rest and not re.search(r'[<>=!]=', rest.split('=')[0] + '='):
                # drop possible extra buffer type annotations already matched
                out.append(f'{m.group(1)}{rest}')
            else:
                out.append(f'{m.group(1)}pass')
            i += 1
            continue
        out.append(ln)
        i += 1
    return '\n'.join(out)
