"""OT — order-type abstract interpretation.

An expression built only from min, max, comparisons and boolean connectives of
a set of symbolic operands depends on its operands only through their weak
ordering.  Evaluating it on one representative assignment per weak ordering
(ranks 0..m) is therefore a complete decision procedure for equality with a
specification of the same kind — for all integers of any magnitude."""
import itertools

import sympy as sp

from .vg import App, BoolT, Cmp, Const, Ite, Obj, Tup, is_num


def weak_orderings(symbols, constraints=()):
    """Yield {symbol: rank} for every weak ordering satisfying a<=b constraints."""
    k = len(symbols)
    for ranks in itertools.product(range(k), repeat=k):
        m = max(ranks)
        if set(ranks) != set(range(m + 1)):
            continue
        asg = dict(zip(symbols, ranks))
        if all(asg[a] <= asg[b] for a, b in constraints):
            yield asg


def order_only(term, allowed_syms):
    """Syntactic check: the term uses only Min/Max of allowed symbols."""
    if is_num(term):
        if isinstance(term, sp.Symbol):
            return term in allowed_syms
        if isinstance(term, (sp.Min, sp.Max)):
            return all(order_only(a, allowed_syms) for a in term.args)
        return False
    if isinstance(term, Cmp):
        return order_only(term.lhs, allowed_syms) and order_only(term.rhs, allowed_syms)
    if isinstance(term, BoolT):
        return all(order_only(a, allowed_syms) for a in term.args)
    if isinstance(term, Const):
        return True
    return False


def ev(term, asg):
    """Concrete value of a term under a rank assignment."""
    if is_num(term):
        v = term.subs(asg)
        if not v.is_number:
            raise ValueError(f'unbound symbols in {term}')
        return v
    if isinstance(term, Const):
        return term.v
    if isinstance(term, Cmp):
        a, b = ev(term.lhs, asg), ev(term.rhs, asg)
        return {'<': lambda: a < b, '<=': lambda: a <= b, '==': lambda: a == b,
                '!=': lambda: a != b, 'is': lambda: a is b, 'isnot': lambda: a is not b,
                'in': lambda: a in b, 'notin': lambda: a not in b}[term.op]() == True  # noqa: E712
    if isinstance(term, BoolT):
        vals = [ev(a, asg) for a in term.args]
        if term.op == 'and':
            return all(vals)
        if term.op == 'or':
            return any(vals)
        if term.op == 'not':
            return not vals[0]
        if term.op == 'xor':
            return bool(vals[0]) != bool(vals[1])
        if term.op == 'truthy':
            return bool(vals[0])
    if isinstance(term, Ite):
        return ev(term.a, asg) if ev(term.cond, asg) else ev(term.b, asg)
    if isinstance(term, App) and term.name in ('abs', 'numpy.abs', 'numpy.absolute') and len(term.args) == 1:
        return abs(ev(term.args[0], asg))
    if isinstance(term, App) and term.name in ('binop:Add', 'binop:Sub', 'binop:Mult') and len(term.args) == 2:
        a, b = ev(term.args[0], asg), ev(term.args[1], asg)
        return a + b if term.name == 'binop:Add' else (a - b if term.name == 'binop:Sub' else a * b)
    if isinstance(term, App) and term.name in ('max', 'min') and len(term.args) >= 2:
        vals = [ev(a, asg) for a in term.args]
        return max(vals) if term.name == 'max' else min(vals)
    if isinstance(term, Tup):
        return tuple(ev(i, asg) for i in term.items)
    if isinstance(term, Obj):
        out = []
        for k, v in term.fields.items():
            try:
                out.append((k, ev(v, asg)))
            except ValueError:
                continue          # a field that is not an order-only value (e.g. an opaque object)
        return (term.cls, tuple(sorted(out, key=lambda kv: kv[0])))
    if isinstance(term, App) and term.name == 'slice':
        return ('slice',) + tuple(ev(a, asg) for a in term.args)
    raise ValueError(f'cannot evaluate {type(term).__name__} {term!r}')


def describe(asg):
    """'a<b=c<d' description of a weak ordering (stable key material)."""
    groups = {}
    for s, r in asg.items():
        groups.setdefault(r, []).append(str(s))
    return '<'.join('='.join(sorted(groups[r])) for r in sorted(groups))
