"""Static analysis machinery for astropy/regions (see /verif/DESIGN.md).

Nothing here imports or executes code from /repo: every decision is taken
from the parsed source (``ast`` for .py, a stripper + ``ast`` for .pyx).
"""
