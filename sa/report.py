"""Rule bookkeeping, known findings, evidence and replay files."""
import json
import os
import time
from dataclasses import dataclass, field

from .src import AnalysisError

VERIF = os.path.dirname(os.path.dirname(os.path.abspath(__file__)))
EVIDENCE_DIR = os.path.join(VERIF, 'evidence')
KNOWN_FILE = os.path.join(VERIF, 'known_findings.json')


@dataclass
class Finding:
    prop: str
    rule: str
    key: str       # stable: "<prop>.<rule>:<construct>[:<what>]" — never a line number
    loc: str       # file:function:line (diagnosis only)
    msg: str
    detail: dict = field(default_factory=dict)


@dataclass
class RuleDef:
    rid: str
    text: str
    fn: object
    floor: int            # minimum number of instances confirmed by hand
    tier: str = 'quick'   # 'quick' rules run always, 'thorough' only in thorough (and on self-test variants), 'deep' only on the analysed tree in thorough


class Ctx:
    """Per-run context handed to every rule."""

    def __init__(self, prop, model, tier='quick'):
        self.prop = prop
        self.model = model
        self.src = model.src
        self.tier = tier
        self.instances = {}   # rid -> list of dict
        self.findings = []
        self.notes = []
        self.errors = []      # AnalysisError per rule that failed closed
        self._rule = None

    # -- recording
    def ok(self, construct, note=''):
        self.instances.setdefault(self._rule, []).append(
            {'construct': construct, 'status': 'ok', 'note': note})

    def bad(self, construct, what, msg, loc='', detail=None):
        key = f'{self.prop}.{self._rule}:{construct}' + (f':{what}' if what else '')
        self.instances.setdefault(self._rule, []).append(
            {'construct': construct, 'status': 'VIOLATION', 'note': msg})
        self.findings.append(Finding(self.prop, self._rule, key, loc, msg, detail or {}))

    def note(self, text):
        self.notes.append(text)

    def need(self, cond, construct, reason):
        if not cond:
            raise AnalysisError(f'{self.prop}.{self._rule}', construct, reason)


def load_known():
    if not os.path.exists(KNOWN_FILE):
        return []
    with open(KNOWN_FILE) as fh:
        return json.load(fh)['findings']


def run_rules(prop, rules, model, tier='quick', only=None):
    """Run the rules of one property; return (ctx, per-rule summary)."""
    ctx = Ctx(prop, model, tier)
    summary = []
    for rd in rules:
        if only and rd.rid not in only:
            continue
        if rd.tier == 'thorough' and tier not in ('thorough', 'selftest'):
            continue
        if rd.tier == 'deep' and tier != 'thorough':
            continue          # enumeration rules: run on the analysed tree in the thorough tier, not on self-test variants
        ctx._rule = rd.rid
        ctx.instances.setdefault(rd.rid, [])
        try:
            rd.fn(ctx)
            n = len(ctx.instances[rd.rid])
            if n < rd.floor:
                raise AnalysisError(f'{prop}.{rd.rid}', 'instance-floor',
                                    f'{n} instances analysed, floor is {rd.floor} '
                                    '(an anchor vanished or the rule lost its target)')
        except AnalysisError as exc:
            # fail closed for this rule, but let the other rules report: a violation found by a rule that
            # completed is not hidden by another rule's engine failure
            ctx.errors.append(exc)
            n = len(ctx.instances[rd.rid])
        summary.append({'rule': f'{prop}.{rd.rid}', 'text': rd.text,
                        'instances': n, 'floor': rd.floor,
                        'violations': sum(1 for i in ctx.instances[rd.rid]
                                          if i['status'] != 'ok')})
    if ctx.errors and not ctx.findings:
        raise ctx.errors[0]
    return ctx, summary


def classify(findings, known=None):
    """Split findings into (new, known) using known_findings.json."""
    known = load_known() if known is None else known
    kmap = {k['key']: k for k in known if k.get('status') == 'known'}
    new, old = [], []
    for f in findings:
        if f.key in kmap:
            old.append((f, kmap[f.key]))
        else:
            new.append(f)
    return new, old


def write_replay(f: Finding, n):
    d = os.path.join(EVIDENCE_DIR, 'replay')
    os.makedirs(d, exist_ok=True)
    p = os.path.join(d, f'{f.prop}-{f.rule}-{n}.json')
    with open(p, 'w') as fh:
        json.dump({'property': f.prop, 'rule': f.rule, 'key': f.key,
                   'location': f.loc, 'message': f.msg, 'detail': f.detail,
                   'replay': f'python3-vt sa/check.py {f.prop} --replay <this file>'},
                  fh, indent=1, default=str)
    return p


def write_evidence(prop, tier, seed, ctx, summary, new, old, wall, stats,
                   explanation, trusted, assumptions, extra=None):
    os.makedirs(EVIDENCE_DIR, exist_ok=True)
    insts = [dict(rule=f'{prop}.{r}', **i) for r, lst in ctx.instances.items()
             for i in lst]
    distinct = len({(i['rule'], i['construct']) for i in insts})
    cov = {
        'explanation': explanation,
        'evaluations': len(insts),
        'distinct_nontrivial': distinct,
        'rule': ('one evaluation = one rule instance (a construct of /repo the rule '
                 'was discharged on); distinct = distinct (rule, construct) pairs; '
                 'every instance is non-trivial because rules only enumerate '
                 'constructs that carry the obligation'),
        'obligations': len(insts),
        'discharged': sum(1 for i in insts if i['status'] == 'ok'),
        'samples': insts[:12],
        'rules': summary,
        'instances': insts,
        'analysed': stats,
        'trusted_base': trusted,
        'known_findings_printed': [k['key'] for _, k in old],
        'notes': ctx.notes,
        'checker_cmd': f'python3-vt sa/check.py {prop} --tier {tier}',
        'exhaustive': False,
    }
    if extra:
        cov.update(extra)
    ev = {'property_id': prop, 'tier': tier, 'seed': seed, 'level': 'other',
          'coverage': cov, 'assumptions': assumptions,
          'wall_s': round(wall, 3), 'violations': len(new)}
    with open(os.path.join(EVIDENCE_DIR, f'{prop}.json'), 'w') as fh:
        json.dump(ev, fh, indent=1, default=str)
    return ev
