"""Small AST helpers shared by the rules."""
import ast


def dotted(node):
    """'a.b.c' for Name/Attribute chains, else None."""
    parts = []
    while isinstance(node, ast.Attribute):
        parts.append(node.attr)
        node = node.value
    if isinstance(node, ast.Name):
        parts.append(node.id)
        return '.'.join(reversed(parts))
    return None


def call_name(call):
    return dotted(call.func) if isinstance(call, ast.Call) else None


def calls_in(node):
    return [n for n in ast.walk(node) if isinstance(n, ast.Call)]


def parents(root):
    pm = {}
    for p in ast.walk(root):
        for c in ast.iter_child_nodes(p):
            pm[c] = p
    return pm


def norm(node):
    """Normalised source text of a node (stable key material)."""
    return ast.unparse(node) if node is not None else ''


def enclosing_tests(root, node, pm=None):
    """Conditions under which `node` executes inside `root`:
    list of (test expr, polarity)."""
    pm = pm or parents(root)
    out = []
    cur = node
    while cur in pm:
        par = pm[cur]
        if isinstance(par, ast.If):
            if cur in par.body:
                out.append((par.test, True))
            elif cur in par.orelse:
                out.append((par.test, False))
        elif isinstance(par, ast.IfExp):
            if cur is par.body:
                out.append((par.test, True))
            elif cur is par.orelse:
                out.append((par.test, False))
        cur = par
        if cur is root:
            break
    return list(reversed(out))


def conjuncts(test, polarity=True):
    """Flatten a test into atomic (expr, polarity) conjuncts when possible;
    returns None when the test under this polarity is not a pure conjunction."""
    if isinstance(test, ast.UnaryOp) and isinstance(test.op, ast.Not):
        return conjuncts(test.operand, not polarity)
    if isinstance(test, ast.BoolOp):
        if isinstance(test.op, ast.And) and polarity:
            out = []
            for v in test.values:
                c = conjuncts(v, True)
                if c is None:
                    return None
                out += c
            return out
        if isinstance(test.op, ast.Or) and not polarity:
            out = []
            for v in test.values:
                c = conjuncts(v, False)
                if c is None:
                    return None
                out += c
            return out
        return None
    return [(test, polarity)]


def func_params(fn):
    a = fn.args
    names = [x.arg for x in a.posonlyargs + a.args + a.kwonlyargs]
    return names


def param_default(fn, name):
    a = fn.args
    pos = a.posonlyargs + a.args
    defaults = [None] * (len(pos) - len(a.defaults)) + list(a.defaults)
    for p, d in zip(pos, defaults):
        if p.arg == name:
            return d
    for p, d in zip(a.kwonlyargs, a.kw_defaults):
        if p.arg == name:
            return d
    return None


def is_const(node, value):
    return isinstance(node, ast.Constant) and node.value == value and \
        type(node.value) is type(value)


def names_in(node):
    return {n.id for n in ast.walk(node) if isinstance(n, ast.Name)}


def stmts_of(fn):
    """All statements of a function body, nested, excluding nested defs."""
    out = []

    def rec(block):
        for s in block:
            out.append(s)
            if isinstance(s, (ast.FunctionDef, ast.ClassDef)):
                continue
            for f in ('body', 'orelse', 'finalbody'):
                if hasattr(s, f):
                    rec(getattr(s, f))
            if isinstance(s, ast.Try):
                for h in s.handlers:
                    rec(h.body)
    rec(fn.body)
    return out


def raises_in(block):
    """Exception class names raised directly in a statement block."""
    out = []
    for s in block:
        for n in ast.walk(s):
            if isinstance(n, ast.Raise) and n.exc is not None:
                e = n.exc.func if isinstance(n.exc, ast.Call) else n.exc
                out.append(dotted(e))
    return out


def strip_doc(body):
    if body and isinstance(body[0], ast.Expr) and isinstance(body[0].value, ast.Constant) \
            and isinstance(body[0].value.value, str):
        return body[1:]
    return body
