"""CFG — statement-level control-flow graph over the statement kinds the
repository uses.  Nodes are integer ids; node data carries the ast statement.
Any statement containing a call may raise: an edge goes to the innermost
enclosing handler, or to the RAISE exit."""
import ast

import networkx as nx

ENTRY, EXIT, RAISE = 'ENTRY', 'EXIT', 'RAISE'


def _has_call(node):
    return any(isinstance(n, (ast.Call, ast.Subscript, ast.Attribute, ast.BinOp))
               for n in ast.walk(node))


class CFG:
    def __init__(self, func: ast.FunctionDef, exceptions=True):
        self.g = nx.DiGraph()
        self.func = func
        self.exceptions = exceptions
        self.stmt = {}       # id -> ast stmt / expr (for tests)
        self.kind = {}       # id -> 'stmt' | 'test' | 'iter'
        self._n = 0
        for s in (ENTRY, EXIT, RAISE):
            self.g.add_node(s)
        last = self._block(func.body, [ENTRY], loop=None, handlers=[])
        for p in last:
            self.g.add_edge(p, EXIT)

    # ---------------------------------------------------------- building
    def _new(self, node, kind='stmt'):
        self._n += 1
        i = self._n
        self.g.add_node(i)
        self.stmt[i] = node
        self.kind[i] = kind
        return i

    def _exc_edge(self, i, node, handlers):
        if not self.exceptions or not _has_call(node):
            return
        tgt = handlers[-1] if handlers else RAISE
        if isinstance(tgt, list):
            for t in tgt:
                self.g.add_edge(i, t)
        else:
            self.g.add_edge(i, tgt)

    def _block(self, stmts, preds, loop, handlers):
        for st in stmts:
            preds = self._stmt(st, preds, loop, handlers)
        return preds

    def _link(self, preds, i):
        for p in preds:
            self.g.add_edge(p, i)

    def _stmt(self, st, preds, loop, handlers):
        if isinstance(st, ast.If):
            t = self._new(st.test, 'test')
            self.stmt[t] = st
            self._link(preds, t)
            self._exc_edge(t, st.test, handlers)
            a = self._block(st.body, [t], loop, handlers)
            b = self._block(st.orelse, [t], loop, handlers) if st.orelse else [t]
            return a + b
        if isinstance(st, (ast.For, ast.While)):
            h = self._new(st, 'iter')
            self._link(preds, h)
            self._exc_edge(h, st.iter if isinstance(st, ast.For) else st.test, handlers)
            ctx = {'head': h, 'breaks': []}
            body_end = self._block(st.body, [h], ctx, handlers)
            self._link(body_end, h)
            out = self._block(st.orelse, [h], loop, handlers) if st.orelse else [h]
            return out + ctx['breaks']
        if isinstance(st, ast.Try):
            # handler entry nodes
            hnodes = []
            for hd in st.handlers:
                hn = self._new(hd, 'handler')
                hnodes.append(hn)
            inner_handlers = handlers + [hnodes] if hnodes else handlers
            body_end = self._block(st.body, preds, loop, inner_handlers)
            if st.orelse:
                body_end = self._block(st.orelse, body_end, loop, handlers)
            ends = list(body_end)
            for hd, hn in zip(st.handlers, hnodes):
                ends += self._block(hd.body, [hn], loop, handlers)
            if st.finalbody:
                ends = self._block(st.finalbody, ends, loop, handlers)
            return ends
        if isinstance(st, ast.With):
            w = self._new(st, 'with')
            self._link(preds, w)
            for it in st.items:
                self._exc_edge(w, it.context_expr, handlers)
            return self._block(st.body, [w], loop, handlers)
        i = self._new(st)
        self._link(preds, i)
        if isinstance(st, ast.Return):
            if st.value is not None:
                self._exc_edge(i, st.value, handlers)
            self.g.add_edge(i, EXIT)
            return []
        if isinstance(st, ast.Raise):
            tgt = handlers[-1] if handlers else RAISE
            for t in (tgt if isinstance(tgt, list) else [tgt]):
                self.g.add_edge(i, t)
            return []
        if isinstance(st, ast.Continue):
            if loop:
                self.g.add_edge(i, loop['head'])
            return []
        if isinstance(st, ast.Break):
            if loop:
                loop['breaks'].append(i)
            return []
        if isinstance(st, (ast.FunctionDef, ast.ClassDef, ast.Import,
                           ast.ImportFrom, ast.Pass, ast.Global, ast.Nonlocal)):
            return [i]
        self._exc_edge(i, st, handlers)
        return [i]

    # ----------------------------------------------------------- queries
    def nodes_where(self, pred):
        return [i for i, s in self.stmt.items() if pred(s, self.kind[i])]

    def reachable(self, src, dst, without=()):
        g = self.g
        if without:
            g = g.copy()
            g.remove_nodes_from([w for w in without if w not in (src, dst)])
        return nx.has_path(g, src, dst) if src in g and dst in g else False

    def must_pass(self, targets, through):
        """Every path ENTRY -> t (t in targets) passes a node in `through`."""
        g = self.g.copy()
        g.remove_nodes_from([n for n in through if n not in targets])
        for t in targets:
            if t in through:
                continue
            if t in g and nx.has_path(g, ENTRY, t):
                return False
        return True

    def path_avoiding(self, src, dst, without=()):
        g = self.g.copy()
        g.remove_nodes_from([w for w in without if w not in (src, dst)])
        try:
            return nx.shortest_path(g, src, dst)
        except (nx.NetworkXNoPath, nx.NodeNotFound):
            return None

    def branch_succ(self, test_id):
        """(first node of true branch or None, first of false branch or None)."""
        st = self.stmt[test_id]
        succ = list(self.g.successors(test_id))
        def first(block):
            if not block:
                return None
            for i, s in self.stmt.items():
                if s is block[0] or (isinstance(block[0], ast.If) and s is block[0]):
                    return i
            return None
        return first(st.body), first(st.orelse)


def stmt_ends_control(block):
    """True if the statement list always leaves via continue/return/raise/break."""
    if not block:
        return False
    last = block[-1]
    if isinstance(last, (ast.Return, ast.Raise, ast.Continue, ast.Break)):
        return True
    if isinstance(last, ast.If) and last.orelse:
        return stmt_ends_control(last.body) and stmt_ends_control(last.orelse)
    return False
