"""TB — finite-domain partial evaluator for module-level tables.

Evaluates, from the AST and without executing repository code, module-level
literals (dict/list/tuple/str), later `d[k] = v` / `d[k][j] = v` statements,
`{x: x for x in lit}` / `{x: f(x) for x in lit}` comprehensions, `dict(k=v)`,
str methods on constants, `a + b` of lists.  Class references evaluate to
('cls', name); anything else to ('opaque', source text)."""
import ast

from .src import AnalysisError


class Opaque(tuple):
    pass


def _opaque(n):
    return Opaque(('opaque', ast.unparse(n)[:80]))


class ModuleTables:
    def __init__(self, model, modname, stmts=None, env=None):
        self.m = model
        self.modname = modname
        self.env = dict(env or {})
        mi = model.modules.get(modname)
        if mi is None:
            raise AnalysisError('TB', modname, 'module not found')
        body = stmts if stmts is not None else mi.tree.body
        for st in body:
            self.stmt(st)

    # ------------------------------------------------------------------
    def stmt(self, st):
        if isinstance(st, ast.Assign):
            v = self.ev(st.value)
            for t in st.targets:
                self.assign(t, v)
        elif isinstance(st, ast.AugAssign) and isinstance(st.target, ast.Name):
            cur = self.env.get(st.target.id)
            v = self.ev(st.value)
            if isinstance(cur, list) and isinstance(v, list) and isinstance(st.op, ast.Add):
                self.env[st.target.id] = cur + v
            else:
                self.env[st.target.id] = _opaque(st)
        elif isinstance(st, ast.ClassDef):
            self.env[st.name] = ('cls', st.name)
        elif isinstance(st, ast.FunctionDef):
            self.env[st.name] = ('func', st.name)
        elif isinstance(st, ast.For):
            # `for k, v in table.items(): table[k] = f(v)` over constant tables
            it = self.ev(st.iter)
            if isinstance(it, (list, tuple)) and not isinstance(it, Opaque):
                for item in it:
                    self.assign(st.target, item)
                    for s in st.body:
                        self.stmt(s)

    def assign(self, t, v):
        if isinstance(t, ast.Name):
            self.env[t.id] = v
        elif isinstance(t, ast.Subscript):
            base = self.ev(t.value)
            k = self.ev(t.slice)
            if isinstance(base, dict) and not isinstance(k, Opaque):
                try:
                    base[k] = v
                except TypeError:
                    pass
        elif isinstance(t, (ast.Tuple, ast.List)) and isinstance(v, (tuple, list)) and len(v) == len(t.elts):
            for e, x in zip(t.elts, v):
                self.assign(e, x)

    def name(self, id_):
        if id_ in self.env:
            return self.env[id_]
        r = self.m.resolve_name(self.modname, id_)
        if r[0] == 'class':
            return ('cls', r[1].name)
        if r[0] == 'func':
            return ('func', r[1].name)
        if r[0] == 'const':
            mi, nm = r[1]
            if mi.name != self.modname:
                return tables(self.m, mi.name).env.get(nm, Opaque(('opaque', id_)))
        return Opaque(('opaque', id_))

    def ev(self, n):
        if isinstance(n, ast.Constant):
            return n.value
        if isinstance(n, ast.Name):
            return self.name(n.id)
        if isinstance(n, ast.Tuple):
            return tuple(self.ev(e) for e in n.elts)
        if isinstance(n, ast.List):
            return [self.ev(e) for e in n.elts]
        if isinstance(n, ast.Set):
            return set(self.ev(e) for e in n.elts)
        if isinstance(n, ast.Dict):
            d = {}
            for k, v in zip(n.keys, n.values):
                if k is None:
                    sub = self.ev(v)
                    if isinstance(sub, dict):
                        d.update(sub)
                    continue
                kk = self.ev(k)
                try:
                    d[kk] = self.ev(v)
                except TypeError:
                    pass
            return d
        if isinstance(n, ast.Subscript):
            base = self.ev(n.value)
            if isinstance(n.slice, ast.Slice):
                lo = self.ev(n.slice.lower) if n.slice.lower else None
                hi = self.ev(n.slice.upper) if n.slice.upper else None
                stp = self.ev(n.slice.step) if n.slice.step else None
                try:
                    return base[slice(lo, hi, stp)]
                except Exception:
                    return _opaque(n)
            k = self.ev(n.slice)
            try:
                return base[k]
            except Exception:
                return _opaque(n)
        if isinstance(n, ast.BinOp) and isinstance(n.op, ast.Add):
            a, b = self.ev(n.left), self.ev(n.right)
            try:
                if not isinstance(a, Opaque) and not isinstance(b, Opaque):
                    return a + b
            except Exception:
                pass
            return _opaque(n)
        if isinstance(n, (ast.DictComp, ast.ListComp)) and len(n.generators) == 1 and not n.generators[0].ifs:
            g = n.generators[0]
            it = self.ev(g.iter)
            if isinstance(it, dict):
                it = list(it)
            if isinstance(it, str):
                it = list(it)
            if isinstance(it, (list, tuple, set)) and not isinstance(it, Opaque):
                out = {} if isinstance(n, ast.DictComp) else []
                saved = dict(self.env)
                for item in (sorted(it) if isinstance(it, set) else it):
                    self.assign(g.target, item)
                    if isinstance(n, ast.DictComp):
                        out[self.ev(n.key)] = self.ev(n.value)
                    else:
                        out.append(self.ev(n.elt))
                self.env = saved
                return out
            return _opaque(n)
        if isinstance(n, ast.Call):
            f = n.func
            if isinstance(f, ast.Name) and f.id == 'dict':
                d = {}
                if n.args:
                    a0 = self.ev(n.args[0])
                    if isinstance(a0, dict):
                        d.update(a0)
                    elif isinstance(a0, (list, tuple)) and not isinstance(a0, Opaque):
                        try:
                            d.update(dict(a0))
                        except Exception:
                            return _opaque(n)
                    else:
                        d['__opaque__'] = _opaque(n.args[0])
                for k in n.keywords:
                    if k.arg:
                        d[k.arg] = self.ev(k.value)
                return d
            if isinstance(f, ast.Name) and f.id in ('list', 'tuple', 'sorted') and len(n.args) == 1:
                a0 = self.ev(n.args[0])
                if isinstance(a0, dict):
                    a0 = list(a0)
                if isinstance(a0, (list, tuple, set)) and not isinstance(a0, Opaque):
                    r = sorted(a0) if f.id == 'sorted' else list(a0)
                    return tuple(r) if f.id == 'tuple' else r
            if isinstance(f, ast.Name) and f.id == 'zip':
                args = [self.ev(a) for a in n.args]
                if all(isinstance(a, (list, tuple)) and not isinstance(a, Opaque) for a in args):
                    return list(zip(*args))
            if isinstance(f, ast.Attribute):
                base = self.ev(f.value)
                args = [self.ev(a) for a in n.args]
                if isinstance(base, str) and f.attr in ('upper', 'lower', 'replace', 'strip', 'format', 'title') \
                        and not any(isinstance(a, Opaque) for a in args):
                    try:
                        return getattr(base, f.attr)(*args)
                    except Exception:
                        return _opaque(n)
                if isinstance(base, dict) and f.attr in ('keys', 'values', 'items') and not args:
                    return list(getattr(base, f.attr)())
                if isinstance(base, dict) and f.attr == 'get' and args:
                    return base.get(args[0], args[1] if len(args) > 1 else None)
            return _opaque(n)
        if isinstance(n, ast.JoinedStr):
            parts = []
            for v in n.values:
                if isinstance(v, ast.Constant):
                    parts.append(v.value)
                else:
                    x = self.ev(v.value)
                    if isinstance(x, Opaque):
                        return _opaque(n)
                    parts.append(str(x))
            return ''.join(parts)
        if isinstance(n, ast.Attribute) and isinstance(n.value, ast.Name) and n.value.id == 'string' \
                and n.attr in ('ascii_lowercase', 'ascii_uppercase', 'digits'):
            import string as _string
            return getattr(_string, n.attr)
        if isinstance(n, ast.Attribute):
            base = self.ev(n.value)
            if isinstance(base, tuple) and len(base) == 2 and base[0] == 'cls' and n.attr == '__name__':
                return base[1]
            return _opaque(n)
        return _opaque(n)


_cache = {}


def tables(model, modname):
    key = (id(model), modname)
    if key not in _cache:
        _cache[key] = ModuleTables(model, modname)
    return _cache[key]


def class_tables(model, clsname, module=None):
    """Class-level constant tables of a class (evaluated in class scope)."""
    ci = model.cls(clsname, module)
    base = tables(model, ci.module)
    t = ModuleTables(model, ci.module, stmts=[s for s in ci.node.body
                                               if isinstance(s, (ast.Assign, ast.AugAssign))], env=base.env)
    return t.env
