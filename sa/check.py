#!/usr/bin/env python3
"""CLI: python3-vt sa/check.py <Cxx> [--tier quick|thorough] [--only R1,R2]

exit 0  every armed rule instance held (KNOWN-FINDING lines may be printed)
exit 1  at least one `VIOLATION property=<id> replay=<path>` line
exit 2  ANALYSIS-ERROR: the engine could not analyse something it must
"""
import argparse
import importlib
import os
import sys
import time
import traceback

sys.path.insert(0, os.path.dirname(os.path.dirname(os.path.abspath(__file__))))

from sa.model import Model  # noqa: E402
from sa.report import (classify, run_rules, write_evidence,  # noqa: E402
                       write_replay)
from sa.src import AnalysisError, SourceTree  # noqa: E402


def load_prop(prop):
    return importlib.import_module(f'sa.rules.{prop.lower()}')


def run_property(prop, tier, only=None, tree=None):
    mod = load_prop(prop)
    model = Model(tree or SourceTree())
    ctx, summary = run_rules(prop, mod.RULES, model, tier, only)
    return mod, model, ctx, summary


def main(argv=None):
    ap = argparse.ArgumentParser()
    ap.add_argument('prop')
    ap.add_argument('--tier', default=os.environ.get('VERIF_TIER', 'quick'),
                    choices=['quick', 'thorough'])
    ap.add_argument('--only', default=None)
    ap.add_argument('--no-selftest', action='store_true')
    ap.add_argument('--replay', default=None,
                    help='replay file of a reported finding: re-decide that single rule instance on the current tree')
    args = ap.parse_args(argv)
    prop = args.prop.upper()
    if args.replay:
        import json
        with open(args.replay) as fh:
            rp = json.load(fh)
        try:
            mod, model, ctx, summary = run_property(rp['property'], 'thorough', {rp['rule']})
        except AnalysisError as exc:
            print(f'ANALYSIS-ERROR {exc}')
            return 2
        hit = [f for f in ctx.findings if f.key == rp['key']]
        if hit:
            print(f'REPRODUCED {rp["key"]}\n  at {hit[0].loc}\n  {hit[0].msg}')
            print(f'VIOLATION property={rp["property"]} replay={args.replay}')
            return 1
        print(f'NOT REPRODUCED on the current tree: {rp["key"]}')
        return 0
    seed = int(os.environ.get('VERIF_SEED', '0') or 0)
    only = set(args.only.split(',')) if args.only else None
    t0 = time.time()
    import signal

    def _timeout(signum, frame):
        signal.alarm(30)       # the remaining rules get a short budget each
        raise AnalysisError(prop, 'engine', 'analysis time limit exceeded (term blow-up); fail closed')
    signal.signal(signal.SIGALRM, _timeout)
    signal.alarm(int(os.environ.get('VERIF_TIME_LIMIT', '900' if args.tier == 'thorough' else '300')))
    try:
        mod, model, ctx, summary = run_property(prop, args.tier, only)
        # positive controls: zero-expected rules must fire on a tiny example
        if hasattr(mod, 'positive_controls'):
            mod.positive_controls()
        extra = {}
        st_error = None
        if args.tier == 'thorough' and not args.no_selftest and not only:
            from sa import selftest
            st = selftest.run(prop, seed=seed)
            extra['selftest'] = st
            # self-test failures are reported after (never instead of) the findings on the analysed tree
            if st['missed']:
                st_error = AnalysisError(f'{prop}.selftest', ','.join(st['missed']),
                                         'SELFTEST-MISS: the checker did not report '
                                         'a seeded breakage it is designed to catch')
            # a breakage that used to yield a finding must not degrade to fail-closed (engine regression)
            regress = sorted(set(st['fail_closed']) & set(selftest.expected_caught(prop)))
            if regress and st_error is None:
                st_error = AnalysisError(f'{prop}.selftest', ','.join(regress),
                                         'SELFTEST-REGRESSION: a seeded breakage that was reported as a finding now only '
                                         'fails closed: ' + str(st['detail'][regress[0]])[:200])
            # a variant that no longer applies to the current tree tests nothing: it has to be rebased, not ignored
            # (informational only: on a tree somebody has edited, variants touching the edited lines cannot apply, and that
            # must not turn a silent check into an error; tools/stale_variants.sh is run before every commit of /verif)
            if st['skipped']:
                print(f'SELFTEST-STALE (informational): {len(st["skipped"])} self-test variant(s) do not apply to this tree: '
                      + ', '.join(st['skipped'][:6]))
            # behaviour-preserving refactorings must leave the check silent
            if st['false_alarms'] and st_error is None:
                fa = st['false_alarms']
                st_error = AnalysisError(f'{prop}.selftest', ','.join(fa),
                                         'SELFTEST-FALSE-ALARM: the checker reports on a behaviour-preserving refactoring: '
                                         + str(st['detail'][fa[0]])[:200])
        new, old = classify(ctx.findings)
        for f, k in old:
            print(f'KNOWN-FINDING: property={prop} {k["what"]} [{f.key}]')
        stats = model.stats()
        write_evidence(prop, args.tier, seed, ctx, summary, new, old,
                       time.time() - t0, stats, mod.EXPLANATION, mod.TRUSTED,
                       mod.ASSUMPTIONS, extra)
        for s in summary:
            print(f'  {s["rule"]}: {s["instances"]} instances '
                  f'(floor {s["floor"]}), {s["violations"]} violating')
        for exc in ctx.errors:
            print(f'ANALYSIS-ERROR {exc} (rule failed closed; findings of the other rules follow)')
        if new:
            for n, f in enumerate(new):
                p = write_replay(f, n)
                print(f'  finding {f.key}\n    at {f.loc}\n    {f.msg}')
                print(f'VIOLATION property={prop} replay={p}')
            return 1
        if ctx.errors:
            return 2
        if st_error is not None:
            print(f'ANALYSIS-ERROR {st_error}')
            return 2
        print(f'OK property={prop} tier={args.tier} rules={len(summary)} '
              f'instances={sum(s["instances"] for s in summary)} '
              f'known={len(old)} wall={time.time() - t0:.2f}s')
        return 0
    except AnalysisError as exc:
        print(f'ANALYSIS-ERROR {exc}')
        return 2
    except Exception:  # a traceback must not look like a violation
        traceback.print_exc()
        print(f'ANALYSIS-ERROR rule={prop} construct=engine reason=internal error')
        return 2


if __name__ == '__main__':
    sys.exit(main())
